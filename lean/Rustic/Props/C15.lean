import Rustic.Lemmas.CommandTableConfig
import Rustic.Model.CommandSteps
import Rustic.Gen.RepositoryApi
/-
C15 — Append-only and dry-run modes never remove or overwrite stored data.

Model: `Rustic/Model/CommandTable.lean` — one row per public repository operation: refused with which
error (before any storage operation) or which kinds of storage operations it may issue, depending on
the repository's append-only flag and the command's dry-run flag.  The theorems are exactly as good as
the table; the traffic check (`harness/src/c15.rs`, recorded `MemBackend` log of the real commands)
validates the table on every run — on plain and hot/cold repositories (`hc`: the operations of both stores
are merged), intact and damaged.  Files are content-addressed (a write under an existing id carries the
same bytes — the harness checks the bytes of every pre-existing file of every store after every command).
The completeness of the table is a theorem about the CURRENT source: `Rustic.Gen.repositoryPublicFns`,
`repositoryDryRunFns`, `dryRunOptionStructs` are regenerated from crates/core/src on every check run
(tools/c15_api_table.py); a new public `Repository` method or dry-run flag that the table does not classify
breaks `table_covers_api` / `dry_flags_covered`.
-/
namespace Rustic.Props.C15
open Rustic.CommandTable

/-- On an append-only repository no operation issues a removal of a snapshot, index or pack file. -/
theorem append_only_no_removal (hc : Bool) (cmd : Cmd) :
    match run hc true cmd with
    | .refused _ => True
    | .runs ops => ∀ op ∈ ops, op.isProtectedRemoval = false := by
  cases h : run hc true cmd with
  | refused e => trivial
  | runs ops => exact run_appendOnly_no_protected_removal hc cmd ops h

/-- Every operation that (on an ordinary repository) may remove a snapshot, index or pack file is refused
on an append-only repository — with an error, before touching storage (`refused` carries no operations:
`conforms` demands an empty operation list). -/
theorem destructive_refused_before_storage (hc : Bool) (cmd : Cmd) (ops : List Op) (h : run hc false cmd = .runs ops)
    (hd : ∃ op ∈ ops, op.isProtectedRemoval = true) : ∃ e, run hc true cmd = .refused e := by
  cases cmd with
  | backup src d => cases d <;> (cases h; simp [dataWrites, Op.isProtectedRemoval] at hd)
  | deleteSnapshots => exact ⟨_, rfl⟩
  | saveSnapshots => cases h; simp [Op.isProtectedRemoval] at hd
  | prunePlan => cases h; simp at hd
  | prune => exact ⟨_, rfl⟩
  | repairIndex d => exact ⟨_, rfl⟩
  | repairSnapshots del d =>
    cases del
    · cases d <;> (cases h; simp [dataWrites, Op.isProtectedRemoval] at hd)
    · exact ⟨_, rfl⟩
  | rewriteSnapshots fg d =>
    cases fg
    · cases d <;> (cases h; simp [Op.isProtectedRemoval] at hd)
    · exact ⟨_, rfl⟩
  | rewriteTrees fg d =>
    cases fg
    · cases d <;> (cases h; simp [dataWrites, Op.isProtectedRemoval] at hd)
    · exact ⟨_, rfl⟩
  | applyConfig c =>
    cases c with
    | rejected sao why => simp [run] at h
    | _ => cases h; simp [Op.isProtectedRemoval] at hd
  | addKey => cases h; simp [Op.isProtectedRemoval] at hd
  | deleteKey => cases h; simp [Op.isProtectedRemoval] at hd
  | copyInto => cases h; simp [dataWrites, Op.isProtectedRemoval] at hd
  | mergeSnapshots => cases h; simp [dataWrites, Op.isProtectedRemoval] at hd
  | repairHotcold d =>
    cases hc
    · simp [run] at h
    · cases d <;> (cases h; simp [hotcoldCopies, Op.isProtectedRemoval] at hd)
  | prepareRestore d => cases h; simp at hd
  | init => simp [run] at h
  | initWithConfig b => cases h; simp [Op.isProtectedRemoval] at hd
  | initHot => cases hc <;> (cases h; simp [Op.isProtectedRemoval] at hd)
  | readOnly => cases h; simp at hd

/-- The destructive operations and the error each returns on an append-only repository. -/
theorem destructive_commands_table (hc : Bool) :
    run hc true .deleteSnapshots = .refused .repository ∧ run hc true .prune = .refused .appendOnly ∧
    (∀ d, run hc true (.repairIndex d) = .refused .appendOnly) ∧
    (∀ d, run hc true (.repairSnapshots true d) = .refused .appendOnly) ∧
    (∀ d, run hc true (.rewriteSnapshots true d) = .refused .appendOnly) ∧
    (∀ d, run hc true (.rewriteTrees true d) = .refused .appendOnly) ∧
    (∀ c, c ≠ .setAppendOnly false → (∀ why, c ≠ .rejected (some false) why) →
      run hc true (.applyConfig c) = .refused .appendOnly) ∧
    -- options that fail validation are refused whatever the flag says (guard first, then the validation error)
    (∀ ao sao why, ∃ e, run hc ao (.applyConfig (.rejected sao why)) = .refused e) := by
  refine ⟨rfl, rfl, fun _ => rfl, fun _ => rfl, fun _ => rfl, fun _ => rfl, ?_, ?_⟩
  · intro c hne hrej
    cases c with
    | setAppendOnly b => cases b <;> simp_all [run]
    | other ch => simp [run]
    | rejected sao why =>
      have : sao ≠ some false := fun h => hrej why (by rw [h])
      simp [run, this]
  · intro ao sao why
    simp only [run]
    split <;> exact ⟨_, rfl⟩

/-- A command run with its dry-run flag performs no write and no removal at all (or is refused) — `cmd` ranges over
every row AND every flag of a row; for backup that includes the source kind (`BackupSource`: a caller-supplied
`ReadSource`, local paths, stdin, a stdin command — see `backup_dry_run_no_mutation_for_every_source` below for HOW the
flag reaches the backend from each entry point). -/
theorem dry_run_no_ops (hc appendOnly : Bool) (cmd : Cmd) (h : cmd.isDryRun = true) :
    run hc appendOnly cmd = .runs [] ∨ ∃ e, run hc appendOnly cmd = .refused e := by
  cases cmd <;> simp [Cmd.isDryRun] at h
  case backup src d => subst h; left; rfl
  case repairIndex d => subst h; cases appendOnly <;> simp [run]
  case repairSnapshots del d => subst h; cases appendOnly <;> cases del <;> simp [run]
  case rewriteSnapshots fg d => subst h; cases appendOnly <;> cases fg <;> simp [run]
  case rewriteTrees fg d => subst h; cases appendOnly <;> cases fg <;> simp [run]
  case repairHotcold d => subst h; cases hc <;> simp [run]
  case prepareRestore d => left; rfl

/-- Histories: along any sequence of operations that conform to the table, as long as the repository is
marked append-only before each of them, every snapshot / index / pack file present at the start is still
present at the end (any number of operations, any concrete files). -/
theorem append_only_history_keeps_files (s : State) (es : List Exec) (h : AllAppendOnly s es) (f : File)
    (hf : f ∈ s.files) (hp : f.isProtected = true) : f ∈ (es.foldl step s).files :=
  history_keeps es s h f hf hp

/-- Append-only can only be left through `apply_config(set_append_only = false)` — or by writing a new config
over the repository with `init_with_config` (which the code does not guard: the table has that row because the
API tie demanded a classification of the method, and the traffic check confirms it — token `reinit`). -/
theorem append_only_left_only_by_config (s : State) (e : Exec) (hao : s.appendOnly = true)
    (h : (step s e).appendOnly = false) :
    e.cmd = .applyConfig (.setAppendOnly false) ∨ e.cmd = .initWithConfig false := by
  simp only [step] at h
  cases hc : e.cmd with
  | applyConfig c =>
    cases c with
    | setAppendOnly b =>
      cases b
      · exact .inl rfl
      · simp [hc, run, hao] at h
    | other ch => simp [hc, run, hao] at h
    | rejected sao why => simp [hc, run, hao] at h
  | initWithConfig b =>
    cases b
    · exact .inr rfl
    · simp [hc, run] at h
  | _ => simp [hc, hao] at h

/-! ### refused commands — in particular refused config changes — change nothing, not even the handle's view -/

/-- A command the table refuses, executed conformingly, leaves the state exactly as it was: no file changes and the
append-only flag the handle's guards read is the one before. -/
theorem refused_command_changes_nothing (s : State) (e : Exec) (err : ErrKind)
    (hr : run s.hotCold s.appendOnly e.cmd = .refused err) (hconf : conforms s e = true) :
    (step s e).appendOnly = s.appendOnly ∧ (step s e).files = s.files := by
  simp only [conforms, hr, List.isEmpty_iff] at hconf
  simp only [step, hr, hconf, List.foldl_nil, and_true]
  split <;> simp_all

/-- A config change that `apply_config` refuses because an option fails validation inside `ConfigOptions::apply` — alone
or TOGETHER with `set_append_only(false)` — is refused in every state, and afterwards every command of the table has
the outcome it had before: on an append-only repository every destructive command is still refused.  (The code
obtains this by applying the options to a clone of the handle's config; `Rustic.Config.applyConfigH`,
`handle_flag_is_table_flag` below.) -/
theorem rejected_config_change_keeps_every_guard (s : State) (sao : Option Bool) (why : Rejection) (ops : List ConcreteOp) :
    (∃ err, run s.hotCold s.appendOnly (.applyConfig (.rejected sao why)) = .refused err) ∧
    ∀ cmd, run s.hotCold (step s ⟨.applyConfig (.rejected sao why), ops⟩).appendOnly cmd = run s.hotCold s.appendOnly cmd := by
  have hrun : ∃ err, run s.hotCold s.appendOnly (.applyConfig (.rejected sao why)) = .refused err := by
    simp only [run]; split <;> exact ⟨_, rfl⟩
  refine ⟨hrun, fun cmd => ?_⟩
  obtain ⟨err, he⟩ := hrun
  have : (step s ⟨.applyConfig (.rejected sao why), ops⟩).appendOnly = s.appendOnly := by
    simp only [step]
  rw [this]

/-- every command of the history conforms to the table (in the state it is issued in). -/
def AllConform (s : State) : List Exec → Prop
  | [] => True
  | e :: es => conforms s e = true ∧ AllConform (step s e) es

instance decAllConform : (s : State) → (es : List Exec) → Decidable (AllConform s es)
  | _, [] => isTrue trivial
  | s, e :: es =>
    have := decAllConform (step s e) es
    by unfold AllConform; infer_instance

/-- The premise "append-only before each command" of `append_only_history_keeps_files` is DERIVED for every conforming
history that contains neither an `apply_config(set_append_only = false)` that passes validation nor an
`init_with_config` with the flag off — whatever else it contains: refused commands, config changes rejected by a
validation even when they carry `set_append_only(false)` (`.rejected (some false) _`), key changes, re-arming …
Hence on such a history (any length) every snapshot / index / pack file present at the start survives. -/
theorem append_only_persists_without_disarm (es : List Exec) (s : State) (hao : s.appendOnly = true)
    (hn : ∀ e ∈ es, e.cmd ≠ .applyConfig (.setAppendOnly false) ∧ e.cmd ≠ .initWithConfig false)
    (hc : AllConform s es) : AllAppendOnly s es := by
  induction es generalizing s with
  | nil => trivial
  | cons e es ih =>
    obtain ⟨hce, hrest⟩ := hc
    refine ⟨hao, hce, ih (step s e) ?_ (fun e' he' => hn e' (List.mem_cons_of_mem _ he')) hrest⟩
    cases hs : (step s e).appendOnly with
    | true => rfl
    | false =>
      have := append_only_left_only_by_config s e hao hs
      have hne := hn e (by simp)
      rcases this with h | h
      · exact absurd h hne.1
      · exact absurd h hne.2

theorem files_survive_without_disarm (es : List Exec) (s : State) (hao : s.appendOnly = true)
    (hn : ∀ e ∈ es, e.cmd ≠ .applyConfig (.setAppendOnly false) ∧ e.cmd ≠ .initWithConfig false)
    (hc : AllConform s es) (f : File) (hf : f ∈ s.files) (hp : f.isProtected = true) : f ∈ (es.foldl step s).files :=
  history_keeps es s (append_only_persists_without_disarm es s hao hn hc) f hf hp

/-- The table's single flag IS the handle's in-memory flag: for every in-memory config, stored config and options,
the config model of `apply_config` on the handle (`Rustic.Config.applyConfigH`: guard on the in-memory copy, options
applied to a clone) is refused exactly when the table refuses the classified change, and the append-only flag of
the handle's in-memory config afterwards is the flag of the table's next state.  In particular (first theorem above)
`Err` ⇒ the in-memory config — hence every guard of that handle — is unchanged. -/
theorem handle_flag_is_table_flag (mem : Rustic.Config.ConfigFile) (st : Rustic.Config.Store)
    (o : Rustic.Config.ConfigOptions) (hc : Bool) (files : List File) (ops : List ConcreteOp) :
    ((∃ err, (Rustic.Config.applyConfigH mem st o).2.2 = .error err) ↔
      ∃ k, run hc (flagOf mem) (.applyConfig (classify mem o)) = .refused k) ∧
    flagOf (Rustic.Config.applyConfigH mem st o).1 =
      (step ⟨flagOf mem, files, hc⟩ ⟨.applyConfig (classify mem o), ops⟩).appendOnly :=
  applyConfigH_flag_is_table_flag mem st o hc files ops

/-- The harness tokens: what the traffic check expects is a refusal exactly where the table refuses. -/
def aoTokens : List String :=
  ["backup.new", "backup.same", "backup.dry.new", "backup.dry.same", "backup.local.new", "backup.local.same",
   "backup.local.dry.new", "backup.local.dry.same", "backup.cmd.new", "backup.cmd.same", "backup.cmd.dry.new",
   "backup.cmd.dry.same", "forget", "prune", "prune.instant", "prune.all",
   "prune.early", "prune.instant.early", "prune.instant.all", "prune.fast", "prune.uncomp", "prune.cacheable", "prune.noresize",
   "prune.unused0.repackunl", "prune.keepdel.keeppack", "prune.instant.early.all.unused0", "prune.instant.ignore",
   "prune_plan", "repair_index", "repair_index.dry", "repair_index.readall", "repair_index.readall.dry",
   "repair_snap.delete", "repair_snap.delete.dry", "repair_snap.keep", "repair_snap.keep.dry", "rewrite.forget",
   "rewrite.forget.dry", "rewrite.keep", "rewrite.keep.dry", "rewtrees.forget", "rewtrees.forget.dry", "rewtrees.keep",
   "rewtrees.keep.dry", "rewtrees.forget.excl", "rewtrees.forget.excl.dry", "rewtrees.keep.excl", "rewtrees.keep.excl.dry",
   "merge", "merge.delete", "config.tg", "config.ev", "config.none", "config.ao1", "config.ao0", "key.add", "key.del",
   "check", "restore", "readonly", "restore.plan", "restore.plan.dry", "hotcold", "hotcold.packs", "hotcold.dry",
   "hotcold.packs.dry", "copy", "init", "reinit", "init_hot"]

/-- the tokens of config changes that `ConfigOptions::apply` rejects (every rejectable option × with
`set_append_only(false)` / `(true)` / without). -/
def rejectedTokens : List String :=
  ["config.ao0.xver", "config.ao0.xchunk", "config.ao0.xcomp", "config.ao0.xtsize", "config.ao0.xtlimit",
   "config.ao0.xdsize", "config.ao0.xdlimit", "config.ao0.xminpct", "config.ao0.xmaxpct", "config.ao1.xver",
   "config.ao1.xchunk", "config.ao1.xcomp", "config.ao1.xtsize", "config.ao1.xtlimit", "config.ao1.xdsize",
   "config.ao1.xdlimit", "config.ao1.xminpct", "config.ao1.xmaxpct", "config.tg.xver", "config.tg.xchunk",
   "config.tg.xcomp", "config.tg.xtsize", "config.tg.xtlimit", "config.tg.xdsize", "config.tg.xdlimit",
   "config.tg.xminpct", "config.tg.xmaxpct"]

/-- the storage operations behind a shown kinds string (`*` = not compared). -/
def kindsOps : String → Option (List Op)
  | "-" | "*" => some []
  | "w.snapshot" => some [.write .snapshot]
  | "r.snapshot" => some [.remove .snapshot]
  | "r.snapshot+w.snapshot" => some [.remove .snapshot, .write .snapshot]
  | "w.config" => some [.write .config]
  | "w.key" => some [.write .key]
  | "r.key" => some [.remove .key]
  | _ => none

def errToken : ErrKind → String
  | .appendOnly => "err:AppendOnly"
  | .repository => "err:Repository"
  | .configuration => "err:Configuration"
  | .validation .unsupported => "err:Unsupported"
  | .validation .invalidInput => "err:InvalidInput"
  | .validation .internal => "err:Internal"

/-- the rows of a token are run in order; the first refusal is the result and everything shown was issued by the
rows before it; without refusal the result is `ok` (`skip`: nothing to delete) and every shown kind is allowed. -/
def rowsAgree (hc ao : Bool) : List Cmd → List Op → String → List Op → Bool
  | [], allowed, res, shown => (res == "ok" || res == "skip") && shown.all allowed.contains
  | c :: cs, allowed, res, shown =>
    match run hc ao c with
    | .refused e => res == errToken e && shown.all allowed.contains
    | .runs ops => rowsAgree hc ao cs (allowed ++ ops) res shown

def refusalAgrees (hc ao : Bool) (tok : String) : Bool :=
  match cmdsOfToken tok, expected { appendOnly := ao, hotCold := hc } tok with
  | some cs, some (res, kinds, _) =>
    (match kindsOps kinds with
     | some shown => rowsAgree hc ao cs [] res shown
     | none => false)
  | _, _ => false

theorem expected_agrees_with_table : ∀ hc ao, aoTokens.all (refusalAgrees hc ao) = true := by
  decide

/-- … and for the 27 rejected config changes: refused (guard first, then the validation error), nothing shown, and the
scenario state — in particular the append-only flag — is the one before. -/
theorem expected_rejected_config_agrees : ∀ hc ao, rejectedTokens.all (fun tok =>
    refusalAgrees hc ao tok &&
    (match cmdOfToken tok, expected { appendOnly := ao, hotCold := hc } tok with
     | some (.applyConfig (.rejected _ _)), some (res, kinds, s') =>
       (res == "err:AppendOnly" || res == "err:Unsupported" || res == "err:Internal" || res == "err:InvalidInput") &&
       kinds == "-" && s'.appendOnly == ao
     | _, _ => false)) = true := by
  decide

/-! ### the table is complete for the current source (API tie, regenerated on every check) -/

-- Diagnostic only (the theorems below are the obligations): when the tie is broken, name the offending methods /
-- flags in the first line of the build error, which is what `./check` prints.
#eval show IO Unit from do
  let api := Rustic.Gen.repositoryPublicFns
  let unclassified := api.filter (fun n => !tableMethods.contains n)
  let gone := tableMethods.filter (fun n => !api.contains n)
  let dryNew := Rustic.Gen.repositoryDryRunFns.filter (fun n => !dryParamMethods.contains n) ++
    Rustic.Gen.dryRunOptionStructs.filter (fun n => !dryFieldSites.contains n)
  let dryGone := dryParamMethods.filter (fun n => !Rustic.Gen.repositoryDryRunFns.contains n) ++
    dryFieldSites.filter (fun n => !Rustic.Gen.dryRunOptionStructs.contains n)
  if !(unclassified.isEmpty && gone.isEmpty && dryNew.isEmpty && dryGone.isEmpty) then
    throw (IO.userError s!"C15 table tie broken — public Repository methods not classified by the command table: {unclassified}; methods named by a row but gone from repository.rs: {gone}; dry_run flags without a dry-run row: {dryNew}; dry-run rows without a dry_run flag in the source: {dryGone}")

/-- every public method of `Repository` in the current source is classified: a row of the table (mutating /
destructive / dry-run capable) or the reviewed read-only list (`Cmd.methods .readOnly`). -/
theorem table_covers_api : Rustic.Gen.repositoryPublicFns.all tableMethods.contains = true := by
  decide

/-- every method a row names exists in the current source, and no method is claimed by two rows. -/
theorem table_rows_exist :
    tableMethods.all Rustic.Gen.repositoryPublicFns.contains = true ∧ tableMethods.Nodup := by
  decide

/-- `allCmds` has a representative of every row (a new `Cmd` constructor must be given `methods` and be listed). -/
theorem allCmds_complete (c : Cmd) : ∃ c' ∈ allCmds, c'.methods = c.methods := by
  cases c <;> simp [allCmds, Cmd.methods]

/-- every dry-run flag of the current source belongs to a row with a dry-run flag, and vice versa: the methods with a
`dry_run: bool` parameter are exactly those of the rows marked `.param`, the option structs with a `pub dry_run`
field are exactly the `.field` sites; a row has a dry-run flag in the table iff it has such a source. -/
theorem dry_flags_covered :
    Rustic.Gen.repositoryDryRunFns.all dryParamMethods.contains = true ∧
    dryParamMethods.all Rustic.Gen.repositoryDryRunFns.contains = true ∧
    Rustic.Gen.dryRunOptionStructs.all dryFieldSites.contains = true ∧
    dryFieldSites.all Rustic.Gen.dryRunOptionStructs.contains = true ∧
    (∀ c : Cmd, c.isDryRun = true → c.drySource.isSome = true) := by
  refine ⟨by decide, by decide, by decide, by decide, ?_⟩
  intro c h
  cases c <;> simp_all [Cmd.isDryRun, Cmd.drySource]

/-- a `c15 dryt` scenario is well formed: the token is a dry-run row, the twin's expectation exists, and every
operation the twin is expected to issue is allowed by the table for the non-dry row (or the twin is refused). -/
def twinOk (d tok : String) : Bool :=
  match cmdOfToken tok, dryTwin d tok with
  | some c, some (res, ops) =>
    c.isDryRun &&
    (match run (isHotColdDamage d) false c.nonDry with
     | .refused e => res == errToken e && ops.isEmpty
     | .runs allowed => res == "ok" && ops.all allowed.contains)
  | _, _ => false

/-- the twin really wrote or removed something (the dry-run oracle was meaningful for that row). -/
def twinEffective (c : Cmd) (d tok : String) : Bool :=
  match cmdOfToken tok, dryTwin d tok with
  | some c', some (_, ops) => c'.isDryRun && c'.methods == c.methods && !ops.isEmpty
  | _, _ => false

/-- Every dry-run flag is exercised by the traffic check on a repository where the same command WITHOUT the flag
writes or removes something (`prepare_restore` excepted: it never touches the repository, with or without the flag),
and on hot/cold repositories too for the rows that can run there; every scenario's twin conforms to the table. -/
theorem every_dry_flag_has_effective_twin :
    dryTwinCases.all (fun p => twinOk p.1 p.2) = true ∧
    (allCmds.filter (fun c => c.drySource.isSome && c != .prepareRestore false)).all
      (fun c => dryTwinCases.any (fun p => twinEffective c p.1 p.2) &&
                dryTwinCases.any (fun p => isHotColdDamage p.1 && twinEffective c p.1 p.2)) = true := by
  decide

/-- the backup source kinds the traffic check can drive in-process (`stdin` proper reads the process' standard input,
which is the harness' op stream; in `backup()` it shares the cloned options with `stdinCommand`). -/
def drivableSources : List BackupSource := [.readSource, .localPaths, .stdinCommand]

/-- Every drivable source kind of backup has a `dryt` scenario — on a plain repository and on a hot/cold pair — in which
the dry run is followed by its non-dry twin FROM THE SAME SOURCE KIND, and that twin really writes. -/
theorem every_backup_source_has_effective_dry_twin :
    drivableSources.all (fun src => [false, true].all (fun hc =>
      dryTwinCases.any (fun p => isHotColdDamage p.1 == hc && cmdOfToken p.2 == some (.backup src true) &&
        (match dryTwin p.1 p.2 with | some (res, ops) => res == "ok" && !ops.isEmpty | none => false)))) = true := by
  decide

/-! ### where the guards stand (`Model/CommandSteps.lean`: statement order of `prune_repository` / `repair_index` / `backup`) -/
section Steps
open Rustic.CommandSteps

/-- `prune_repository` on an append-only repository returns AppendOnly having issued NO storage operation — whatever
the options (`instant_delete`, `early_delete_index`), however many pack files no index lists (`existing_packs`), whatever
the plan: the guard is the first statement, in front of the unindexed-pack block. -/
theorem prune_guard_precedes_unindexed_packs (r : PruneRun) (h : r.appendOnly = true) :
    pruneRepository r = ([], some .appendOnly) := by
  simp [pruneRepository, h]

/-- … and the function refuses exactly when the table's `prune` row refuses, with the table's error; what it issues
conforms to the row (for every option combination, every set of unindexed packs / index files, every remainder that
stays within the row). -/
theorem prune_steps_conform_to_table (hc : Bool) (files : List File) (r : PruneRun) (hr : r.restOk = true) :
    conforms ⟨r.appendOnly, files, hc⟩ ⟨.prune, (pruneRepository r).1⟩ = true ∧
    ((pruneRepository r).2 = some .appendOnly ↔ run hc r.appendOnly .prune = .refused .appendOnly) := by
  cases hao : r.appendOnly
  · constructor
    · simp only [conforms, run, pruneRepository, hao, Bool.false_eq_true, if_false]
      split
      · cases r.instantDelete <;> simp [packRemovals, dataWrites, ConcreteOp.kind]
      · simp only [PruneRun.restOk] at hr
        cases r.instantDelete <;> cases r.earlyDeleteIndex <;>
          simp_all [packRemovals, indexRemovals, dataWrites, ConcreteOp.kind, List.all_append]
    · simp only [run, pruneRepository, hao, Bool.false_eq_true, if_false]
      split <;> simp
  · simp [conforms, run, pruneRepository, hao]

/-- Hence every pack file of an append-only repository — listed by an index or not — is still there after `prune`
with any options. -/
theorem append_only_prune_keeps_every_pack (s : State) (r : PruneRun) (hs : s.appendOnly = true)
    (hr : r.appendOnly = s.appendOnly) (id : Nat) (hf : (⟨.pack, id⟩ : File) ∈ s.files) :
    (⟨.pack, id⟩ : File) ∈ (step s ⟨.prune, (pruneRepository r).1⟩).files := by
  rw [prune_guard_precedes_unindexed_packs r (hr.trans hs)]
  simpa [step] using hf

/-- The position matters (seeded change C15-4, NOT the code): with the guard below the unindexed-pack block,
`instant_delete` removes every unindexed pack of an append-only repository before AppendOnly is returned. -/
theorem late_prune_guard_removes_unindexed_packs (r : PruneRun) (h : r.appendOnly = true) (hi : r.instantDelete = true)
    (id : Nat) (hid : id ∈ r.unindexed) :
    (pruneRepositoryGuardLate r).2 = some .appendOnly ∧ ConcreteOp.remove ⟨.pack, id⟩ ∈ (pruneRepositoryGuardLate r).1 := by
  simp only [pruneRepositoryGuardLate, h, hi, if_true, packRemovals, List.mem_map, true_and]
  exact ⟨id, hid, rfl⟩

theorem headerLoop_dry (packs : List PackRead) (ix : IndexerSt) (acc : List Op) :
    headerLoop true packs ix acc = (ix, acc) := by
  induction packs generalizing ix acc with
  | nil => rfl
  | cons p ps ih =>
    simp only [headerLoop]
    cases p.blobs <;> simp [ih]

/-- A dry-run `repair_index` issues no storage operation at all — for every list of index files (changed or not), for
every list of packs whose header is read, however many blobs they hold (also far beyond the `MAX_COUNT` at which the
indexer saves on its own) and whenever the indexer's age limit strikes: nothing is ever handed to the indexer. -/
theorem repair_index_dry_run_issues_nothing (idx : List IdxFile) (packs : List PackRead) :
    repairIndex false true idx packs = ([], none) := by
  simp [repairIndex, headerLoop_dry, finalizeWrites]

theorem headerLoop_ops (dry : Bool) (packs : List PackRead) (ix : IndexerSt) (acc : List Op)
    (h : ∀ o ∈ acc, o = .write .index) : ∀ o ∈ (headerLoop dry packs ix acc).2, o = .write .index := by
  induction packs generalizing ix acc with
  | nil => simpa [headerLoop] using h
  | cons p ps ih =>
    simp only [headerLoop]
    cases p.blobs with
    | none => exact ih ix acc h
    | some n =>
      cases dry
      · simp only [Bool.false_eq_true, if_false]
        apply ih
        split
        · intro o ho
          rcases List.mem_append.mp ho with ho | ho
          · exact h o ho
          · simpa using ho
        · exact h
      · exact ih ix acc h

/-- `repair_index` refuses exactly where the table's row does and issues only what the row allows (index files
written and removed; nothing in a dry run). -/
theorem repair_index_steps_conform_to_table (hc ao dry : Bool) (idx : List IdxFile) (packs : List PackRead) :
    match run hc ao (.repairIndex dry) with
    | .refused e => repairIndex ao dry idx packs = ([], some e)
    | .runs allowed => (repairIndex ao dry idx packs).2 = none ∧ ∀ o ∈ (repairIndex ao dry idx packs).1, o ∈ allowed := by
  cases ao
  · cases dry
    · simp only [run, Bool.false_eq_true, if_false, repairIndex, true_and]
      intro o ho
      have hl := headerLoop_ops false packs {} [] (by simp)
      simp only [List.mem_append, List.mem_flatMap] at ho
      rcases ho with ((⟨f, _, ho⟩ | ho) | ho) | ⟨f, _, ho⟩
      · split at ho <;> simp_all
      · simp [hl o ho]
      · split at ho <;> simp_all
      · split at ho <;> simp_all
    · simp [run, repair_index_dry_run_issues_nothing]
  · simp [run, repairIndex]

/-- The position matters (seeded change C15-5, NOT the code): with `!dry_run` guarding only `finalize`, a dry run that
reads a pack with at least `MAX_COUNT` blobs writes an index file. -/
theorem finalize_guard_alone_writes_in_dry_run (n : Nat) (h : n ≥ Rustic.Gen.C15_INDEXER_MAX_COUNT)
    (idx : List IdxFile) (rest : List PackRead) :
    Op.write .index ∈ (repairIndexFinalizeGuardOnly false true idx (⟨some n, false⟩ :: rest)).1 := by
  have hl : ∀ (ps : List PackRead) (ix : IndexerSt) (acc : List Op), Op.write .index ∈ acc →
      Op.write .index ∈ (headerLoopNoGuard ps ix acc).2 := by
    intro ps
    induction ps with
    | nil => intro ix acc h; simpa [headerLoopNoGuard] using h
    | cons p ps ih =>
      intro ix acc hacc
      simp only [headerLoopNoGuard]
      cases p.blobs with
      | none => exact ih ix acc hacc
      | some m =>
        apply ih
        split
        · exact List.mem_append_left _ hacc
        · exact hacc
  simp only [repairIndexFinalizeGuardOnly, Bool.false_eq_true, if_false, headerLoopNoGuard, addWith]
  have hn : decide (({} : IndexerSt).count + n ≥ Rustic.Gen.C15_INDEXER_MAX_COUNT) = true := by
    simp only [decide_eq_true_eq]; show 0 + n ≥ _; omega
  simp only [hn, Bool.true_or, if_true]
  apply List.mem_append_left
  apply List.mem_append_left
  apply List.mem_append_right
  exact hl rest {} _ (by simp)

/-! #### backup: from the caller's `BackupOptions` to the `DryRunBackend`, for every source kind -/

/-- `backup()` hands the caller's options to `archive` unchanged except `parent_opts.force` (set for a stdin source): in
particular `dry_run` — and every other field — is the caller's, whatever the source. -/
theorem backup_hands_every_option_to_archive (dash : Bool) (o : BackupOpts) :
    optsForArchive dash o = { o with parentForce := dash || o.parentForce } ∧ (optsForArchive dash o).dryRun = o.dryRun := by
  cases dash <;> simp [optsForArchive]

/-- the source kind named by `backupFrom` is the one the archiver is run on, with the options above, behind a
`DryRunBackend` carrying the CALLER's flag. -/
theorem backupFrom_runs_archiver_behind_callers_flag (src : BackupSource) (cmd : Nat) (o : BackupOpts) (a : Archiver) :
    ∃ o', o'.dryRun = o.dryRun ∧ backupFrom src cmd o a = dryRunBackend o.dryRun (a src o') := by
  cases src
  · exact ⟨o, rfl, rfl⟩
  · exact ⟨o, rfl, rfl⟩
  · exact ⟨{ o with stdinCommand := none, parentForce := true }, rfl, rfl⟩
  · exact ⟨{ o with stdinCommand := some cmd, parentForce := true }, rfl, rfl⟩

/-- A dry-run backup performs no write and no removal on the repository — for EVERY source kind (caller-supplied
`ReadSource` through `Repository::archive`; local paths, stdin, stdin command through `Repository::backup`), every
option set, every stdin command, whatever the archiver issues on its backend. -/
theorem backup_dry_run_no_mutation_for_every_source (src : BackupSource) (cmd : Nat) (o : BackupOpts) (a : Archiver)
    (h : o.dryRun = true) : backupFrom src cmd o a = [] := by
  obtain ⟨o', _, he⟩ := backupFrom_runs_archiver_behind_callers_flag src cmd o a
  rw [he, h]; rfl

/-- … and `Repository::backup` itself, for every `source` argument (`dash`) and every option set. -/
theorem backup_fn_dry_run_no_mutation (dash : Bool) (o : BackupOpts) (a : Archiver) (h : o.dryRun = true) :
    Rustic.CommandSteps.backup dash o a = [] := by
  have := (backup_hands_every_option_to_archive dash o).2
  simp only [Rustic.CommandSteps.backup, archive, this, h, dryRunBackend, if_true]

/-- Without the flag everything the archiver issues reaches the repository (the dry-run theorem is not vacuous), and what
backup does conforms to the table's `backup` row for that source kind and flag, in every state (append-only or not:
backup is never refused). -/
theorem backup_steps_conform_to_table (hc ao : Bool) (files : List File) (src : BackupSource) (cmd : Nat) (o : BackupOpts)
    (a : Archiver) (ha : a.ok) :
    conforms ⟨ao, files, hc⟩ ⟨.backup src o.dryRun, backupFrom src cmd o a⟩ = true ∧
    (o.dryRun = false → ∃ o', backupFrom src cmd o a = a src o') := by
  obtain ⟨o', _, he⟩ := backupFrom_runs_archiver_behind_callers_flag src cmd o a
  constructor
  · rw [he]
    cases hd : o.dryRun
    · simp only [conforms, run, dryRunBackend, Bool.false_eq_true, if_false, List.all_eq_true]
      intro op hop
      simpa using ha src o' op hop
    · simp [conforms, run, dryRunBackend]
  · intro hd
    exact ⟨o', by rw [he, hd]; rfl⟩

/-- The clone matters (seeded change C15-7, NOT the code): with the options for a stdin source built afresh from the
stdin-relevant fields, a dry-run backup from stdin / from a stdin command lets EVERYTHING the archiver issues reach the
repository (local paths and `Repository::archive` are unaffected — which is why traffic over those alone cannot see it). -/
theorem fresh_stdin_options_write_in_dry_run (cmd : Nat) (o : BackupOpts) (a : Archiver) (h : o.dryRun = true) :
    (∃ o', backupFromFreshStdinOpts .stdin cmd o a = a .stdin o') ∧
    (∃ o', backupFromFreshStdinOpts .stdinCommand cmd o a = a .stdinCommand o') ∧
    backupFromFreshStdinOpts .localPaths cmd o a = [] ∧ backupFromFreshStdinOpts .readSource cmd o a = [] := by
  refine ⟨⟨_, rfl⟩, ⟨_, rfl⟩, ?_, ?_⟩
  · simp [backupFromFreshStdinOpts, backupFreshStdinOpts, optsForArchiveFreshStdinOpts, archive, dryRunBackend, h]
  · simp [backupFromFreshStdinOpts, archive, dryRunBackend, h]

end Steps

/-! ### non-vacuity -/
-- the real run of the `big` scenario of the traffic check: one changed index file, a data pack with more than MAX_COUNT
-- blobs (the indexer saves on its own in the middle of the loop), a tree pack (saved by `finalize`)
example : (Rustic.CommandSteps.repairIndex false false [⟨true, false⟩] [⟨some 50150, false⟩, ⟨some 2, false⟩]).1 =
    [.write .index, .write .index, .write .index, .remove .index] := by decide
example : Rustic.CommandSteps.repairIndex false true [⟨true, false⟩] [⟨some 50150, false⟩, ⟨some 2, false⟩] = ([], none) := by decide
example : (Rustic.CommandSteps.repairIndexFinalizeGuardOnly false true [⟨true, false⟩] [⟨some 50150, false⟩, ⟨some 2, false⟩]).1 =
    [.write .index] := by decide
example : (Rustic.CommandSteps.pruneRepositoryGuardLate ⟨true, true, false, [7, 8], [1], []⟩) =
    ([.remove ⟨.pack, 7⟩, .remove ⟨.pack, 8⟩], some .appendOnly) := by decide
example : (Rustic.CommandSteps.pruneRepository ⟨false, true, true, [7], [1], [.write ⟨.index, 2⟩, .remove ⟨.index, 1⟩]⟩).1 =
    [.remove ⟨.pack, 7⟩, .remove ⟨.index, 1⟩, .write ⟨.index, 2⟩, .remove ⟨.index, 1⟩] := by decide
-- backup from a stdin command: packs, index and snapshot with the flag off, nothing with it on; the seeded variant writes
example : Rustic.CommandSteps.backupFrom .stdinCommand 7 { dryRun := false }
    (fun _ _ => [.write ⟨.pack, 1⟩, .write ⟨.index, 2⟩, .write ⟨.snapshot, 3⟩]) =
    [.write ⟨.pack, 1⟩, .write ⟨.index, 2⟩, .write ⟨.snapshot, 3⟩] := by decide
example : Rustic.CommandSteps.backupFrom .stdinCommand 7 { dryRun := true }
    (fun _ _ => [.write ⟨.pack, 1⟩, .write ⟨.index, 2⟩, .write ⟨.snapshot, 3⟩]) = [] := by decide
example : Rustic.CommandSteps.backupFromFreshStdinOpts .stdinCommand 7 { dryRun := true }
    (fun _ _ => [.write ⟨.pack, 1⟩, .write ⟨.index, 2⟩, .write ⟨.snapshot, 3⟩]) =
    [.write ⟨.pack, 1⟩, .write ⟨.index, 2⟩, .write ⟨.snapshot, 3⟩] := by decide
-- the archiver of a stdin backup sees `parent_opts.force` (no parent) and the caller's command
example : Rustic.CommandSteps.backupFrom .stdinCommand 7 {} (fun s o => if s == .stdinCommand && o.parentForce && o.stdinCommand == some 7
    then [.write ⟨.snapshot, 3⟩] else []) = [.write ⟨.snapshot, 3⟩] := by decide
example : run false true .prune = .refused .appendOnly := rfl
example : run false true (.applyConfig (.rejected (some false) .invalidInput)) = .refused (.validation .invalidInput) := rfl
example : run false true (.applyConfig (.rejected (some true) .invalidInput)) = .refused .appendOnly := rfl
/-- the seeded change C15-1 as a table history: rejected `set_append_only(false)` + bad percent, then forget — still refused -/
example : run false (step ⟨true, [⟨.snapshot, 1⟩], false⟩ ⟨.applyConfig (.rejected (some false) .invalidInput), []⟩).appendOnly
    .deleteSnapshots = .refused .repository := rfl
/-- a history with a rejected `set_append_only(false)` in front of every destructive command: the files survive -/
example : AllConform ⟨true, [⟨.snapshot, 1⟩, ⟨.pack, 2⟩], false⟩
    [⟨.applyConfig (.rejected (some false) .invalidInput), []⟩, ⟨.deleteSnapshots, []⟩,
     ⟨.applyConfig (.rejected (some false) .internal), []⟩, ⟨.prune, []⟩, ⟨.backup .stdinCommand false, [.write ⟨.snapshot, 3⟩]⟩] := by
  decide
example : classify { Rustic.Config.ConfigFile.new 2 7 9 with appendOnly := some true }
    { setAppendOnly := some false, setMinPackPct := some 200 } = .rejected (some false) .invalidInput := by decide
example : run true false .prune = .runs [.write .pack, .write .index, .remove .index, .remove .pack] := rfl
example : run true true (.repairHotcold false) = .runs hotcoldCopies := rfl
example : "merge_snapshots" ∈ tableMethods ∧ "get_all_snapshots" ∈ tableMethods ∧ "frobnicate" ∉ tableMethods := by decide
example : (step ⟨true, [], false⟩ ⟨.initWithConfig false, []⟩).appendOnly = false := rfl
example : AllAppendOnly ⟨true, [⟨.snapshot, 1⟩, ⟨.pack, 2⟩], true⟩
    [⟨.backup .readSource false, [.write ⟨.pack, 3⟩, .write ⟨.index, 4⟩, .write ⟨.snapshot, 5⟩]⟩, ⟨.prune, []⟩,
     ⟨.rewriteSnapshots false false, [.write ⟨.snapshot, 6⟩]⟩] := by
  decide
example : ¬ AllAppendOnly ⟨true, [⟨.snapshot, 1⟩], false⟩ [⟨.deleteSnapshots, [.remove ⟨.snapshot, 1⟩]⟩] := by
  decide

end Rustic.Props.C15
