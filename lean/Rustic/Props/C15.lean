import Rustic.Lemmas.CommandTable
import Rustic.Gen.RepositoryApi
/-
C15 — Append-only and dry-run modes never remove or overwrite stored data.

Model: `Rustic/Model/CommandTable.lean` — one row per public repository operation: refused with which
error (before any storage operation) or which kinds of storage operations it may issue, depending on
the repository's append-only flag and the command's dry-run flag.  The theorems are exactly as good as
the table; the traffic check (`harness/src/c15.rs`, recorded `MemBackend` log of the real commands)
validates the table on every run — on plain and hot/cold repositories (`hc`: the operations of both stores
are merged), intact and damaged.  Files are content-addressed (a write under an existing id carries the
same bytes — the harness checks the bytes of every pre-existing file of every store after every command).
The completeness of the table is a theorem about the CURRENT source: `Rustic.Gen.repositoryPublicFns`,
`repositoryDryRunFns`, `dryRunOptionStructs` are regenerated from crates/core/src on every check run
(tools/c15_api_table.py); a new public `Repository` method or dry-run flag that the table does not classify
breaks `table_covers_api` / `dry_flags_covered`.
-/
namespace Rustic.Props.C15
open Rustic.CommandTable

/-- On an append-only repository no operation issues a removal of a snapshot, index or pack file. -/
theorem append_only_no_removal (hc : Bool) (cmd : Cmd) :
    match run hc true cmd with
    | .refused _ => True
    | .runs ops => ∀ op ∈ ops, op.isProtectedRemoval = false := by
  cases h : run hc true cmd with
  | refused e => trivial
  | runs ops => exact run_appendOnly_no_protected_removal hc cmd ops h

/-- Every operation that (on an ordinary repository) may remove a snapshot, index or pack file is refused
on an append-only repository — with an error, before touching storage (`refused` carries no operations:
`conforms` demands an empty operation list). -/
theorem destructive_refused_before_storage (hc : Bool) (cmd : Cmd) (ops : List Op) (h : run hc false cmd = .runs ops)
    (hd : ∃ op ∈ ops, op.isProtectedRemoval = true) : ∃ e, run hc true cmd = .refused e := by
  cases cmd with
  | backup d => cases d <;> (cases h; simp [dataWrites, Op.isProtectedRemoval] at hd)
  | deleteSnapshots => exact ⟨_, rfl⟩
  | saveSnapshots => cases h; simp [Op.isProtectedRemoval] at hd
  | prunePlan => cases h; simp at hd
  | prune => exact ⟨_, rfl⟩
  | repairIndex d => exact ⟨_, rfl⟩
  | repairSnapshots del d =>
    cases del
    · cases d <;> (cases h; simp [dataWrites, Op.isProtectedRemoval] at hd)
    · exact ⟨_, rfl⟩
  | rewriteSnapshots fg d =>
    cases fg
    · cases d <;> (cases h; simp [Op.isProtectedRemoval] at hd)
    · exact ⟨_, rfl⟩
  | rewriteTrees fg d =>
    cases fg
    · cases d <;> (cases h; simp [dataWrites, Op.isProtectedRemoval] at hd)
    · exact ⟨_, rfl⟩
  | applyConfig c => cases c <;> (cases h; simp [Op.isProtectedRemoval] at hd)
  | addKey => cases h; simp [Op.isProtectedRemoval] at hd
  | deleteKey => cases h; simp [Op.isProtectedRemoval] at hd
  | copyInto => cases h; simp [dataWrites, Op.isProtectedRemoval] at hd
  | mergeSnapshots => cases h; simp [dataWrites, Op.isProtectedRemoval] at hd
  | repairHotcold d =>
    cases hc
    · simp [run] at h
    · cases d <;> (cases h; simp [hotcoldCopies, Op.isProtectedRemoval] at hd)
  | prepareRestore d => cases h; simp at hd
  | init => simp [run] at h
  | initWithConfig b => cases h; simp [Op.isProtectedRemoval] at hd
  | initHot => cases hc <;> (cases h; simp [Op.isProtectedRemoval] at hd)
  | readOnly => cases h; simp at hd

/-- The destructive operations and the error each returns on an append-only repository. -/
theorem destructive_commands_table (hc : Bool) :
    run hc true .deleteSnapshots = .refused .repository ∧ run hc true .prune = .refused .appendOnly ∧
    (∀ d, run hc true (.repairIndex d) = .refused .appendOnly) ∧
    (∀ d, run hc true (.repairSnapshots true d) = .refused .appendOnly) ∧
    (∀ d, run hc true (.rewriteSnapshots true d) = .refused .appendOnly) ∧
    (∀ d, run hc true (.rewriteTrees true d) = .refused .appendOnly) ∧
    (∀ c, c ≠ .setAppendOnly false → run hc true (.applyConfig c) = .refused .appendOnly) := by
  refine ⟨rfl, rfl, fun _ => rfl, fun _ => rfl, fun _ => rfl, fun _ => rfl, ?_⟩
  intro c hne
  simp [run, hne]

/-- A command run with its dry-run flag performs no write and no removal at all (or is refused). -/
theorem dry_run_no_ops (hc appendOnly : Bool) (cmd : Cmd) (h : cmd.isDryRun = true) :
    run hc appendOnly cmd = .runs [] ∨ ∃ e, run hc appendOnly cmd = .refused e := by
  cases cmd <;> simp [Cmd.isDryRun] at h
  case backup d => subst h; left; rfl
  case repairIndex d => subst h; cases appendOnly <;> simp [run]
  case repairSnapshots del d => subst h; cases appendOnly <;> cases del <;> simp [run]
  case rewriteSnapshots fg d => subst h; cases appendOnly <;> cases fg <;> simp [run]
  case rewriteTrees fg d => subst h; cases appendOnly <;> cases fg <;> simp [run]
  case repairHotcold d => subst h; cases hc <;> simp [run]
  case prepareRestore d => left; rfl

/-- Histories: along any sequence of operations that conform to the table, as long as the repository is
marked append-only before each of them, every snapshot / index / pack file present at the start is still
present at the end (any number of operations, any concrete files). -/
theorem append_only_history_keeps_files (s : State) (es : List Exec) (h : AllAppendOnly s es) (f : File)
    (hf : f ∈ s.files) (hp : f.isProtected = true) : f ∈ (es.foldl step s).files :=
  history_keeps es s h f hf hp

/-- Append-only can only be left through `apply_config(set_append_only = false)` — or by writing a new config
over the repository with `init_with_config` (which the code does not guard: the table has that row because the
API tie demanded a classification of the method, and the traffic check confirms it — token `reinit`). -/
theorem append_only_left_only_by_config (s : State) (e : Exec) (hao : s.appendOnly = true)
    (h : (step s e).appendOnly = false) :
    e.cmd = .applyConfig (.setAppendOnly false) ∨ e.cmd = .initWithConfig false := by
  simp only [step] at h
  cases hc : e.cmd with
  | applyConfig c =>
    cases c with
    | setAppendOnly b =>
      cases b
      · exact .inl rfl
      · simp [hc, run, hao] at h
    | other ch => simp [hc, run, hao] at h
  | initWithConfig b =>
    cases b
    · exact .inr rfl
    · simp [hc, run] at h
  | _ => simp [hc, hao] at h

/-- The harness tokens: what the traffic check expects is a refusal exactly where the table refuses. -/
def aoTokens : List String :=
  ["backup.new", "backup.same", "backup.dry.new", "backup.dry.same", "forget", "prune", "prune.instant", "prune.all",
   "prune_plan", "repair_index", "repair_index.dry", "repair_index.readall", "repair_index.readall.dry",
   "repair_snap.delete", "repair_snap.delete.dry", "repair_snap.keep", "repair_snap.keep.dry", "rewrite.forget",
   "rewrite.forget.dry", "rewrite.keep", "rewrite.keep.dry", "rewtrees.forget", "rewtrees.forget.dry", "rewtrees.keep",
   "rewtrees.keep.dry", "rewtrees.forget.excl", "rewtrees.forget.excl.dry", "rewtrees.keep.excl", "rewtrees.keep.excl.dry",
   "merge", "merge.delete", "config.tg", "config.ev", "config.none", "config.ao1", "config.ao0", "key.add", "key.del",
   "check", "restore", "readonly", "restore.plan", "restore.plan.dry", "hotcold", "hotcold.packs", "hotcold.dry",
   "hotcold.packs.dry", "copy", "init", "reinit", "init_hot"]

/-- the storage operations behind a shown kinds string (`*` = not compared). -/
def kindsOps : String → Option (List Op)
  | "-" | "*" => some []
  | "w.snapshot" => some [.write .snapshot]
  | "r.snapshot" => some [.remove .snapshot]
  | "r.snapshot+w.snapshot" => some [.remove .snapshot, .write .snapshot]
  | "w.config" => some [.write .config]
  | "w.key" => some [.write .key]
  | "r.key" => some [.remove .key]
  | _ => none

def errToken : ErrKind → String
  | .appendOnly => "err:AppendOnly"
  | .repository => "err:Repository"
  | .configuration => "err:Configuration"

/-- the rows of a token are run in order; the first refusal is the result and everything shown was issued by the
rows before it; without refusal the result is `ok` (`skip`: nothing to delete) and every shown kind is allowed. -/
def rowsAgree (hc ao : Bool) : List Cmd → List Op → String → List Op → Bool
  | [], allowed, res, shown => (res == "ok" || res == "skip") && shown.all allowed.contains
  | c :: cs, allowed, res, shown =>
    match run hc ao c with
    | .refused e => res == errToken e && shown.all allowed.contains
    | .runs ops => rowsAgree hc ao cs (allowed ++ ops) res shown

def refusalAgrees (hc ao : Bool) (tok : String) : Bool :=
  match cmdsOfToken tok, expected { appendOnly := ao, hotCold := hc } tok with
  | some cs, some (res, kinds, _) =>
    (match kindsOps kinds with
     | some shown => rowsAgree hc ao cs [] res shown
     | none => false)
  | _, _ => false

theorem expected_agrees_with_table : ∀ hc ao, aoTokens.all (refusalAgrees hc ao) = true := by
  decide

/-! ### the table is complete for the current source (API tie, regenerated on every check) -/

-- Diagnostic only (the theorems below are the obligations): when the tie is broken, name the offending methods /
-- flags in the first line of the build error, which is what `./check` prints.
#eval show IO Unit from do
  let api := Rustic.Gen.repositoryPublicFns
  let unclassified := api.filter (fun n => !tableMethods.contains n)
  let gone := tableMethods.filter (fun n => !api.contains n)
  let dryNew := Rustic.Gen.repositoryDryRunFns.filter (fun n => !dryParamMethods.contains n) ++
    Rustic.Gen.dryRunOptionStructs.filter (fun n => !dryFieldSites.contains n)
  let dryGone := dryParamMethods.filter (fun n => !Rustic.Gen.repositoryDryRunFns.contains n) ++
    dryFieldSites.filter (fun n => !Rustic.Gen.dryRunOptionStructs.contains n)
  if !(unclassified.isEmpty && gone.isEmpty && dryNew.isEmpty && dryGone.isEmpty) then
    throw (IO.userError s!"C15 table tie broken — public Repository methods not classified by the command table: {unclassified}; methods named by a row but gone from repository.rs: {gone}; dry_run flags without a dry-run row: {dryNew}; dry-run rows without a dry_run flag in the source: {dryGone}")

/-- every public method of `Repository` in the current source is classified: a row of the table (mutating /
destructive / dry-run capable) or the reviewed read-only list (`Cmd.methods .readOnly`). -/
theorem table_covers_api : Rustic.Gen.repositoryPublicFns.all tableMethods.contains = true := by
  decide

/-- every method a row names exists in the current source, and no method is claimed by two rows. -/
theorem table_rows_exist :
    tableMethods.all Rustic.Gen.repositoryPublicFns.contains = true ∧ tableMethods.Nodup := by
  decide

/-- `allCmds` has a representative of every row (a new `Cmd` constructor must be given `methods` and be listed). -/
theorem allCmds_complete (c : Cmd) : ∃ c' ∈ allCmds, c'.methods = c.methods := by
  cases c <;> simp [allCmds, Cmd.methods]

/-- every dry-run flag of the current source belongs to a row with a dry-run flag, and vice versa: the methods with a
`dry_run: bool` parameter are exactly those of the rows marked `.param`, the option structs with a `pub dry_run`
field are exactly the `.field` sites; a row has a dry-run flag in the table iff it has such a source. -/
theorem dry_flags_covered :
    Rustic.Gen.repositoryDryRunFns.all dryParamMethods.contains = true ∧
    dryParamMethods.all Rustic.Gen.repositoryDryRunFns.contains = true ∧
    Rustic.Gen.dryRunOptionStructs.all dryFieldSites.contains = true ∧
    dryFieldSites.all Rustic.Gen.dryRunOptionStructs.contains = true ∧
    (∀ c : Cmd, c.isDryRun = true → c.drySource.isSome = true) := by
  refine ⟨by decide, by decide, by decide, by decide, ?_⟩
  intro c h
  cases c <;> simp_all [Cmd.isDryRun, Cmd.drySource]

/-- a `c15 dryt` scenario is well formed: the token is a dry-run row, the twin's expectation exists, and every
operation the twin is expected to issue is allowed by the table for the non-dry row (or the twin is refused). -/
def twinOk (d tok : String) : Bool :=
  match cmdOfToken tok, dryTwin d tok with
  | some c, some (res, ops) =>
    c.isDryRun &&
    (match run (isHotColdDamage d) false c.nonDry with
     | .refused e => res == errToken e && ops.isEmpty
     | .runs allowed => res == "ok" && ops.all allowed.contains)
  | _, _ => false

/-- the twin really wrote or removed something (the dry-run oracle was meaningful for that row). -/
def twinEffective (c : Cmd) (d tok : String) : Bool :=
  match cmdOfToken tok, dryTwin d tok with
  | some c', some (_, ops) => c'.isDryRun && c'.methods == c.methods && !ops.isEmpty
  | _, _ => false

/-- Every dry-run flag is exercised by the traffic check on a repository where the same command WITHOUT the flag
writes or removes something (`prepare_restore` excepted: it never touches the repository, with or without the flag),
and on hot/cold repositories too for the rows that can run there; every scenario's twin conforms to the table. -/
theorem every_dry_flag_has_effective_twin :
    dryTwinCases.all (fun p => twinOk p.1 p.2) = true ∧
    (allCmds.filter (fun c => c.drySource.isSome && c != .prepareRestore false)).all
      (fun c => dryTwinCases.any (fun p => twinEffective c p.1 p.2) &&
                dryTwinCases.any (fun p => isHotColdDamage p.1 && twinEffective c p.1 p.2)) = true := by
  decide

/-! ### non-vacuity -/
example : run false true .prune = .refused .appendOnly := rfl
example : run true false .prune = .runs [.write .pack, .write .index, .remove .index, .remove .pack] := rfl
example : run true true (.repairHotcold false) = .runs hotcoldCopies := rfl
example : "merge_snapshots" ∈ tableMethods ∧ "get_all_snapshots" ∈ tableMethods ∧ "frobnicate" ∉ tableMethods := by decide
example : (step ⟨true, [], false⟩ ⟨.initWithConfig false, []⟩).appendOnly = false := rfl
example : AllAppendOnly ⟨true, [⟨.snapshot, 1⟩, ⟨.pack, 2⟩], true⟩
    [⟨.backup false, [.write ⟨.pack, 3⟩, .write ⟨.index, 4⟩, .write ⟨.snapshot, 5⟩]⟩, ⟨.prune, []⟩,
     ⟨.rewriteSnapshots false false, [.write ⟨.snapshot, 6⟩]⟩] := by
  decide
example : ¬ AllAppendOnly ⟨true, [⟨.snapshot, 1⟩], false⟩ [⟨.deleteSnapshots, [.remove ⟨.snapshot, 1⟩]⟩] := by
  decide

end Rustic.Props.C15
