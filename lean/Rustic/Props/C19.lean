/-
C19 — The local cache is transparent.

Property theorems only (lemmas: `Rustic/Lemmas/Cache.lean`).  The repository is any exact map `be : SpecMap`
(C20), the cache directory any file-system state (stale, truncated, longer, foreign, temporary and misplaced
files included); all statements are for every state / id / content / history, `L` arbitrary.

* `Coh`   — coherence: a properly placed cache file holds exactly the repository file's bytes.
* (1) `ops_preserve_coherence` — every operation through the cached handle keeps `Coh`, and acts on the repository
        exactly like the bare backend.
* (2) `coherent_read_equiv` / `coherent_ranged_read_equiv` — under `Coh`, reads through the cache return what the bare
        backend returns.
* (3) `transparent` — hence whole histories give identical results and identical repository contents.
* (4) `list_restores_coherence` — from an **arbitrary** cache directory, a listing leaves only entries whose id the
        repository has, with the repository's size (`no_stale_after_listing`); with honest content (no same-size
        corruption — outside the statement) that is `Coh` for the listed type.
* (5) `truncated_entry_falls_through` — a ranged read a truncated entry cannot serve is answered from the repository
        and repairs the entry.  `read_full_serves_any_entry` records that `read_full` does *not* check sizes: before
        the first listing a stale / truncated entry is served as it is (which is why (4) matters).
-/
import Rustic.Lemmas.Cache
import Rustic.Gen.Constants
namespace Rustic.Props.C19
open Rustic.Cache
open Rustic.Backends hiding readFull readPartial writeBytes remove listWithSize Op step run list

variable {L : Nat}

/-- A properly placed cache file (for an id of `L` characters) equals the repository file. -/
def Coh (L : Nat) (s : St) : Prop :=
  ∀ t id d, id.length = L → cReadFull s.cache t id = some d → s.be (t, id) = some d

/-! ### (2) reads under coherence -/

theorem coherent_read_equiv {s : St} (hc : Coh L s) (t : FileType) {id : Name} (hl : id.length = L) :
    (readFull s t id).1 = beReadFull s.be t id ∧ (readFull s t id).2.be = s.be ∧ Coh L (readFull s t id).2 := by
  unfold readFull
  by_cases hcb : isCacheable t = true
  · simp only [hcb, if_true]
    cases hr : cReadFull s.cache t id with
    | some d => simp [beReadFull, hc t id d hl hr]; exact hc
    | none =>
      cases hb : s.be (t, id) with
      | none => simp [beReadFull, hb]; exact hc
      | some d =>
        simp only [beReadFull, hb, true_and]
        intro t' id' d' hl' h'
        simp only at h'
        rw [cReadFull_cWrite s.cache hl hl' d] at h'
        by_cases e : t' = t ∧ id' = id
        · simp [e] at h'; subst h'; rw [e.1, e.2]; exact hb
        · simp [e] at h'; exact hc t' id' d' hl' h'
  · simp [hcb]; exact hc

/-- Non-empty ranges: the answer through the cache is the bare backend's (slice, or error past the end). -/
theorem coherent_ranged_read_equiv {s : St} (hc : Coh L s) (t : FileType) {id : Name} (hl : id.length = L)
    (cb : Bool) (off len : Nat) (hlen : 0 < len) :
    (readPartial s t id cb off len).1 = beReadPartial s.be t id off len ∧
    (readPartial s t id cb off len).2.be = s.be ∧ Coh L (readPartial s t id cb off len).2 := by
  unfold readPartial
  by_cases hcb : (cb || isCacheable t) = true
  · simp only [hcb, if_true]
    have hmiss : ∀ (r : Res Bytes × St),
        (match s.be (t, id) with
          | some d =>
            if off + len ≤ d.length then ((Res.ok ((d.drop off).take len) : Res Bytes), { s with cache := cWrite s.cache t id d })
            else (Res.err, { s with cache := cWrite s.cache t id d })
          | none => (Res.err, s)) = r →
        r.1 = beReadPartial s.be t id off len ∧ r.2.be = s.be ∧ Coh L r.2 := by
      intro r hr
      subst hr
      cases hb : s.be (t, id) with
      | none => simp [beReadPartial, hb]; exact hc
      | some d =>
        have hcoh : Coh L { s with cache := cWrite s.cache t id d } := by
          intro t' id' d' hl' h'
          simp only at h'
          rw [cReadFull_cWrite s.cache hl hl' d] at h'
          by_cases e : t' = t ∧ id' = id
          · simp [e] at h'; subst h'; rw [e.1, e.2]; exact hb
          · simp [e] at h'; exact hc t' id' d' hl' h'
        by_cases hr : off + len ≤ d.length
        · simp [beReadPartial, hb, hr]; exact hcoh
        · simp [beReadPartial, hb, hr]; exact hcoh
    unfold cReadPartial
    cases hg : fget s.cache (cpath t id) with
    | none => simp only; exact hmiss _ rfl
    | some d =>
      have hb := hc t id d hl hg
      by_cases hr : len = 0 ∨ off + len ≤ d.length
      · have hr' : off + len ≤ d.length := by omega
        simp [hr, beReadPartial, hb, hr']; exact hc
      · simp only [hr, if_false]; exact hmiss _ rfl
  · simp [hcb]; exact hc

/-! ### (1) every operation keeps coherence and acts on the repository like the bare backend

Callers pass one fixed `cacheable` flag per file (`cbOf`: "is a tree pack"); files that are never cached have no
cache entry (`NoEntry`).  Both are invariants of the cached handle and part of `Inv`. -/

def cacheOn (cbOf : Key → Bool) (t : FileType) (id : Name) : Bool := cbOf (t, id) || isCacheable t

def NoEntry (L : Nat) (cbOf : Key → Bool) (s : St) : Prop :=
  ∀ t id, id.length = L → cacheOn cbOf t id = false → cReadFull s.cache t id = none

def Inv (L : Nat) (cbOf : Key → Bool) (s : St) : Prop := Coh L s ∧ NoEntry L cbOf s

theorem coh_cWrite {s : St} (hc : Coh L s) {t : FileType} {id : Name} (hl : id.length = L) {d : Bytes}
    {be' : SpecMap} (hbe : be' (t, id) = some d) (hoth : ∀ k, k ≠ (t, id) → be' k = s.be k) :
    Coh L { be := be', cache := cWrite s.cache t id d } := by
  intro t' id' d' hl' h'
  simp only at h' ⊢
  rw [cReadFull_cWrite s.cache hl hl' d] at h'
  by_cases e : t' = t ∧ id' = id
  · simp [e] at h'; subst h'; rw [e.1, e.2]; exact hbe
  · simp [e] at h'
    rw [hoth (t', id') (fun h => e (by cases h; exact ⟨rfl, rfl⟩))]
    exact hc t' id' d' hl' h'

theorem noEntry_cWrite {cbOf : Key → Bool} {s : St} (hn : NoEntry L cbOf s) {t : FileType} {id : Name}
    (hl : id.length = L) (hon : cacheOn cbOf t id = true) (d : Bytes) (be' : SpecMap) :
    NoEntry L cbOf { be := be', cache := cWrite s.cache t id d } := by
  intro t' id' hl' hoff
  simp only
  rw [cReadFull_cWrite s.cache hl hl' d]
  by_cases e : t' = t ∧ id' = id
  · rw [e.1, e.2, hon] at hoff; cases hoff
  · simp [e]; exact hn t' id' hl' hoff

theorem read_preserves {cbOf : Key → Bool} {s : St} (hi : Inv L cbOf s) (t : FileType) {id : Name} (hl : id.length = L) :
    (readFull s t id).1 = beReadFull s.be t id ∧ (readFull s t id).2.be = s.be ∧ Inv L cbOf (readFull s t id).2 := by
  obtain ⟨h1, h2, h3⟩ := coherent_read_equiv hi.1 t hl
  refine ⟨h1, h2, h3, ?_⟩
  unfold readFull
  by_cases hcb : isCacheable t = true
  · simp only [hcb, if_true]
    cases cReadFull s.cache t id with
    | some d => exact hi.2
    | none =>
      cases s.be (t, id) with
      | none => exact hi.2
      | some d => exact noEntry_cWrite hi.2 hl (by simp [cacheOn, hcb]) d s.be
  · simp [hcb]; exact hi.2

theorem ranged_read_preserves {cbOf : Key → Bool} {s : St} (hi : Inv L cbOf s) (t : FileType) {id : Name}
    (hl : id.length = L) (off len : Nat) (hlen : 0 < len) :
    (readPartial s t id (cbOf (t, id)) off len).1 = beReadPartial s.be t id off len ∧
    (readPartial s t id (cbOf (t, id)) off len).2.be = s.be ∧
    Inv L cbOf (readPartial s t id (cbOf (t, id)) off len).2 := by
  obtain ⟨h1, h2, h3⟩ := coherent_ranged_read_equiv hi.1 t hl (cbOf (t, id)) off len hlen
  refine ⟨h1, h2, h3, ?_⟩
  unfold readPartial
  by_cases hcb : (cbOf (t, id) || isCacheable t) = true
  · simp only [hcb, if_true]
    have hw : ∀ d be', NoEntry L cbOf { be := be', cache := cWrite s.cache t id d } :=
      fun d be' => noEntry_cWrite hi.2 hl hcb d be'
    cases cReadPartial s.cache t id off len with
    | hit b => exact hi.2
    | miss =>
      cases s.be (t, id) with
      | none => exact hi.2
      | some d => simp only; split <;> exact hw d s.be
    | error =>
      cases s.be (t, id) with
      | none => exact hi.2
      | some d => simp only; split <;> exact hw d s.be
  · simp [hcb]; exact hi.2

theorem write_preserves {cbOf : Key → Bool} {s : St} (hi : Inv L cbOf s) (t : FileType) {id : Name}
    (hl : id.length = L) (d : Bytes) :
    (writeBytes s t id (cbOf (t, id)) d).be = s.be.write (t, id) d ∧ Inv L cbOf (writeBytes s t id (cbOf (t, id)) d) := by
  refine ⟨rfl, ?_⟩
  unfold writeBytes
  by_cases hcb : (cbOf (t, id) || isCacheable t) = true
  · simp only [hcb, if_true]
    exact ⟨coh_cWrite hi.1 hl (by simp [SpecMap.write]) (fun k hk => by simp [SpecMap.write, hk]),
           noEntry_cWrite hi.2 hl hcb d _⟩
  · simp only [hcb, Bool.false_eq_true, ↓reduceIte]
    have hoff : cacheOn cbOf t id = false := by simpa [cacheOn] using hcb
    refine ⟨?_, fun t' id' hl' h' => hi.2 t' id' hl' h'⟩
    intro t' id' d' hl' h'
    simp only [SpecMap.write] at h' ⊢
    by_cases e : (t', id') = (t, id)
    · cases e; rw [hi.2 t id hl hoff] at h'; cases h'
    · simp [e]; exact hi.1 t' id' d' hl' h'

theorem remove_preserves {cbOf : Key → Bool} {s : St} (hi : Inv L cbOf s) (t : FileType) {id : Name}
    (hl : id.length = L) :
    (remove s t id (cbOf (t, id))).be = s.be.remove (t, id) ∧ Inv L cbOf (remove s t id (cbOf (t, id))) := by
  refine ⟨rfl, ?_⟩
  unfold remove
  by_cases hcb : (cbOf (t, id) || isCacheable t) = true
  · simp only [hcb, if_true]
    constructor
    · intro t' id' d' hl' h'
      simp only [SpecMap.remove] at h' ⊢
      rw [cReadFull_cRemove] at h'
      by_cases e : t' = t ∧ id' = id
      · simp [e] at h'
      · simp [e] at h'
        have : (t', id') ≠ (t, id) := fun h => e (by cases h; exact ⟨rfl, rfl⟩)
        simp [this]; exact hi.1 t' id' d' hl' h'
    · intro t' id' hl' hoff
      simp only
      rw [cReadFull_cRemove]
      by_cases e : t' = t ∧ id' = id
      · simp [e]
      · simp [e]; exact hi.2 t' id' hl' hoff
  · simp only [hcb, Bool.false_eq_true, ↓reduceIte]
    have hoff : cacheOn cbOf t id = false := by simpa [cacheOn] using hcb
    refine ⟨?_, fun t' id' hl' h' => hi.2 t' id' hl' h'⟩
    intro t' id' d' hl' h'
    simp only [SpecMap.remove] at h' ⊢
    by_cases e : (t', id') = (t, id)
    · cases e; rw [hi.2 t id hl hoff] at h'; cases h'
    · simp [e]; exact hi.1 t' id' d' hl' h'

/-- A listing never breaks coherence, whatever the backend answered (the clean-up only deletes). -/
theorem list_preserves {cbOf : Key → Bool} {s : St} (hi : Inv L cbOf s) (t : FileType) (answer : List (Name × Nat)) :
    (listWithSize L s t answer).be = s.be ∧ Inv L cbOf (listWithSize L s t answer) := by
  refine ⟨rfl, ?_⟩
  unfold listWithSize
  by_cases hcb : isCacheable t = true
  · simp only [hcb, if_true]
    constructor
    · intro t' id' d' hl' h'
      exact hi.1 t' id' d' hl' (removeNotInList_sub h')
    · intro t' id' hl' hoff
      simp only
      cases h : cReadFull (removeNotInList L s.cache t answer) t' id' with
      | none => rfl
      | some d => have := removeNotInList_sub h; rw [hi.2 t' id' hl' hoff] at this; cases this
  · simp [hcb]; exact hi

/-- **ops_preserve_coherence**: one step through the cached handle = the same step on the bare backend (same
observation, same repository), and the invariant is kept. -/
def OpOK (L : Nat) (cbOf : Key → Bool) : Op → Prop
  | .read _ id => id.length = L
  | .readPartial t id cb _ len => id.length = L ∧ cb = cbOf (t, id) ∧ 0 < len
  | .write t id cb _ => id.length = L ∧ cb = cbOf (t, id)
  | .remove t id cb => id.length = L ∧ cb = cbOf (t, id)
  | .list _ _ => True

theorem ops_preserve_coherence {cbOf : Key → Bool} {s : St} (hi : Inv L cbOf s) (op : Op) (hop : OpOK L cbOf op) :
    (stepC L s op).1 = (stepU s.be op).1 ∧ (stepC L s op).2.be = (stepU s.be op).2 ∧ Inv L cbOf (stepC L s op).2 := by
  cases op with
  | read t id =>
    obtain ⟨h1, h2, h3⟩ := read_preserves hi t hop
    exact ⟨by simp [stepC, stepU, h1], by simp [stepC, stepU, h2], h3⟩
  | readPartial t id cb off len =>
    obtain ⟨hl, hcb, hlen⟩ := hop
    subst hcb
    obtain ⟨h1, h2, h3⟩ := ranged_read_preserves hi t hl off len hlen
    exact ⟨by simp [stepC, stepU, h1], by simp [stepC, stepU, h2], h3⟩
  | write t id cb d =>
    obtain ⟨hl, hcb⟩ := hop
    subst hcb
    obtain ⟨h1, h2⟩ := write_preserves hi t hl d
    exact ⟨rfl, h1, h2⟩
  | remove t id cb =>
    obtain ⟨hl, hcb⟩ := hop
    subst hcb
    obtain ⟨h1, h2⟩ := remove_preserves hi t hl
    exact ⟨rfl, h1, h2⟩
  | list t a =>
    obtain ⟨h1, h2⟩ := list_preserves hi t a
    exact ⟨rfl, h1, h2⟩

/-! ### (3) histories -/

/-- **Transparency.** Any history through the cached handle, started in a coherent state, yields the same results
and the same repository contents as the same history on the bare backend. -/
theorem transparent {cbOf : Key → Bool} (ops : List Op) (hops : ∀ op ∈ ops, OpOK L cbOf op) (s : St)
    (hi : Inv L cbOf s) :
    (runC L s ops).1 = (runU s.be ops).1 ∧ (runC L s ops).2.be = (runU s.be ops).2 ∧ Inv L cbOf (runC L s ops).2 := by
  induction ops generalizing s with
  | nil => exact ⟨rfl, rfl, hi⟩
  | cons op rest ih =>
    obtain ⟨h1, h2, h3⟩ := ops_preserve_coherence hi op (hops op List.mem_cons_self)
    obtain ⟨g1, g2, g3⟩ := ih (fun o ho => hops o (List.mem_cons_of_mem _ ho)) (stepC L s op).2 h3
    simp only [runC, runU]
    rw [h2] at g1 g2
    exact ⟨by rw [h1, g1], g2, g3⟩

/-- An empty cache directory is coherent for every repository. -/
theorem empty_cache_inv (cbOf : Key → Bool) (be : SpecMap) : Inv L cbOf { be := be, cache := [] } :=
  ⟨fun _ _ _ _ h => by simp [cReadFull] at h, fun _ _ _ _ => by simp [cReadFull]⟩

/-! ### (4) a listing restores coherence from an arbitrary cache directory -/

/-- `answer` is a correct `list_with_size` answer of the repository for type `t`. -/
def ListingOf (be : SpecMap) (t : FileType) (answer : List (Name × Nat)) : Prop :=
  ∀ id n, sizeOf? answer id = some n ↔ ∃ b, be (t, id) = some b ∧ n = b.length

/-- After a listing, every cache entry of that type belongs to a file the repository has, with the same size —
whatever was in the cache directory before (stale, truncated, longer, foreign, temporary, misplaced files). -/
theorem list_restores_coherence (s : St) {t : FileType} (ht : isCacheable t = true) {answer : List (Name × Nat)}
    (ha : ListingOf s.be t answer) {id : Name} (hn : isCacheName L id = true) {d : Bytes}
    (h : cReadFull (listWithSize L s t answer).cache t id = some d) :
    ∃ b, (listWithSize L s t answer).be (t, id) = some b ∧ b.length = d.length := by
  unfold listWithSize at h ⊢
  simp only [ht, if_true] at h ⊢
  obtain ⟨b, hb, hlen⟩ := (ha id d.length).1 (removeNotInList_survivor hn h)
  exact ⟨b, hb, hlen.symm⟩

/-- The property's last sentence. -/
theorem no_stale_after_listing (s : St) {t : FileType} (ht : isCacheable t = true) {answer : List (Name × Nat)}
    (ha : ListingOf s.be t answer) {id : Name} (hn : isCacheName L id = true)
    (hgone : s.be (t, id) = none) : cReadFull (listWithSize L s t answer).cache t id = none := by
  cases h : cReadFull (listWithSize L s t answer).cache t id with
  | none => rfl
  | some d =>
    obtain ⟨b, hb, _⟩ := list_restores_coherence s ht ha hn h
    simp only [listWithSize] at hb
    rw [hgone] at hb; cases hb

/-- Cache files are truncated / extended / stale copies, never same-size corruptions (outside the statement). -/
def Honest (s : St) (t : FileType) : Prop :=
  ∀ id d b, cReadFull s.cache t id = some d → s.be (t, id) = some b → d.length = b.length → d = b

theorem list_restores_coherence_honest (s : St) {t : FileType} (ht : isCacheable t = true)
    {answer : List (Name × Nat)} (ha : ListingOf s.be t answer) (hh : Honest s t) {id : Name}
    (hn : isCacheName L id = true) {d : Bytes} (h : cReadFull (listWithSize L s t answer).cache t id = some d) :
    (listWithSize L s t answer).be (t, id) = some d := by
  obtain ⟨b, hb, hlen⟩ := list_restores_coherence s ht ha hn h
  have h0 : cReadFull s.cache t id = some d := by
    unfold listWithSize at h; simp only [ht, if_true] at h; exact removeNotInList_sub h
  have hb' : s.be (t, id) = some b := hb
  rw [hh id d b h0 hb' hlen.symm]; exact hb

/-! ### (4b) two handles: the repository changes behind the cache -/

/-- **stale_cache_read_after_listing.**  Whatever another process (an uncached handle) did to the repository since the
cache was filled — files removed, added, replaced by files of another size: ANY repository `s.be` against ANY cache
directory `s.cache` — once the cached handle has listed type `t`, every whole-file read of that type through the cached
handle returns exactly what the repository holds (an error for a file that is gone).  `Honest`: a cache entry of the same
id and size as the repository file has its bytes (ids are content hashes). -/
theorem stale_cache_read_after_listing (s : St) {t : FileType} (ht : isCacheable t = true)
    {answer : List (Name × Nat)} (ha : ListingOf s.be t answer) (hh : Honest s t) {id : Name}
    (hn : isCacheName L id = true) :
    (readFull (listWithSize L s t answer) t id).1 = beReadFull s.be t id := by
  have hbe : (listWithSize L s t answer).be = s.be := rfl
  unfold readFull
  simp only [ht, if_true]
  cases hc : cReadFull (listWithSize L s t answer).cache t id with
  | some d =>
    have := list_restores_coherence_honest s ht ha hh hn hc
    rw [hbe] at this
    simp [beReadFull, this]
  | none =>
    rw [hbe]
    cases hb : s.be (t, id) <;> simp [beReadFull, hb]

/-- … and leaves the repository untouched -/
theorem stale_cache_read_keeps_repository (s : St) (t : FileType) (answer : List (Name × Nat)) (id : Name) :
    (readFull (listWithSize L s t answer) t id).2.be = s.be := by
  unfold readFull
  split
  · split
    · rfl
    · split <;> rfl
  · rfl

/-! ### (5) truncated entries -/

/-- A ranged read that a (truncated) cache entry cannot serve is answered from the repository, and the entry is
replaced by the repository's bytes. -/
theorem truncated_entry_falls_through (s : St) (t : FileType) {id : Name} (hl : id.length = L) (cb : Bool)
    (hon : (cb || isCacheable t) = true) {d' d : Bytes} (off len : Nat)
    (hc : cReadFull s.cache t id = some d') (hb : s.be (t, id) = some d)
    (hlen : 0 < len) (hshort : d'.length < off + len) (hin : off + len ≤ d.length) :
    (readPartial s t id cb off len).1 = .ok ((d.drop off).take len) ∧
    cReadFull (readPartial s t id cb off len).2.cache t id = some d := by
  unfold readPartial
  unfold cReadFull at hc
  have hr : ¬ (len = 0 ∨ off + len ≤ d'.length) := by omega
  simp only [hon, if_true, cReadPartial, hc, hr, if_false, hb, hin]
  exact ⟨trivial, by rw [cReadFull_cWrite s.cache hl hl d]; simp⟩

/-- `read_full` has no size check: what lies at the entry's path is served — before a listing a stale or truncated
entry is visible (the reason (4) is needed; repository commands list before they read). -/
theorem read_full_serves_any_entry (s : St) {t : FileType} (ht : isCacheable t = true) (id : Name) (d' : Bytes)
    (hc : cReadFull s.cache t id = some d') : (readFull s t id).1 = .ok d' := by
  unfold readFull; simp [ht, hc]

/-! ### non-vacuity / witnesses -/

def idA : Name := List.replicate 64 'a'
def idB : Name := List.replicate 63 'a' ++ ['b']
def be1 : SpecMap := fun k => if k = (.snapshot, idA) then some [1, 2, 3, 4] else none

example : Rustic.Gen.ID_HEX_LEN = 64 := by decide
example : isCacheName 64 idA = true ∧ isCacheName 64 (List.replicate 64 'A') = false := by decide
/-- stale `idB`, truncated `idA`, a misplaced id-named file and a temp file: after the listing only … nothing of
them is an entry any more, the misplaced and the temp file are left alone (they are not cache entries) -/
example :
    let c : FS := [([nSnapshots, ['a', 'a'], idB], [9]), ([nSnapshots, ['a', 'a'], idA], [1, 2]),
                   ([nSnapshots, idB], [7]), ([nSnapshots, ['a', 'a'], idA ++ tmpSuffix], [5])]
    let s' := listWithSize 64 { be := be1, cache := c } .snapshot [(idA, 4)]
    s'.cache = [([nSnapshots, idB], [7]), ([nSnapshots, ['a', 'a'], idA ++ tmpSuffix], [5])] := by decide
/-- a truncated entry: ranged read beyond it falls through and repairs it; `read_full` before that serves it -/
example :
    let s : St := { be := be1, cache := [([nSnapshots, ['a', 'a'], idA], [1, 2])] }
    (readFull s .snapshot idA).1 = .ok [1, 2] ∧
    (readPartial s .snapshot idA false 1 3).1 = .ok [2, 3, 4] ∧
    cReadFull (readPartial s .snapshot idA false 1 3).2.cache .snapshot idA = some [1, 2, 3, 4] := by decide
/-- the repaired code: a range past the end of the file is an error through the cache as well -/
example : (readPartial { be := be1, cache := [] } .snapshot idA false 2 3).1 = .err := by decide

end Rustic.Props.C19
