/-
C19 — The local cache is transparent.

Property theorems only (lemmas: `Rustic/Lemmas/Cache.lean`).  The repository is any exact map `be : SpecMap`
(C20), the cache directory any file-system state: regular files (stale, truncated, longer, foreign, temporary and
misplaced files included) **and non-file objects planted at arbitrary paths**: directories (`St.dirs` — e.g. at the entry
path of an id; no cache operation ever removes one) and symlinks (`St.cache.links`, dangling or to a regular file); all statements are for every
state / id / content / history, `L` arbitrary.

* `Coh`   — coherence: a properly placed cache file (`cHit`: a regular file, no directory / symlink at that path) holds
        exactly the repository file's bytes.
* (1) `ops_preserve_coherence` — every operation through the cached handle keeps `Coh`, and acts on the repository
        exactly like the bare backend.
* (2) `coherent_read_equiv` / `coherent_ranged_read_equiv` — under `Coh`, reads through the cache return what the bare
        backend returns.  Per file: `entry_coherent_read_equiv` (only the entry of the file read matters),
        `prefix_entry_ranged_read_equiv` (a *truncated* entry — a prefix of the repository file — never changes a ranged read),
        `dir_entry_read_equiv` / `dir_entry_ranged_read_equiv` (a directory at the entry path: the cache I/O error is
        swallowed, the answer is the repository's), `link_entry_read_equiv` / `link_entry_ranged_read_equiv` (a dangling
        symlink there: a miss), `linked_entry_is_entry` (a symlink to a regular file IS the entry: served, listed, cleaned
        up), `link_entry_replaced_by_write`, `tmp_link_removed_by_write`, `blocked_parent_*` (a regular
        file or a dangling symlink where `<type>` or `<type>/<xx>` belongs: nothing is cached, reads from the repository).
* (3) `transparent` — hence whole histories give identical results and identical repository contents (directories anywhere
        but at the temp path of a file written); `transparent_content_addressed` — under content addressing (a key always
        stores the same bytes) with directories ANYWHERE.
* (4) `list_restores_coherence` — from an **arbitrary** cache directory, a listing leaves only entries whose id the
        repository has, with the repository's size (`no_stale_after_listing`); with honest content (no same-size
        corruption — outside the statement) that is `Coh` for the listed type.
* (5) `truncated_entry_falls_through` — a ranged read a truncated entry cannot serve is answered from the repository
        and repairs the entry.  `read_full_serves_any_entry` records that `read_full` does *not* check sizes: before
        the first listing a stale / truncated entry is served as it is (which is why (4) matters).
-/
import Rustic.Lemmas.Cache
import Rustic.Gen.Constants
namespace Rustic.Props.C19
open Rustic.Cache
open Rustic.Backends hiding readFull readPartial writeBytes remove listWithSize Op step run list

variable {L : Nat}

/-- A properly placed cache file (for an id of `L` characters) equals the repository file. -/
def Coh (L : Nat) (s : St) : Prop :=
  ∀ t id d, id.length = L → cHit s.dirs s.cache t id = some d → s.be (t, id) = some d

/-- The cache entry of `(t, id)`, if there is one, is the repository file. -/
def EntryOK (s : St) (t : FileType) (id : Name) : Prop :=
  ∀ d, cHit s.dirs s.cache t id = some d → s.be (t, id) = some d

/-- The cache entry of `(t, id)`, if there is one, is a prefix of the repository file (a truncated copy). -/
def PrefixOK (s : St) (t : FileType) (id : Name) : Prop :=
  ∀ d', cHit s.dirs s.cache t id = some d' → ∃ d, s.be (t, id) = some d ∧ d' = d.take d'.length

/-! ### what a read does to the state: nothing, or a cache write of the repository's bytes -/

theorem readFullThrough_fst (s : St) (t : FileType) (id : Name) : (readFullThrough s t id).1 = beReadFull s.be t id := by
  unfold readFullThrough beReadFull
  cases s.be (t, id) <;> rfl

theorem readPartialThrough_fst (s : St) (t : FileType) (id : Name) (off len : Nat) :
    (readPartialThrough s t id off len).1 = beReadPartial s.be t id off len := by
  unfold readPartialThrough beReadPartial
  cases s.be (t, id) with
  | none => rfl
  | some d => simp only; split <;> rfl

/-- after a read the state is unchanged, or the repository's bytes of that file were written to the cache -/
def Refilled (s s' : St) (t : FileType) (id : Name) : Prop :=
  s' = s ∨ ∃ d, s.be (t, id) = some d ∧ s' = { s with cache := cWrite s.dirs s.cache t id d }

theorem readFullThrough_state (s : St) (t : FileType) (id : Name) : Refilled s (readFullThrough s t id).2 t id := by
  unfold readFullThrough
  cases hb : s.be (t, id) with
  | none => exact Or.inl rfl
  | some d => exact Or.inr ⟨d, hb, rfl⟩

theorem readPartialThrough_state (s : St) (t : FileType) (id : Name) (off len : Nat) :
    Refilled s (readPartialThrough s t id off len).2 t id := by
  unfold readPartialThrough
  cases hb : s.be (t, id) with
  | none => exact Or.inl rfl
  | some d => simp only; split <;> exact Or.inr ⟨d, hb, rfl⟩

theorem readFull_state (s : St) (t : FileType) (id : Name) :
    Refilled s (readFull s t id).2 t id ∧ ((readFull s t id).2 ≠ s → isCacheable t = true) := by
  unfold readFull
  by_cases hcb : isCacheable t = true
  · simp only [hcb, if_true]
    cases cReadFull s.dirs s.cache t id with
    | hit d => exact ⟨Or.inl rfl, fun _ => trivial⟩
    | miss => exact ⟨readFullThrough_state s t id, fun _ => trivial⟩
    | error => exact ⟨readFullThrough_state s t id, fun _ => trivial⟩
  · simp only [hcb, Bool.false_eq_true, if_false]
    exact ⟨Or.inl rfl, fun h => absurd rfl h⟩

theorem readPartial_state (s : St) (t : FileType) (id : Name) (cb : Bool) (off len : Nat) :
    Refilled s (readPartial s t id cb off len).2 t id ∧
    ((readPartial s t id cb off len).2 ≠ s → (cb || isCacheable t) = true) := by
  unfold readPartial
  by_cases hcb : (cb || isCacheable t) = true
  · simp only [hcb, if_true]
    cases cReadPartial s.dirs s.cache t id off len with
    | hit d => exact ⟨Or.inl rfl, fun _ => trivial⟩
    | miss => exact ⟨readPartialThrough_state s t id off len, fun _ => trivial⟩
    | error => exact ⟨readPartialThrough_state s t id off len, fun _ => trivial⟩
  · simp only [hcb, Bool.false_eq_true, if_false]
    exact ⟨Or.inl rfl, fun h => absurd rfl h⟩

theorem refilled_be {s s' : St} {t : FileType} {id : Name} (h : Refilled s s' t id) : s'.be = s.be ∧ s'.dirs = s.dirs := by
  rcases h with h | ⟨d, _, h⟩ <;> subst h <;> exact ⟨rfl, rfl⟩

/-- a read creates no dangling symlink -/
theorem refilled_dangling {s s' : St} {t : FileType} {id : Name} (h : Refilled s s' t id) {p : Path}
    (hp : lget s'.cache.links p = some none) : lget s.cache.links p = some none := by
  rcases h with h | ⟨d, _, h⟩ <;> subst h
  · exact hp
  · exact cWrite_dangling hp

/-- writing the repository's own bytes into the cache keeps coherence — whether or not the write gets through -/
theorem refilled_coh {s s' : St} (hc : Coh L s) {t : FileType} {id : Name} (hl : id.length = L)
    (h : Refilled s s' t id) : Coh L s' := by
  rcases h with h | ⟨d, hb, h⟩
  · subst h; exact hc
  · subst h
    intro t' id' d' hl' h'
    simp only at h'
    rw [cHit_cWrite s.dirs s.cache hl hl' d] at h'
    by_cases e : (t' = t ∧ id' = id) ∧ writes s.dirs s.cache t id = true
    · rw [if_pos e] at h'; cases h'; rw [e.1.1, e.1.2]; exact hb
    · rw [if_neg e] at h'; exact hc t' id' d' hl' h'

/-! ### (2) reads under coherence -/

/-- **Per file.** A whole-file read through the cache equals the bare backend's as soon as the entry of THAT file is
sound (absent, a directory, or the repository's bytes) — whatever else the cache directory holds. -/
theorem entry_coherent_read_equiv {s : St} {t : FileType} {id : Name} (h : EntryOK s t id) :
    (readFull s t id).1 = beReadFull s.be t id := by
  unfold readFull
  by_cases hcb : isCacheable t = true
  · simp only [hcb, if_true]
    cases hr : cReadFull s.dirs s.cache t id with
    | hit d => simp [beReadFull, h d ((cReadFull_hit_iff _ _ _ _ _).1 hr)]
    | miss => exact readFullThrough_fst s t id
    | error => exact readFullThrough_fst s t id
  · simp [hcb]

theorem coherent_read_equiv {s : St} (hc : Coh L s) (t : FileType) {id : Name} (hl : id.length = L) :
    (readFull s t id).1 = beReadFull s.be t id ∧ (readFull s t id).2.be = s.be ∧ Coh L (readFull s t id).2 :=
  ⟨entry_coherent_read_equiv (fun d h => hc t id d hl h), (refilled_be (readFull_state s t id).1).1,
   refilled_coh hc hl (readFull_state s t id).1⟩

theorem take_drop_take (d : Bytes) (n off len : Nat) (h : off + len ≤ n) :
    ((d.take n).drop off).take len = (d.drop off).take len := by
  rw [List.drop_take, List.take_take]
  congr 1
  omega

/-- **Per file, ranged.** A truncated entry (a prefix of the repository file; in particular an intact one), no entry or a
directory at the entry path: every non-empty ranged read through the cache equals the bare backend's (the slice, or an
error past the end) — ranges inside the prefix are served from it, all others fall through to the repository. -/
theorem prefix_entry_ranged_read_equiv {s : St} {t : FileType} {id : Name} (h : PrefixOK s t id) (cb : Bool)
    (off : Nat) {len : Nat} (hlen : 0 < len) :
    (readPartial s t id cb off len).1 = beReadPartial s.be t id off len := by
  unfold readPartial
  by_cases hcb : (cb || isCacheable t) = true
  · simp only [hcb, if_true]
    cases hh : cHit s.dirs s.cache t id with
    | none =>
      rcases cReadPartial_of_none hh off hlen with h0 | h0 <;> rw [h0] <;> exact readPartialThrough_fst s t id off len
    | some d' =>
      obtain ⟨d, hb, hp⟩ := h d' hh
      rw [cReadPartial_of_hit hh off hlen]
      by_cases hr : off + len ≤ d'.length
      · have hle : d'.length ≤ d.length := by
          have := congrArg List.length hp
          rw [List.length_take] at this
          omega
        have hr' : off + len ≤ d.length := by omega
        have hs := take_drop_take d d'.length off len hr
        rw [← hp] at hs
        simp only [hr, if_true, beReadPartial, hb, hr', hs]
      · simp only [hr, if_false]
        exact readPartialThrough_fst s t id off len
  · simp [hcb]

/-- Non-empty ranges: the answer through the cache is the bare backend's (slice, or error past the end). -/
theorem coherent_ranged_read_equiv {s : St} (hc : Coh L s) (t : FileType) {id : Name} (hl : id.length = L)
    (cb : Bool) (off len : Nat) (hlen : 0 < len) :
    (readPartial s t id cb off len).1 = beReadPartial s.be t id off len ∧
    (readPartial s t id cb off len).2.be = s.be ∧ Coh L (readPartial s t id cb off len).2 := by
  refine ⟨prefix_entry_ranged_read_equiv ?_ cb off hlen, (refilled_be (readPartial_state s t id cb off len).1).1,
          refilled_coh hc hl (readPartial_state s t id cb off len).1⟩
  intro d' h'
  exact ⟨d', hc t id d' hl h', (List.take_length).symm⟩

/-! ### (2b) a directory (a non-file object) at the entry path

`Cache::read_full` / `read_partial` fail with an I/O error that is not `NotFound`; `CachedBackend` logs it and answers
from the repository.  The listing clean-up never removes the directory (`dirs_constant`), so this holds for ever. -/

theorem dir_entry_read_equiv {s : St} {t : FileType} {id : Name} (hd : hasDir s.dirs (cpath t id) = true) :
    (readFull s t id).1 = beReadFull s.be t id :=
  entry_coherent_read_equiv (fun d h => by rw [cHit_of_dir _ hd] at h; cases h)

theorem dir_entry_ranged_read_equiv {s : St} {t : FileType} {id : Name} (hd : hasDir s.dirs (cpath t id) = true)
    (cb : Bool) (off : Nat) {len : Nat} (hlen : 0 < len) :
    (readPartial s t id cb off len).1 = beReadPartial s.be t id off len :=
  prefix_entry_ranged_read_equiv (fun d h => by rw [cHit_of_dir _ hd] at h; cases h) cb off hlen

/-- quirk (stated, observed on the real code): with a directory at the entry path every read / write of that file
through the cached handle leaves the temp file `<id>-tmp-` behind (the failed `rename` is not cleaned up). -/
theorem dir_entry_write_leaves_tmp (dirs : List Path) (c : CD) (t : FileType) (id : Name) (d : Bytes)
    (hp : parentObj c t id = none) (hd : hasDir dirs (cpath t id) = true) (ht : hasDir dirs (ctmp t id) = false)
    (hl : lget c.links (ctmp t id) = none) :
    fget (cWrite dirs c t id d).files (ctmp t id) = some d := by
  simp [cWrite, hp, hd, ht, hl, fget_fput_same]

/-! ### (2c) a symlink at the entry path

Dangling: for reads and the listing it is like nothing at all (`NotFound`; walkdir reports an error that is only logged);
the next cache write or removal of that file replaces / removes it.  At the TEMP path it makes one cache write fail, whose
clean-up removes it.  Resolving to a regular file: **it is a cache entry** — reads follow it, and (fix: `follow_links`) so
does the listing: `linked_entry_is_entry` puts it under every theorem about entries (`no_stale_after_listing`,
`list_restores_coherence`, `stale_cache_read_after_listing`: a symlink to a stale copy is cleaned up like a stale file). -/

theorem link_entry_read_equiv {s : St} {t : FileType} {id : Name} (hk : lget s.cache.links (cpath t id) = some none) :
    (readFull s t id).1 = beReadFull s.be t id :=
  entry_coherent_read_equiv (fun d h => by rw [cHit_of_link _ hk] at h; cases h)

theorem link_entry_ranged_read_equiv {s : St} {t : FileType} {id : Name}
    (hk : lget s.cache.links (cpath t id) = some none) (cb : Bool) (off : Nat) {len : Nat} (hlen : 0 < len) :
    (readPartial s t id cb off len).1 = beReadPartial s.be t id off len :=
  prefix_entry_ranged_read_equiv (fun d h => by rw [cHit_of_link _ hk] at h; cases h) cb off hlen

/-- a symlink at the entry path that resolves to a regular file holding `b` is the cache entry of that id: served by
reads (`read_full_serves_any_entry`), listed with size `b.length` (`mem_cList`) and therefore cleaned up by a listing -/
theorem linked_entry_is_entry (dirs : List Path) (c : CD) {t : FileType} {id : Name} {b : Bytes}
    (hp : parentObj c t id = none) (hd : hasDir dirs (cpath t id) = false)
    (hk : lget c.links (cpath t id) = some (some b)) :
    cHit dirs c t id = some b ∧ ∀ L, isCacheName L id = true → (id, b.length) ∈ cList L dirs c t := by
  have h : cHit dirs c t id = some b := by simp [cHit, hp, hd, entryBytes, hk]
  exact ⟨h, fun _ hn => mem_cList hn h⟩

/-- a cache write that gets through puts the bytes at the entry path, whatever was there (a file, a symlink) -/
theorem link_entry_replaced_by_write (dirs : List Path) (c : CD) {t : FileType} {id : Name} (d : Bytes)
    (hw : writes dirs c t id = true) : cHit dirs (cWrite dirs c t id d) t id = some d := by
  rw [cHit_cWrite dirs c (L := id.length) rfl rfl d]; simp [hw]

/-- a dangling symlink at the temp path: the cache write fails once and its clean-up removes the link -/
theorem tmp_link_removed_by_write (dirs : List Path) (c : CD) {t : FileType} {id : Name} (d : Bytes)
    (hp : parentObj c t id = none) (hd : hasDir dirs (ctmp t id) = false) (hk : lget c.links (ctmp t id) = some none) :
    cWrite dirs c t id d = unlink c (ctmp t id) ∧ tmpBlocked dirs (cWrite dirs c t id d) t id = false := by
  have e : cWrite dirs c t id d = unlink c (ctmp t id) := by simp [cWrite, hp, hd, hk]
  exact ⟨e, by rw [e]; simp [tmpBlocked, hd, unlink, lget_ldel_same]⟩

/-! ### (2d) a regular file or a dangling symlink where a parent directory (`<type>`, `<type>/<xx>`) belongs

Every cache operation on the ids below fails (`ENOTDIR` / `ENOENT`, `create_dir_all` fails) and is only logged: reads are
answered from the repository, the cache directory is not touched. -/

theorem blocked_parent_read_equiv {s : St} {t : FileType} {id : Name} (hp : (parentObj s.cache t id).isSome = true) :
    (readFull s t id).1 = beReadFull s.be t id :=
  entry_coherent_read_equiv (fun d h => by rw [cHit_of_parent _ hp] at h; cases h)

theorem blocked_parent_ranged_read_equiv {s : St} {t : FileType} {id : Name} (hp : (parentObj s.cache t id).isSome = true)
    (cb : Bool) (off : Nat) {len : Nat} (hlen : 0 < len) :
    (readPartial s t id cb off len).1 = beReadPartial s.be t id off len :=
  prefix_entry_ranged_read_equiv (fun d h => by rw [cHit_of_parent _ hp] at h; cases h) cb off hlen

theorem blocked_parent_cache_untouched (dirs : List Path) (c : CD) {t : FileType} {id : Name}
    (hp : (parentObj c t id).isSome = true) (d : Bytes) : cWrite dirs c t id d = c ∧ cRemove dirs c t id = c := by
  simp [cWrite, cRemove, hp]

/-! ### (1) every operation keeps coherence and acts on the repository like the bare backend

Callers pass one fixed `cacheable` flag per file (`cbOf`: "is a tree pack"); files that are never cached have no
cache entry (`NoEntry`).  Both are invariants of the cached handle and part of `Inv`. -/

def cacheOn (cbOf : Key → Bool) (t : FileType) (id : Name) : Bool := cbOf (t, id) || isCacheable t

def NoEntry (L : Nat) (cbOf : Key → Bool) (s : St) : Prop :=
  ∀ t id, id.length = L → cacheOn cbOf t id = false → cHit s.dirs s.cache t id = none

def Inv (L : Nat) (cbOf : Key → Bool) (s : St) : Prop := Coh L s ∧ NoEntry L cbOf s

/-- A write-through keeps coherence when the cache write can get through, or there was no entry to go stale, or the
entry already holds the bytes written: a directory or a dangling symlink at the TEMP path blocks the update of an
existing entry (`hw`). -/
theorem coh_cWrite {s : St} (hc : Coh L s) {t : FileType} {id : Name} (hl : id.length = L) {d : Bytes}
    (hw : tmpBlocked s.dirs s.cache t id = true → ∀ d0, cHit s.dirs s.cache t id = some d0 → d0 = d)
    {be' : SpecMap} (hbe : be' (t, id) = some d) (hoth : ∀ k, k ≠ (t, id) → be' k = s.be k) :
    Coh L { s with be := be', cache := cWrite s.dirs s.cache t id d } := by
  intro t' id' d' hl' h'
  simp only at h' ⊢
  rw [cHit_cWrite s.dirs s.cache hl hl' d] at h'
  by_cases e : t' = t ∧ id' = id
  · obtain ⟨e1, e2⟩ := e; subst e1; subst e2
    by_cases hwr : writes s.dirs s.cache t' id' = true
    · simp [hwr] at h'; subst h'; exact hbe
    · rw [if_neg (fun h => hwr h.2)] at h'
      by_cases htmp : tmpBlocked s.dirs s.cache t' id' = true
      · -- the cache write was blocked at the temp path: the old entry stays, and it holds the bytes written
        rw [hw htmp d' h']; exact hbe
      · -- the write did not get through although the temp path is free: a directory sits at the entry path, or a
        -- non-directory where a parent directory belongs — no entry either way
        simp only [tmpBlocked, Bool.or_eq_true, not_or, Bool.not_eq_true] at htmp
        cases hp : parentObj s.cache t' id' with
        | some b => rw [cHit_of_parent _ (by rw [hp]; rfl)] at h'; cases h'
        | none =>
          have hdir : hasDir s.dirs (cpath t' id') = true := by
            simp only [writes, hp, htmp.1, htmp.2, Option.isNone_none, Bool.not_false, Bool.true_and,
              Bool.not_eq_eq_eq_not, Bool.not_true] at hwr
            simpa using hwr
          rw [cHit_of_dir _ hdir] at h'; cases h'
  · have e' : ¬((t' = t ∧ id' = id) ∧ writes s.dirs s.cache t id = true) := fun h => e h.1
    rw [if_neg e'] at h'
    rw [hoth (t', id') (fun h => e (by cases h; exact ⟨rfl, rfl⟩))]
    exact hc t' id' d' hl' h'

theorem noEntry_cWrite {cbOf : Key → Bool} {s : St} (hn : NoEntry L cbOf s) {t : FileType} {id : Name}
    (hl : id.length = L) (hon : cacheOn cbOf t id = true) (d : Bytes) (be' : SpecMap) :
    NoEntry L cbOf { s with be := be', cache := cWrite s.dirs s.cache t id d } := by
  intro t' id' hl' hoff
  simp only
  rw [cHit_cWrite s.dirs s.cache hl hl' d]
  by_cases e : t' = t ∧ id' = id
  · rw [e.1, e.2, hon] at hoff; cases hoff
  · have e' : ¬((t' = t ∧ id' = id) ∧ writes s.dirs s.cache t id = true) := fun h => e h.1
    rw [if_neg e']; exact hn t' id' hl' hoff

theorem refilled_noEntry {cbOf : Key → Bool} {s s' : St} (hn : NoEntry L cbOf s) {t : FileType} {id : Name}
    (hl : id.length = L) (h : Refilled s s' t id) (hon : s' ≠ s → cacheOn cbOf t id = true) : NoEntry L cbOf s' := by
  rcases h with h | ⟨d, _, h⟩
  · subst h; exact hn
  · by_cases e : s' = s
    · rw [e]; exact hn
    · subst h; exact noEntry_cWrite hn hl (hon e) d s.be

theorem read_preserves {cbOf : Key → Bool} {s : St} (hi : Inv L cbOf s) (t : FileType) {id : Name} (hl : id.length = L) :
    (readFull s t id).1 = beReadFull s.be t id ∧ (readFull s t id).2.be = s.be ∧ Inv L cbOf (readFull s t id).2 := by
  obtain ⟨h1, h2, h3⟩ := coherent_read_equiv hi.1 t hl
  refine ⟨h1, h2, h3, refilled_noEntry hi.2 hl (readFull_state s t id).1 (fun h => ?_)⟩
  simp [cacheOn, (readFull_state s t id).2 h]

theorem ranged_read_preserves {cbOf : Key → Bool} {s : St} (hi : Inv L cbOf s) (t : FileType) {id : Name}
    (hl : id.length = L) (off len : Nat) (hlen : 0 < len) :
    (readPartial s t id (cbOf (t, id)) off len).1 = beReadPartial s.be t id off len ∧
    (readPartial s t id (cbOf (t, id)) off len).2.be = s.be ∧
    Inv L cbOf (readPartial s t id (cbOf (t, id)) off len).2 := by
  obtain ⟨h1, h2, h3⟩ := coherent_ranged_read_equiv hi.1 t hl (cbOf (t, id)) off len hlen
  exact ⟨h1, h2, h3, refilled_noEntry hi.2 hl (readPartial_state s t id _ off len).1
    (fun h => (readPartial_state s t id _ off len).2 h)⟩

theorem write_preserves {cbOf : Key → Bool} {s : St} (hi : Inv L cbOf s) (t : FileType) {id : Name}
    (hl : id.length = L) (d : Bytes)
    (hw : tmpBlocked s.dirs s.cache t id = true → ∀ d0, cHit s.dirs s.cache t id = some d0 → d0 = d) :
    (writeBytes s t id (cbOf (t, id)) d).be = s.be.write (t, id) d ∧ Inv L cbOf (writeBytes s t id (cbOf (t, id)) d) := by
  refine ⟨rfl, ?_⟩
  unfold writeBytes
  by_cases hcb : (cbOf (t, id) || isCacheable t) = true
  · simp only [hcb, if_true]
    exact ⟨coh_cWrite hi.1 hl hw (by simp [SpecMap.write]) (fun k hk => by simp [SpecMap.write, hk]),
           noEntry_cWrite hi.2 hl hcb d _⟩
  · simp only [hcb, Bool.false_eq_true, ↓reduceIte]
    have hoff : cacheOn cbOf t id = false := by simpa [cacheOn] using hcb
    refine ⟨?_, fun t' id' hl' h' => hi.2 t' id' hl' h'⟩
    intro t' id' d' hl' h'
    simp only [SpecMap.write] at h' ⊢
    by_cases e : (t', id') = (t, id)
    · cases e; rw [hi.2 t id hl hoff] at h'; cases h'
    · simp [e]; exact hi.1 t' id' d' hl' h'

theorem remove_preserves {cbOf : Key → Bool} {s : St} (hi : Inv L cbOf s) (t : FileType) {id : Name}
    (hl : id.length = L) :
    (remove s t id (cbOf (t, id))).be = s.be.remove (t, id) ∧ Inv L cbOf (remove s t id (cbOf (t, id))) := by
  refine ⟨rfl, ?_⟩
  unfold remove
  by_cases hcb : (cbOf (t, id) || isCacheable t) = true
  · simp only [hcb, if_true]
    constructor
    · intro t' id' d' hl' h'
      simp only [SpecMap.remove] at h' ⊢
      rw [cHit_cRemove] at h'
      by_cases e : t' = t ∧ id' = id
      · simp [e] at h'
      · simp [e] at h'
        have : (t', id') ≠ (t, id) := fun h => e (by cases h; exact ⟨rfl, rfl⟩)
        simp [this]; exact hi.1 t' id' d' hl' h'
    · intro t' id' hl' hoff
      simp only
      rw [cHit_cRemove]
      by_cases e : t' = t ∧ id' = id
      · simp [e]
      · simp [e]; exact hi.2 t' id' hl' hoff
  · simp only [hcb, Bool.false_eq_true, ↓reduceIte]
    have hoff : cacheOn cbOf t id = false := by simpa [cacheOn] using hcb
    refine ⟨?_, fun t' id' hl' h' => hi.2 t' id' hl' h'⟩
    intro t' id' d' hl' h'
    simp only [SpecMap.remove] at h' ⊢
    by_cases e : (t', id') = (t, id)
    · cases e; rw [hi.2 t id hl hoff] at h'; cases h'
    · simp [e]; exact hi.1 t' id' d' hl' h'

/-- A listing never breaks coherence, whatever the backend answered (the clean-up only deletes). -/
theorem list_preserves {cbOf : Key → Bool} {s : St} (hi : Inv L cbOf s) (t : FileType) (answer : List (Name × Nat)) :
    (listWithSize L s t answer).be = s.be ∧ Inv L cbOf (listWithSize L s t answer) := by
  refine ⟨rfl, ?_⟩
  unfold listWithSize
  by_cases hcb : isCacheable t = true
  · simp only [hcb, if_true]
    constructor
    · intro t' id' d' hl' h'
      exact hi.1 t' id' d' hl' (removeNotInList_sub h')
    · intro t' id' hl' hoff
      simp only
      cases h : cHit s.dirs (removeNotInList L s.dirs s.cache t answer) t' id' with
      | none => rfl
      | some d => have := removeNotInList_sub h; rw [hi.2 t' id' hl' hoff] at this; cases this
  · simp [hcb]; exact hi

/-- **ops_preserve_coherence**: one step through the cached handle = the same step on the bare backend (same
observation, same repository), and the invariant is kept.  `dirs`, `c.links`: the directories and dangling symlinks
planted in the cache directory — arbitrary, except that none sits at the TEMP path of a file that is written through the
handle (it would block the update of an existing entry; only an overwrite with other bytes — which content addressing
excludes, see `transparent_content_addressed` — could then be observed; witness in `notes/C19.md`). -/
def OpOK (L : Nat) (cbOf : Key → Bool) (dirs : List Path) (c : CD) : Op → Prop
  | .read _ id => id.length = L
  | .readPartial t id cb _ len => id.length = L ∧ cb = cbOf (t, id) ∧ 0 < len
  | .write t id cb _ => id.length = L ∧ cb = cbOf (t, id) ∧ tmpBlocked dirs c t id = false
  | .remove t id cb => id.length = L ∧ cb = cbOf (t, id)
  | .list _ _ => True

/-- fewer dangling symlinks: still fine -/
theorem opOK_mono {cbOf : Key → Bool} {dirs : List Path} {c c' : CD}
    (h : ∀ p, lget c'.links p = some none → lget c.links p = some none)
    {op : Op} (hop : OpOK L cbOf dirs c op) : OpOK L cbOf dirs c' op := by
  cases op with
  | write t id cb d =>
    refine ⟨hop.1, hop.2.1, ?_⟩
    have h0 := hop.2.2
    simp only [tmpBlocked, Bool.or_eq_false_iff, beq_eq_false_iff_ne, ne_eq] at h0 ⊢
    exact ⟨h0.1, fun hk => h0.2 (h _ hk)⟩
  | read t id => exact hop
  | readPartial t id cb off len => exact hop
  | remove t id cb => exact hop
  | list t a => exact hop

/-- no operation of the cached handle creates, removes or replaces a directory of the cache directory -/
theorem dirs_constant (s : St) (op : Op) : (stepC L s op).2.dirs = s.dirs := by
  cases op with
  | read t id => exact (refilled_be (readFull_state s t id).1).2
  | readPartial t id cb off len => exact (refilled_be (readPartial_state s t id cb off len).1).2
  | write t id cb d => rfl
  | remove t id cb => rfl
  | list t a => rfl

/-- no operation of the cached handle creates a dangling symlink (a cache write / removal removes one) -/
theorem dangling_shrink (s : St) (op : Op) {p : Path} (h : lget (stepC L s op).2.cache.links p = some none) :
    lget s.cache.links p = some none := by
  cases op with
  | read t id => exact refilled_dangling (readFull_state s t id).1 h
  | readPartial t id cb off len => exact refilled_dangling (readPartial_state s t id cb off len).1 h
  | write t id cb d =>
    simp only [stepC, writeBytes] at h
    split at h
    · exact cWrite_dangling h
    · exact h
  | remove t id cb =>
    simp only [stepC, remove] at h
    split at h
    · exact cRemove_dangling h
    · exact h
  | list t a =>
    simp only [stepC, listWithSize] at h
    split at h
    · exact removeNotInList_dangling h
    · exact h

theorem ops_preserve_coherence {cbOf : Key → Bool} {s : St} (hi : Inv L cbOf s) (op : Op)
    (hop : OpOK L cbOf s.dirs s.cache op) :
    (stepC L s op).1 = (stepU s.be op).1 ∧ (stepC L s op).2.be = (stepU s.be op).2 ∧ Inv L cbOf (stepC L s op).2 := by
  cases op with
  | read t id =>
    obtain ⟨h1, h2, h3⟩ := read_preserves hi t hop
    exact ⟨by simp [stepC, stepU, h1], by simp [stepC, stepU, h2], h3⟩
  | readPartial t id cb off len =>
    obtain ⟨hl, hcb, hlen⟩ := hop
    subst hcb
    obtain ⟨h1, h2, h3⟩ := ranged_read_preserves hi t hl off len hlen
    exact ⟨by simp [stepC, stepU, h1], by simp [stepC, stepU, h2], h3⟩
  | write t id cb d =>
    obtain ⟨hl, hcb, hw⟩ := hop
    subst hcb
    obtain ⟨h1, h2⟩ := write_preserves hi t hl d (fun h => by rw [hw] at h; cases h)
    exact ⟨rfl, h1, h2⟩
  | remove t id cb =>
    obtain ⟨hl, hcb⟩ := hop
    subst hcb
    obtain ⟨h1, h2⟩ := remove_preserves hi t hl
    exact ⟨rfl, h1, h2⟩
  | list t a =>
    obtain ⟨h1, h2⟩ := list_preserves hi t a
    exact ⟨rfl, h1, h2⟩

/-! ### (3) histories -/

/-- **Transparency.** Any history through the cached handle, started in a coherent state — with ANY set of directories
and dangling symlinks planted in the cache directory (at entry paths of files written, read, removed or never seen; see
`OpOK` for the one exception) — yields the same results and the same repository contents as the same history on the bare backend. -/
theorem transparent {cbOf : Key → Bool} (ops : List Op) (s : St) (hops : ∀ op ∈ ops, OpOK L cbOf s.dirs s.cache op)
    (hi : Inv L cbOf s) :
    (runC L s ops).1 = (runU s.be ops).1 ∧ (runC L s ops).2.be = (runU s.be ops).2 ∧ Inv L cbOf (runC L s ops).2 := by
  induction ops generalizing s with
  | nil => exact ⟨rfl, rfl, hi⟩
  | cons op rest ih =>
    obtain ⟨h1, h2, h3⟩ := ops_preserve_coherence hi op (hops op List.mem_cons_self)
    have hd := dirs_constant (L := L) s op
    obtain ⟨g1, g2, g3⟩ := ih (stepC L s op).2
      (fun o ho => by rw [hd]; exact opOK_mono (fun p hp => dangling_shrink s op hp) (hops o (List.mem_cons_of_mem _ ho))) h3
    simp only [runC, runU]
    rw [h2] at g1 g2
    exact ⟨by rw [h1, g1], g2, g3⟩

/-! ### (3b) content addressing: no exception at all

The file stored under a key always has the same bytes (`content k` — ids are content hashes; the assumption under which
the property is stated).  Then a blocked cache write can never leave a wrong entry behind, and transparency holds with
directories planted ANYWHERE in the cache directory, temp paths included. -/

def CA (content : Key → Bytes) (be : SpecMap) : Prop := ∀ k d, be k = some d → d = content k

def OpCA (L : Nat) (cbOf : Key → Bool) (content : Key → Bytes) : Op → Prop
  | .read _ id => id.length = L
  | .readPartial t id cb _ len => id.length = L ∧ cb = cbOf (t, id) ∧ 0 < len
  | .write t id cb d => id.length = L ∧ cb = cbOf (t, id) ∧ d = content (t, id)
  | .remove t id cb => id.length = L ∧ cb = cbOf (t, id)
  | .list _ _ => True

theorem stepU_ca {cbOf : Key → Bool} {content : Key → Bytes} {be : SpecMap} (h : CA content be) (op : Op)
    (hop : OpCA L cbOf content op) : CA content (stepU be op).2 := by
  cases op with
  | read t id => exact h
  | readPartial t id cb off len => exact h
  | write t id cb d =>
    intro k d' hk
    simp only [stepU, SpecMap.write] at hk
    by_cases e : k = (t, id)
    · simp [e] at hk; rw [← hk, e]; exact hop.2.2
    · simp [e] at hk; exact h k d' hk
  | remove t id cb =>
    intro k d' hk
    simp only [stepU, SpecMap.remove] at hk
    by_cases e : k = (t, id)
    · simp [e] at hk
    · simp [e] at hk; exact h k d' hk
  | list t a => exact h

theorem ops_preserve_coherence_ca {cbOf : Key → Bool} {content : Key → Bytes} {s : St} (hi : Inv L cbOf s)
    (hca : CA content s.be) (op : Op) (hop : OpCA L cbOf content op) :
    (stepC L s op).1 = (stepU s.be op).1 ∧ (stepC L s op).2.be = (stepU s.be op).2 ∧ Inv L cbOf (stepC L s op).2 ∧
    CA content (stepC L s op).2.be := by
  have key : (stepC L s op).1 = (stepU s.be op).1 ∧ (stepC L s op).2.be = (stepU s.be op).2 ∧
      Inv L cbOf (stepC L s op).2 := by
    cases op with
    | write t id cb d =>
      obtain ⟨hl, hcb, hd⟩ := hop
      subst hcb; subst hd
      obtain ⟨h1, h2⟩ := write_preserves hi t hl (content (t, id)) (fun _ d0 h0 => hca _ _ (hi.1 t id d0 hl h0))
      exact ⟨rfl, h1, h2⟩
    | read t id => exact ops_preserve_coherence hi _ hop
    | readPartial t id cb off len => exact ops_preserve_coherence hi _ hop
    | remove t id cb => exact ops_preserve_coherence hi _ hop
    | list t a => exact ops_preserve_coherence hi _ hop
  refine ⟨key.1, key.2.1, key.2.2, ?_⟩
  rw [key.2.1]; exact stepU_ca hca op hop

/-- **Transparency under content addressing**: ANY directories in the cache directory (no condition on `s.dirs`). -/
theorem transparent_content_addressed {cbOf : Key → Bool} {content : Key → Bytes} (ops : List Op) (s : St)
    (hops : ∀ op ∈ ops, OpCA L cbOf content op) (hi : Inv L cbOf s) (hca : CA content s.be) :
    (runC L s ops).1 = (runU s.be ops).1 ∧ (runC L s ops).2.be = (runU s.be ops).2 ∧ Inv L cbOf (runC L s ops).2 := by
  induction ops generalizing s with
  | nil => exact ⟨rfl, rfl, hi⟩
  | cons op rest ih =>
    obtain ⟨h1, h2, h3, h4⟩ := ops_preserve_coherence_ca hi hca op (hops op List.mem_cons_self)
    obtain ⟨g1, g2, g3⟩ := ih (stepC L s op).2 (fun o ho => hops o (List.mem_cons_of_mem _ ho)) h3 h4
    simp only [runC, runU]
    rw [h2] at g1 g2
    exact ⟨by rw [h1, g1], g2, g3⟩

/-- An empty cache directory — and one that holds nothing but directories — is coherent for every repository. -/
theorem empty_cache_inv (cbOf : Key → Bool) (be : SpecMap) (dirs : List Path) :
    Inv L cbOf { be := be, cache := { files := [], links := [] }, dirs := dirs } :=
  ⟨fun _ _ _ _ h => by simp [cHit, entryBytes, lget, fget] at h, fun _ _ _ _ => by simp [cHit, entryBytes, lget, fget]⟩

/-! ### (4) a listing restores coherence from an arbitrary cache directory -/

/-- `answer` is a correct `list_with_size` answer of the repository for type `t`. -/
def ListingOf (be : SpecMap) (t : FileType) (answer : List (Name × Nat)) : Prop :=
  ∀ id n, sizeOf? answer id = some n ↔ ∃ b, be (t, id) = some b ∧ n = b.length

/-- After a listing, every cache entry of that type belongs to a file the repository has, with the same size —
whatever was in the cache directory before (stale, truncated, longer, foreign, temporary, misplaced files,
directories). -/
theorem list_restores_coherence (s : St) {t : FileType} (ht : isCacheable t = true) {answer : List (Name × Nat)}
    (ha : ListingOf s.be t answer) {id : Name} (hn : isCacheName L id = true) {d : Bytes}
    (h : cHit (listWithSize L s t answer).dirs (listWithSize L s t answer).cache t id = some d) :
    ∃ b, (listWithSize L s t answer).be (t, id) = some b ∧ b.length = d.length := by
  unfold listWithSize at h ⊢
  simp only [ht, if_true] at h ⊢
  obtain ⟨b, hb, hlen⟩ := (ha id d.length).1 (removeNotInList_survivor hn h)
  exact ⟨b, hb, hlen.symm⟩

/-- The property's last sentence. -/
theorem no_stale_after_listing (s : St) {t : FileType} (ht : isCacheable t = true) {answer : List (Name × Nat)}
    (ha : ListingOf s.be t answer) {id : Name} (hn : isCacheName L id = true)
    (hgone : s.be (t, id) = none) :
    cHit (listWithSize L s t answer).dirs (listWithSize L s t answer).cache t id = none := by
  cases h : cHit (listWithSize L s t answer).dirs (listWithSize L s t answer).cache t id with
  | none => rfl
  | some d =>
    obtain ⟨b, hb, _⟩ := list_restores_coherence s ht ha hn h
    simp only [listWithSize] at hb
    rw [hgone] at hb; cases hb

/-- Cache files are truncated / extended / stale copies, never same-size corruptions (outside the statement). -/
def Honest (s : St) (t : FileType) : Prop :=
  ∀ id d b, cHit s.dirs s.cache t id = some d → s.be (t, id) = some b → d.length = b.length → d = b

theorem list_restores_coherence_honest (s : St) {t : FileType} (ht : isCacheable t = true)
    {answer : List (Name × Nat)} (ha : ListingOf s.be t answer) (hh : Honest s t) {id : Name}
    (hn : isCacheName L id = true) {d : Bytes}
    (h : cHit (listWithSize L s t answer).dirs (listWithSize L s t answer).cache t id = some d) :
    (listWithSize L s t answer).be (t, id) = some d := by
  obtain ⟨b, hb, hlen⟩ := list_restores_coherence s ht ha hn h
  have h0 : cHit s.dirs s.cache t id = some d := by
    unfold listWithSize at h; simp only [ht, if_true] at h; exact removeNotInList_sub h
  have hb' : s.be (t, id) = some b := hb
  rw [hh id d b h0 hb' hlen.symm]; exact hb

/-! ### (4b) two handles: the repository changes behind the cache -/

/-- **stale_cache_read_after_listing.**  Whatever another process (an uncached handle) did to the repository since the
cache was filled — files removed, added, replaced by files of another size: ANY repository `s.be` against ANY cache
directory `s.cache`, `s.dirs` (directories at entry paths included) — once the cached handle has listed type `t`, every
whole-file read of that type through the cached handle returns exactly what the repository holds (an error for a file
that is gone).  `Honest`: a cache entry of the same id and size as the repository file has its bytes (ids are content
hashes). -/
theorem stale_cache_read_after_listing (s : St) {t : FileType} (ht : isCacheable t = true)
    {answer : List (Name × Nat)} (ha : ListingOf s.be t answer) (hh : Honest s t) {id : Name}
    (hn : isCacheName L id = true) :
    (readFull (listWithSize L s t answer) t id).1 = beReadFull s.be t id :=
  entry_coherent_read_equiv (s := listWithSize L s t answer)
    (fun _ hc => list_restores_coherence_honest s ht ha hh hn hc)

/-- … and leaves the repository untouched -/
theorem stale_cache_read_keeps_repository (s : St) (t : FileType) (answer : List (Name × Nat)) (id : Name) :
    (readFull (listWithSize L s t answer) t id).2.be = s.be :=
  (refilled_be (readFull_state (listWithSize L s t answer) t id).1).1

/-! ### (5) truncated entries -/

/-- A ranged read that a (truncated) cache entry cannot serve is answered from the repository, and the entry is
replaced by the repository's bytes (when nothing blocks the temp path). -/
theorem truncated_entry_falls_through (s : St) (t : FileType) {id : Name} (hl : id.length = L) (cb : Bool)
    (hon : (cb || isCacheable t) = true) {d' d : Bytes} (off len : Nat)
    (hc : cHit s.dirs s.cache t id = some d') (hb : s.be (t, id) = some d) (hw : tmpBlocked s.dirs s.cache t id = false)
    (hlen : 0 < len) (hshort : d'.length < off + len) (hin : off + len ≤ d.length) :
    (readPartial s t id cb off len).1 = .ok ((d.drop off).take len) ∧
    cHit (readPartial s t id cb off len).2.dirs (readPartial s t id cb off len).2.cache t id = some d := by
  have hr : ¬ (off + len ≤ d'.length) := by omega
  have hwr : writes s.dirs s.cache t id = true := by
    simp only [tmpBlocked, Bool.or_eq_false_iff] at hw
    simp [writes, hw.1, hw.2, (cHit_some hc).1, (cHit_some hc).2.1]
  unfold readPartial
  simp only [hon, if_true, cReadPartial_of_hit hc off hlen, hr, if_false, readPartialThrough, hb, hin]
  exact ⟨trivial, by rw [cHit_cWrite s.dirs s.cache hl hl d]; simp [hwr]⟩

/-- `read_full` has no size check: what lies at the entry's path is served — before a listing a stale or truncated
entry is visible (the reason (4) is needed; repository commands list before they read). -/
theorem read_full_serves_any_entry (s : St) {t : FileType} (ht : isCacheable t = true) (id : Name) (d' : Bytes)
    (hc : cHit s.dirs s.cache t id = some d') : (readFull s t id).1 = .ok d' := by
  unfold readFull; simp [ht, (cReadFull_hit_iff _ _ _ _ _).2 hc]

/-! ### (6) files that are never cached: the cache directory is not consulted

Config and key files, and packs read / written with `cacheable = false` (data packs): `CachedBackend` passes every operation straight to
the backend.  WHATEVER lies in the cache directory — in particular at `<type>/<xx>/<id>` of such a file (nothing ever writes or cleans
that place; seeded breakage C19-7 made `read_partial` look there) — results and state are the bare backend's.  No hypothesis on `s`. -/

theorem noncacheable_read_bypasses_cache (s : St) {t : FileType} (ht : isCacheable t = false) (id : Name) :
    readFull s t id = (beReadFull s.be t id, s) := by
  unfold readFull; simp [ht]

/-- … ranged reads too — every offset and length, the empty range included -/
theorem noncacheable_read_partial_bypasses_cache (s : St) {t : FileType} (ht : isCacheable t = false) (id : Name)
    (off len : Nat) : readPartial s t id false off len = (beReadPartial s.be t id off len, s) := by
  unfold readPartial; simp [ht]

theorem noncacheable_write_remove_keep_cache (s : St) {t : FileType} (ht : isCacheable t = false) (id : Name) (d : Bytes) :
    writeBytes s t id false d = { s with be := s.be.write (t, id) d } ∧
    remove s t id false = { s with be := s.be.remove (t, id) } ∧
    ∀ a, listWithSize L s t a = s := by
  refine ⟨?_, ?_, fun a => ?_⟩
  · unfold writeBytes; simp [ht]
  · unfold remove; simp [ht]
  · unfold listWithSize; simp [ht]

/-- an operation on a file that is never cached -/
def OpNC : Op → Prop
  | .read t _ => isCacheable t = false
  | .readPartial t _ cb _ _ => isCacheable t = false ∧ cb = false
  | .write t _ cb _ => isCacheable t = false ∧ cb = false
  | .remove t _ cb => isCacheable t = false ∧ cb = false
  | .list t _ => isCacheable t = false

theorem stepC_noncacheable (s : St) (op : Op) (h : OpNC op) :
    (stepC L s op).1 = (stepU s.be op).1 ∧ (stepC L s op).2 = { s with be := (stepU s.be op).2 } := by
  cases op with
  | read t id => simp only [stepC, stepU, noncacheable_read_bypasses_cache s h id, and_self]
  | readPartial t id cb off len =>
    obtain ⟨ht, hcb⟩ := h; subst hcb
    simp only [stepC, stepU, noncacheable_read_partial_bypasses_cache s ht id off len, and_self]
  | write t id cb d =>
    obtain ⟨ht, hcb⟩ := h; subst hcb
    exact ⟨rfl, (noncacheable_write_remove_keep_cache (L := L) s ht id d).1⟩
  | remove t id cb =>
    obtain ⟨ht, hcb⟩ := h; subst hcb
    exact ⟨rfl, (noncacheable_write_remove_keep_cache (L := L) s ht id []).2.1⟩
  | list t a => exact ⟨rfl, (noncacheable_write_remove_keep_cache (L := L) s h [] []).2.2 a⟩

/-- **Histories on never-cached files are transparent from ANY cache directory** (no coherence, no `NoEntry`, no condition on ids,
ranges or planted objects), and leave the cache directory exactly as it was. -/
theorem transparent_noncacheable (ops : List Op) (s : St) (hops : ∀ op ∈ ops, OpNC op) :
    (runC L s ops).1 = (runU s.be ops).1 ∧ (runC L s ops).2 = { s with be := (runU s.be ops).2 } := by
  induction ops generalizing s with
  | nil => exact ⟨rfl, rfl⟩
  | cons op rest ih =>
    obtain ⟨h1, h2⟩ := stepC_noncacheable (L := L) s op (hops op List.mem_cons_self)
    obtain ⟨g1, g2⟩ := ih (stepC L s op).2 (fun o ho => hops o (List.mem_cons_of_mem _ ho))
    simp only [runC, runU]
    rw [h2] at g1 g2 ⊢
    exact ⟨by rw [h1, g1], g2⟩

/-! ### (7) `check` through a cached handle — with and without `trust_cache`

`checkCleanup` (model of what `Repository::check` does to the cache before it reads trees and packs): the pack clean-up
`remove_not_in_list(Pack, tree packs of the index)` runs for EVERY cached handle; `trust_cache` only skips the comparisons.  Hence, from
an ARBITRARY cache directory (foreign / overwritten / stale tree packs of other sizes, files at the locations of data packs, …) and for
BOTH settings of `trust_cache`, every pack read `check` then makes equals the uncached one.  (Seeded breakage C19-6 put the clean-up
under `!trust_cache`.) -/

/-- the index's tree packs exist in the repository with the recorded size (what `check_packs_list` verifies) -/
def TreePacksOf (be : SpecMap) (treePacks : List (Name × Nat)) : Prop :=
  ∀ id n, sizeOf? treePacks id = some n → ∃ b, be (.pack, id) = some b ∧ n = b.length

theorem listWithSize_sub {s : St} {t t' : FileType} {a : List (Name × Nat)} {id : Name} {d : Bytes}
    (h : cHit (listWithSize L s t a).dirs (listWithSize L s t a).cache t' id = some d) :
    cHit s.dirs s.cache t' id = some d := by
  unfold listWithSize at h
  by_cases ht : isCacheable t = true
  · simp only [ht, if_true] at h; exact removeNotInList_sub h
  · simp only [ht, Bool.false_eq_true, if_false] at h; exact h

/-- `check` changes neither the repository nor the planted directories -/
theorem check_cleanup_keeps_repository (s : St) (trust : Bool) (snaps idx tp : List (Name × Nat)) :
    (checkCleanup L s trust snaps idx tp).be = s.be ∧ (checkCleanup L s trust snaps idx tp).dirs = s.dirs := ⟨rfl, rfl⟩

theorem listWithSize_dirs (s : St) (t : FileType) (a : List (Name × Nat)) : (listWithSize L s t a).dirs = s.dirs := rfl

theorem checkListed_dirs (s : St) (trust : Bool) (snaps idx : List (Name × Nat)) :
    (checkListed L s trust snaps idx).dirs = s.dirs := by
  cases trust <;> simp only [checkListed, listWithSize_dirs, Bool.false_eq_true, if_true, if_false]

theorem checkCleanup_eq (s : St) (trust : Bool) (snaps idx tp : List (Name × Nat)) :
    cHit (checkCleanup L s trust snaps idx tp).dirs (checkCleanup L s trust snaps idx tp).cache =
      cHit (checkListed L s trust snaps idx).dirs
        (removeNotInList L (checkListed L s trust snaps idx).dirs (checkListed L s trust snaps idx).cache .pack tp) := by
  rw [checkListed_dirs]; rfl

theorem checkListed_sub {s : St} {trust : Bool} {snaps idx : List (Name × Nat)} {t' : FileType} {id : Name} {d : Bytes}
    (h : cHit (checkListed L s trust snaps idx).dirs (checkListed L s trust snaps idx).cache t' id = some d) :
    cHit s.dirs s.cache t' id = some d := by
  cases trust with
  | true =>
    simp only [checkListed, if_true] at h
    exact listWithSize_sub (listWithSize_sub h)
  | false =>
    simp only [checkListed, Bool.false_eq_true, if_false] at h
    exact listWithSize_sub (listWithSize_sub (listWithSize_sub (listWithSize_sub h)))

/-- `check` only deletes from the cache directory -/
theorem check_cleanup_sub {s : St} {trust : Bool} {snaps idx tp : List (Name × Nat)} {t' : FileType} {id : Name} {d : Bytes}
    (h : cHit (checkCleanup L s trust snaps idx tp).dirs (checkCleanup L s trust snaps idx tp).cache t' id = some d) :
    cHit s.dirs s.cache t' id = some d := by
  rw [checkCleanup_eq] at h
  exact checkListed_sub (removeNotInList_sub h)

/-- **After `check`, with or without `trust_cache`, no stale or wrong-sized pack is left in the cache**: every pack entry is a tree pack
of the index and has the size the index records — whatever the cache directory held. -/
theorem no_stale_pack_after_check (s : St) (trust : Bool) (snaps idx tp : List (Name × Nat)) {id : Name}
    (hn : isCacheName L id = true) {d : Bytes}
    (h : cHit (checkCleanup L s trust snaps idx tp).dirs (checkCleanup L s trust snaps idx tp).cache .pack id = some d) :
    sizeOf? tp id = some d.length := by
  rw [checkCleanup_eq] at h
  exact removeNotInList_survivor hn h

/-- … so (honest contents) every pack entry left is the repository's pack -/
theorem check_pack_entries_coherent (s : St) (trust : Bool) (snaps idx : List (Name × Nat)) {tp : List (Name × Nat)}
    (htp : TreePacksOf s.be tp) (hh : Honest s .pack) {id : Name} (hn : isCacheName L id = true) :
    EntryOK (checkCleanup L s trust snaps idx tp) .pack id := by
  intro d h
  obtain ⟨b, hb, hlen⟩ := htp id d.length (no_stale_pack_after_check s trust snaps idx tp hn h)
  rw [(check_cleanup_keeps_repository s trust snaps idx tp).1, hh id d b (check_cleanup_sub h) hb hlen]
  exact hb

/-- **Transparency of the pack reads of `check` for both settings of `trust_cache`**: from ANY cache directory, after the clean-up
`check` performs, every non-empty ranged read of ANY pack (tree blobs: `cb = true`; also data packs, stale ids) through the cached handle
returns what the repository returns … -/
theorem check_pack_reads_transparent (s : St) (trust : Bool) (snaps idx : List (Name × Nat)) {tp : List (Name × Nat)}
    (htp : TreePacksOf s.be tp) (hh : Honest s .pack) {id : Name} (hn : isCacheName L id = true) (cb : Bool) (off : Nat)
    {len : Nat} (hlen : 0 < len) :
    (readPartial (checkCleanup L s trust snaps idx tp) .pack id cb off len).1 = beReadPartial s.be .pack id off len := by
  have e := check_pack_entries_coherent s trust snaps idx htp hh hn
  rw [← (check_cleanup_keeps_repository (L := L) s trust snaps idx tp).1]
  exact prefix_entry_ranged_read_equiv (fun d' h' => ⟨d', e d' h', (List.take_length).symm⟩) cb off hlen

/-- **The pack comparison of `check` (`check_cache_files(Pack)`, run without `trust_cache`) reports nothing** after the clean-up, whatever
the cache directory held before: every entry left is the repository's pack — so the findings of `check` through a cached handle carry no
cache-specific entry, with either setting. -/
theorem check_cache_files_silent (s : St) (trust : Bool) (snaps idx : List (Name × Nat)) {tp : List (Name × Nat)}
    (htp : TreePacksOf s.be tp) (hh : Honest s .pack) :
    checkCacheFilesPack L (checkCleanup L s trust snaps idx tp) = [] := by
  unfold checkCacheFilesPack
  rw [List.filterMap_eq_nil_iff]
  intro e he
  obtain ⟨hn, hs⟩ := cList_hit he
  obtain ⟨d, hd⟩ := Option.isSome_iff_exists.1 hs
  have hb := check_pack_entries_coherent s trust snaps idx htp hh hn d hd
  rw [hb, hd]
  simp

/-- … and whole-pack reads (`read_data`) never look at the cache at all -/
theorem check_pack_read_full_transparent (s : St) (trust : Bool) (snaps idx tp : List (Name × Nat)) (id : Name) :
    (readFull (checkCleanup L s trust snaps idx tp) .pack id).1 = beReadFull s.be .pack id := by
  rw [noncacheable_read_bypasses_cache _ rfl, (check_cleanup_keeps_repository s trust snaps idx tp).1]

/-- snapshot and index files: listed (hence cleaned) in both settings before they are read -/
theorem check_file_reads_transparent (s : St) (trust : Bool) {snaps idx : List (Name × Nat)} (tp : List (Name × Nat))
    {t : FileType} (ht : t = .snapshot ∨ t = .index) (hs : ListingOf s.be .snapshot snaps) (hi : ListingOf s.be .index idx)
    (hh : Honest s t) {id : Name} (hn : isCacheName L id = true) :
    (readFull (checkCleanup L s trust snaps idx tp) t id).1 = beReadFull s.be t id := by
  rw [← (check_cleanup_keeps_repository (L := L) s trust snaps idx tp).1]
  refine entry_coherent_read_equiv (fun d h => ?_)
  rw [(check_cleanup_keeps_repository s trust snaps idx tp).1]
  rw [checkCleanup_eq] at h
  have h2 := removeNotInList_sub h
  rcases ht with ht | ht <;> subst ht
  · -- the first step of `check` lists the snapshots; everything after it only deletes
    have h0 : cHit (listWithSize L s .snapshot snaps).dirs (listWithSize L s .snapshot snaps).cache .snapshot id = some d := by
      cases trust with
      | true =>
        simp only [checkListed, if_true] at h2
        exact listWithSize_sub h2
      | false =>
        simp only [checkListed, Bool.false_eq_true, if_false] at h2
        exact listWithSize_sub (listWithSize_sub (listWithSize_sub h2))
    exact list_restores_coherence_honest s rfl hs hh hn h0
  · -- the last listing before the pack clean-up is that of the index files
    cases trust with
    | true =>
      simp only [checkListed, if_true] at h2
      exact list_restores_coherence_honest (listWithSize L s .snapshot snaps) rfl hi
        (fun i d b hc hb hl => hh i d b (listWithSize_sub hc) hb hl) hn h2
    | false =>
      simp only [checkListed, Bool.false_eq_true, if_false] at h2
      exact list_restores_coherence_honest
        (listWithSize L (listWithSize L (listWithSize L s .snapshot snaps) .snapshot snaps) .index idx) rfl hi
        (fun i d b hc hb hl => hh i d b (listWithSize_sub (listWithSize_sub (listWithSize_sub hc))) hb hl) hn h2

/-! ### (8) transparency with ANYTHING at the cache locations of never-cached files

`transparent` assumes `Inv = Coh ∧ NoEntry`: nothing lies at the cache location of a file that is never cached.  That hypothesis is not
needed: coherence of the entries of the files that ARE cached (`CohOn`) is an invariant on its own and gives the same conclusion — so a
history mixing cached and never-cached files is transparent whatever was planted at `<type>/<xx>/<id>` of the data packs, keys and the
config file (the state seeded breakage C19-7 needs). -/

def CohOn (L : Nat) (cbOf : Key → Bool) (s : St) : Prop :=
  ∀ t id d, id.length = L → cacheOn cbOf t id = true → cHit s.dirs s.cache t id = some d → s.be (t, id) = some d

theorem inv_cohOn {cbOf : Key → Bool} {s : St} (hi : Inv L cbOf s) : CohOn L cbOf s :=
  fun t id d hl _ h => hi.1 t id d hl h

theorem refilled_cohOn {cbOf : Key → Bool} {s s' : St} (hc : CohOn L cbOf s) {t : FileType} {id : Name} (hl : id.length = L)
    (h : Refilled s s' t id) : CohOn L cbOf s' := by
  rcases h with h | ⟨d, hb, h⟩
  · subst h; exact hc
  · subst h
    intro t' id' d' hl' hon h'
    simp only at h'
    rw [cHit_cWrite s.dirs s.cache hl hl' d] at h'
    by_cases e : (t' = t ∧ id' = id) ∧ writes s.dirs s.cache t id = true
    · rw [if_pos e] at h'; cases h'; rw [e.1.1, e.1.2]; exact hb
    · rw [if_neg e] at h'; exact hc t' id' d' hl' hon h'

theorem read_preserves_on {cbOf : Key → Bool} {s : St} (hi : CohOn L cbOf s) (t : FileType) {id : Name} (hl : id.length = L) :
    (readFull s t id).1 = beReadFull s.be t id ∧ (readFull s t id).2.be = s.be ∧ CohOn L cbOf (readFull s t id).2 := by
  refine ⟨?_, (refilled_be (readFull_state s t id).1).1, refilled_cohOn hi hl (readFull_state s t id).1⟩
  by_cases ht : isCacheable t = true
  · exact entry_coherent_read_equiv (fun d h => hi t id d hl (by simp [cacheOn, ht]) h)
  · rw [noncacheable_read_bypasses_cache s (by simpa using ht) id]

theorem ranged_read_preserves_on {cbOf : Key → Bool} {s : St} (hi : CohOn L cbOf s) (t : FileType) {id : Name}
    (hl : id.length = L) (off len : Nat) (hlen : 0 < len) :
    (readPartial s t id (cbOf (t, id)) off len).1 = beReadPartial s.be t id off len ∧
    (readPartial s t id (cbOf (t, id)) off len).2.be = s.be ∧
    CohOn L cbOf (readPartial s t id (cbOf (t, id)) off len).2 := by
  refine ⟨?_, (refilled_be (readPartial_state s t id _ off len).1).1,
          refilled_cohOn hi hl (readPartial_state s t id _ off len).1⟩
  by_cases hon : cacheOn cbOf t id = true
  · exact prefix_entry_ranged_read_equiv (fun d' h' => ⟨d', hi t id d' hl hon h', (List.take_length).symm⟩) _ off hlen
  · have hoff : cbOf (t, id) = false ∧ isCacheable t = false := by simpa [cacheOn] using hon
    rw [hoff.1, noncacheable_read_partial_bypasses_cache s hoff.2 id off len]

theorem write_preserves_on {cbOf : Key → Bool} {s : St} (hi : CohOn L cbOf s) (t : FileType) {id : Name}
    (hl : id.length = L) (d : Bytes)
    (hw : tmpBlocked s.dirs s.cache t id = true → ∀ d0, cHit s.dirs s.cache t id = some d0 → d0 = d) :
    CohOn L cbOf (writeBytes s t id (cbOf (t, id)) d) := by
  unfold writeBytes
  by_cases hcb : (cbOf (t, id) || isCacheable t) = true
  · simp only [hcb, if_true]
    intro t' id' d' hl' hon h'
    simp only at h' ⊢
    rw [cHit_cWrite s.dirs s.cache hl hl' d] at h'
    by_cases e : t' = t ∧ id' = id
    · obtain ⟨e1, e2⟩ := e; subst e1; subst e2
      have hbe : s.be.write (t', id') d (t', id') = some d := by simp [SpecMap.write]
      by_cases hwr : writes s.dirs s.cache t' id' = true
      · simp [hwr] at h'; subst h'; exact hbe
      · rw [if_neg (fun h => hwr h.2)] at h'
        by_cases htmp : tmpBlocked s.dirs s.cache t' id' = true
        · rw [hw htmp d' h']; exact hbe
        · simp only [tmpBlocked, Bool.or_eq_true, not_or, Bool.not_eq_true] at htmp
          cases hp : parentObj s.cache t' id' with
          | some b => rw [cHit_of_parent _ (by rw [hp]; rfl)] at h'; cases h'
          | none =>
            have hdir : hasDir s.dirs (cpath t' id') = true := by
              simp only [writes, hp, htmp.1, htmp.2, Option.isNone_none, Bool.not_false, Bool.true_and,
                Bool.not_eq_eq_eq_not, Bool.not_true] at hwr
              simpa using hwr
            rw [cHit_of_dir _ hdir] at h'; cases h'
    · have e' : ¬((t' = t ∧ id' = id) ∧ writes s.dirs s.cache t id = true) := fun h => e h.1
      rw [if_neg e'] at h'
      have hne : (t', id') ≠ (t, id) := fun h => e (by cases h; exact ⟨rfl, rfl⟩)
      simp only [SpecMap.write, hne, if_false]
      exact hi t' id' d' hl' hon h'
  · simp only [hcb, Bool.false_eq_true, ↓reduceIte]
    have hoff : cacheOn cbOf t id = false := by simpa [cacheOn] using hcb
    intro t' id' d' hl' hon h'
    simp only [SpecMap.write] at h' ⊢
    by_cases e : (t', id') = (t, id)
    · cases e; rw [hoff] at hon; cases hon
    · simp [e]; exact hi t' id' d' hl' hon h'

theorem remove_preserves_on {cbOf : Key → Bool} {s : St} (hi : CohOn L cbOf s) (t : FileType) {id : Name}
    (_ : id.length = L) : CohOn L cbOf (remove s t id (cbOf (t, id))) := by
  unfold remove
  by_cases hcb : (cbOf (t, id) || isCacheable t) = true
  · simp only [hcb, if_true]
    intro t' id' d' hl' hon h'
    simp only [SpecMap.remove] at h' ⊢
    rw [cHit_cRemove] at h'
    by_cases e : t' = t ∧ id' = id
    · simp [e] at h'
    · simp [e] at h'
      have : (t', id') ≠ (t, id) := fun h => e (by cases h; exact ⟨rfl, rfl⟩)
      simp [this]; exact hi t' id' d' hl' hon h'
  · simp only [hcb, Bool.false_eq_true, ↓reduceIte]
    have hoff : cacheOn cbOf t id = false := by simpa [cacheOn] using hcb
    intro t' id' d' hl' hon h'
    simp only [SpecMap.remove] at h' ⊢
    by_cases e : (t', id') = (t, id)
    · cases e; rw [hoff] at hon; cases hon
    · simp [e]; exact hi t' id' d' hl' hon h'

theorem ops_preserve_cohOn {cbOf : Key → Bool} {s : St} (hi : CohOn L cbOf s) (op : Op)
    (hop : OpOK L cbOf s.dirs s.cache op) :
    (stepC L s op).1 = (stepU s.be op).1 ∧ (stepC L s op).2.be = (stepU s.be op).2 ∧ CohOn L cbOf (stepC L s op).2 := by
  cases op with
  | read t id =>
    obtain ⟨h1, h2, h3⟩ := read_preserves_on hi t hop
    exact ⟨by simp [stepC, stepU, h1], by simp [stepC, stepU, h2], h3⟩
  | readPartial t id cb off len =>
    obtain ⟨hl, hcb, hlen⟩ := hop
    subst hcb
    obtain ⟨h1, h2, h3⟩ := ranged_read_preserves_on hi t hl off len hlen
    exact ⟨by simp [stepC, stepU, h1], by simp [stepC, stepU, h2], h3⟩
  | write t id cb d =>
    obtain ⟨hl, hcb, hw⟩ := hop
    subst hcb
    exact ⟨rfl, rfl, write_preserves_on hi t hl d (fun h => by rw [hw] at h; cases h)⟩
  | remove t id cb =>
    obtain ⟨hl, hcb⟩ := hop
    subst hcb
    exact ⟨rfl, rfl, remove_preserves_on hi t hl⟩
  | list t a => exact ⟨rfl, rfl, fun t' id' d' hl' hon h' => hi t' id' d' hl' hon (listWithSize_sub h')⟩

/-- **Transparency, whatever lies at the cache locations of never-cached files** (`transparent` without `NoEntry`). -/
theorem transparent_any_noncacheable_entries {cbOf : Key → Bool} (ops : List Op) (s : St)
    (hops : ∀ op ∈ ops, OpOK L cbOf s.dirs s.cache op) (hi : CohOn L cbOf s) :
    (runC L s ops).1 = (runU s.be ops).1 ∧ (runC L s ops).2.be = (runU s.be ops).2 ∧ CohOn L cbOf (runC L s ops).2 := by
  induction ops generalizing s with
  | nil => exact ⟨rfl, rfl, hi⟩
  | cons op rest ih =>
    obtain ⟨h1, h2, h3⟩ := ops_preserve_cohOn hi op (hops op List.mem_cons_self)
    have hd := dirs_constant (L := L) s op
    obtain ⟨g1, g2, g3⟩ := ih (stepC L s op).2
      (fun o ho => by rw [hd]; exact opOK_mono (fun p hp => dangling_shrink s op hp) (hops o (List.mem_cons_of_mem _ ho))) h3
    simp only [runC, runU]
    rw [h2] at g1 g2
    exact ⟨by rw [h1, g1], g2, g3⟩

/-- a cache directory that holds files ONLY at locations of never-cached files is `CohOn` for every repository -/
theorem foreign_noncacheable_entries_cohOn (cbOf : Key → Bool) (s : St)
    (h : ∀ t id, id.length = L → cacheOn cbOf t id = true → cHit s.dirs s.cache t id = none) : CohOn L cbOf s :=
  fun t id d hl hon hc => by rw [h t id hl hon] at hc; cases hc

/-! ### non-vacuity / witnesses -/

def idA : Name := List.replicate 64 'a'
def idB : Name := List.replicate 63 'a' ++ ['b']
def be1 : SpecMap := fun k => if k = (.snapshot, idA) then some [1, 2, 3, 4] else none

example : Rustic.Gen.ID_HEX_LEN = 64 := by decide
example : isCacheName 64 idA = true ∧ isCacheName 64 (List.replicate 64 'A') = false := by decide
/-- stale `idB`, truncated `idA`, a misplaced id-named file and a temp file: after the listing only … nothing of
them is an entry any more, the misplaced and the temp file are left alone (they are not cache entries) -/
example :
    let c : FS := [([nSnapshots, ['a', 'a'], idB], [9]), ([nSnapshots, ['a', 'a'], idA], [1, 2]),
                   ([nSnapshots, idB], [7]), ([nSnapshots, ['a', 'a'], idA ++ tmpSuffix], [5])]
    let s' := listWithSize 64 { be := be1, cache := { files := c } } .snapshot [(idA, 4)]
    s'.cache.files = [([nSnapshots, idB], [7]), ([nSnapshots, ['a', 'a'], idA ++ tmpSuffix], [5])] := by decide
/-- a truncated entry: ranged read beyond it falls through and repairs it; `read_full` before that serves it -/
example :
    let s : St := { be := be1, cache := { files := [([nSnapshots, ['a', 'a'], idA], [1, 2])] } }
    (readFull s .snapshot idA).1 = .ok [1, 2] ∧
    (readPartial s .snapshot idA false 1 3).1 = .ok [2, 3, 4] ∧
    cHit [] (readPartial s .snapshot idA false 1 3).2.cache .snapshot idA = some [1, 2, 3, 4] := by decide
/-- the repaired code: a range past the end of the file is an error through the cache as well -/
example : (readPartial { be := be1, cache := { files := [] } } .snapshot idA false 2 3).1 = .err := by decide
/-- a DIRECTORY at the entry path of `idA` (replayed on the real code: `corpus/C19/witnesses.ops`): whole and ranged reads
are answered from the repository, each leaves the temp file behind, the listing and a removal leave everything as it
is, an empty range is "served" by the directory -/
example :
    let s : St := { be := be1, cache := { files := [] }, dirs := [cpath .snapshot idA] }
    (readFull s .snapshot idA).1 = .ok [1, 2, 3, 4] ∧
    (readFull s .snapshot idA).2.cache.files = [(ctmp .snapshot idA, [1, 2, 3, 4])] ∧
    (readPartial s .snapshot idA false 1 2).1 = .ok [2, 3] ∧
    (readPartial s .snapshot idA false 2 3).1 = .err ∧
    (readPartial s .snapshot idA false 9 0).1 = .ok [] ∧
    (listWithSize 64 (readFull s .snapshot idA).2 .snapshot [(idA, 4)]).cache.files = [(ctmp .snapshot idA, [1, 2, 3, 4])] ∧
    (remove (readFull s .snapshot idA).2 .snapshot idA false).cache.files = [(ctmp .snapshot idA, [1, 2, 3, 4])] := by decide
/-- a DANGLING SYMLINK at the entry path of `idA` (replayed on the real code): a miss; the read refills the cache, which
replaces the link by the entry; at the temp path: one cache write fails and removes the link, the next one works -/
example :
    let s : St := { be := be1, cache := { files := [], links := [(cpath .snapshot idA, none)] } }
    (readFull s .snapshot idA).1 = .ok [1, 2, 3, 4] ∧
    (readFull s .snapshot idA).2.cache.files = [(cpath .snapshot idA, [1, 2, 3, 4])] ∧
    (readFull s .snapshot idA).2.cache.links = [] ∧
    (listWithSize 64 s .snapshot [(idA, 4)]).cache.links = [(cpath .snapshot idA, none)] := by decide
/-- FIXED (follow_links): a symlink at the entry path of `idB` to a stale copy `[9]`; the repository no longer has `idB`.
Before a listing it is served (like any stale entry); the listing removes it; then the read fails like the uncached one.
A symlink to the right bytes of `idA` stays.  Replayed on the real code (`corpus/C19/witnesses.ops`). -/
example :
    let s : St := { be := be1, cache := { files := [], links := [(cpath .snapshot idB, some [9]),
                                                                  (cpath .snapshot idA, some [1, 2, 3, 4])] } }
    (readFull s .snapshot idB).1 = .ok [9] ∧
    (listWithSize 64 s .snapshot [(idA, 4)]).cache.links = [(cpath .snapshot idA, some [1, 2, 3, 4])] ∧
    (readFull (listWithSize 64 s .snapshot [(idA, 4)]) .snapshot idB).1 = .err ∧
    (readFull (listWithSize 64 s .snapshot [(idA, 4)]) .snapshot idA).1 = .ok [1, 2, 3, 4] := by decide
/-- a symlink to a file at the TEMP path: the cache write goes THROUGH the link (the file it points to now holds the new
bytes) and the link becomes the entry -/
example :
    let s : St := { be := be1, cache := { files := [], links := [(ctmp .snapshot idA, some [7, 7])] } }
    (readFull s .snapshot idA).2.cache.links = [(cpath .snapshot idA, some [1, 2, 3, 4])] ∧
    (readFull s .snapshot idA).2.cache.files = [] := by decide
example :
    let s : St := { be := be1, cache := { files := [], links := [(ctmp .snapshot idA, none)] } }
    (readFull s .snapshot idA).2.cache.files = [] ∧ (readFull s .snapshot idA).2.cache.links = [] ∧
    (readFull (readFull s .snapshot idA).2 .snapshot idA).2.cache.files = [(cpath .snapshot idA, [1, 2, 3, 4])] := by decide
/-- a regular file where `snapshots/aa` belongs (replayed on the real code): reads from the repository, cache untouched;
the same with a dangling symlink there -/
example :
    let s : St := { be := be1, cache := { files := [([nSnapshots, ['a', 'a']], [7])] } }
    (readFull s .snapshot idA).1 = .ok [1, 2, 3, 4] ∧ (readFull s .snapshot idA).2.cache.files = s.cache.files ∧
    (readPartial s .snapshot idA false 1 2).1 = .ok [2, 3] ∧
    (writeBytes s .snapshot idA false [1, 2, 3, 4]).cache.files = s.cache.files ∧
    cReadFull [] s.cache .snapshot idA = .error ∧
    cReadFull [] { files := [], links := [([nSnapshots, ['a', 'a']], none)] } .snapshot idA = .miss := by decide
/-- the exception of `OpOK`: a directory at the TEMP path blocks the cache write; an entry that exists is then not
updated by an overwrite with other bytes (which content addressing excludes) and the cached read differs -/
example :
    let s : St := { be := be1, cache := { files := [(cpath .snapshot idA, [1, 2, 3, 4])] }, dirs := [ctmp .snapshot idA] }
    (readFull (writeBytes s .snapshot idA false [7]) .snapshot idA).1 = .ok [1, 2, 3, 4] ∧
    beReadFull (writeBytes s .snapshot idA false [7]).be .snapshot idA = .ok [7] := by decide

/-- seeded breakage C19-7 (replayed on the real code: `corpus/C19/witnesses.ops`): a foreign file at the cache location of the DATA pack
`idA` (never cached: `cacheable = false`) — whole and ranged reads come from the repository, the cache directory is not touched;
read as a TREE pack (`cacheable = true`) the same file would be served (a wrong-sized pack entry stays until `check`) -/
def bePack : SpecMap := fun k => if k = (.pack, idA) then some [1, 2, 3, 4] else none
example :
    let s : St := { be := bePack, cache := { files := [(cpath .pack idA, [9, 9, 9, 9, 9])] } }
    (readPartial s .pack idA false 1 2).1 = .ok [2, 3] ∧ (readPartial s .pack idA false 1 2).2.cache.files = s.cache.files ∧
    (readFull s .pack idA).1 = .ok [1, 2, 3, 4] ∧ (readPartial s .pack idA true 1 2).1 = .ok [9, 9] := by decide
/-- seeded breakage C19-6: an overwritten tree pack of another size (`idA`) and a stale pack (`idB`) in the cache: the clean-up of `check`
removes both with AND without `trust_cache`; the tree-blob read that follows is the repository's -/
example (trust : Bool) :
    let s : St := { be := bePack, cache := { files := [(cpath .pack idA, [9, 9, 9, 9, 9]), (cpath .pack idB, [7])] } }
    (checkCleanup 64 s trust [] [] [(idA, 4)]).cache.files = [] ∧
    (readPartial (checkCleanup 64 s trust [] [] [(idA, 4)]) .pack idA true 1 2).1 = .ok [2, 3] ∧
    checkCacheFilesPack 64 s = [.cacheMismatch idA, .errorReadingFile idB] ∧
    checkCacheFilesPack 64 (checkCleanup 64 s trust [] [] [(idA, 4)]) = [] := by
  cases trust <;> decide

/-- `CohOn` does not care what lies at the location of the data pack `idA` (`cbOf` = never cacheable) — `Inv` would be false here -/
example :
    let s : St := { be := bePack, cache := { files := [(cpath .pack idA, [9, 9, 9, 9, 9])] } }
    CohOn 64 (fun _ => false) s ∧ ¬ Inv 64 (fun _ => false) s := by
  refine ⟨foreign_noncacheable_entries_cohOn _ _ (fun t id _ hon => ?_), fun h => ?_⟩
  · cases t <;> simp [cacheOn, isCacheable] at hon <;> simp [cHit, parentObj, parentAt, lget, fget, hasDir, entryBytes, cpath,
      FileType.dirname, nSnapshots, nIndex] <;> (intro h; exact absurd h (by decide))
  · have := h.2 .pack idA (by decide) (by decide)
    revert this; decide

end Rustic.Props.C19
