/-
C10 — Backups running concurrently with prune or each other stay intact.

Theorems about the interleaving model `Rustic.Interleave` (Model/Interleave.lean: backups and prunes taking single
steps on one repository, ghost fields `t0` / `relied` / `written`, plan time `pn`) and about the protocol model
`Rustic.Repo` for backup ∥ backup.  Unbounded in the number of packs, snapshots, actors and steps.

Main theorem (`overlap_no_loss`): in EVERY state reachable by ANY interleaving of the single steps of any number of
backups, prunes and forgets (clock ticks, index loads, pack writes, snapshot saves and removals, plans, index rewrites, pack
removals),
nothing a visible snapshot needs is lost and nothing a running backup relies on is lost while that backup is within
the hypothesis — by induction over step lists with the invariant `Inv` (Lemmas/Interleave.lean: I1 snapshots, I2 relied
keys, I3 plans delete only what was marked keep-delete before, I4 own packs), every one of the nine step kinds
preserving it (`step_preserves_Inv`).  `next_prune_recovers`: from every such state the follow-up prune makes every
snapshot readable through a fresh index load — at any later time (`next_prune_recovers_however_late`), because Recover tests
the USE of a marked pack, never the age of its mark (`needed_marked_pack_recovered_whatever_its_age`: any state, no hypothesis on
times), and because every prune in between that keeps a pack marked keeps its mark time and its blob list
(`kept_marked_packs_keep_their_blobs`; composition over two prunes: `backup_over_two_prunes_recovered`; on the protocol model
with index files: `rewritten_index_listing_blobs_keeps_available`, negative witness `rewrite_dropping_blobs_loses`).  The duration hypothesis is a guard of the model (`backupFinish` is only
enabled while `now + span < t0 + keep_delete`) and is used in exactly one lemma (`doomed_listed_absurd`, the timing
core).  `span` bounds the time from a prune's plan — whose time its marks carry — to the moment its rebuilt index takes
effect; `span = 0` is the property's literal hypothesis (`overlap_no_loss_literal`: holds for a prune that stamps its
marks at that moment), `span > 0` is the real code (open finding: marks carry the PLAN time).  The *negative* result
that the literal hypothesis is not sufficient for the real code stays: `slow_prune_can_lose` (replayed on the real code
by `c10 slowprune`).  Backup ∥ backup: any interleaving of two step-wise safe write sequences is safe.
-/
import Rustic.Model.Interleave
import Rustic.Model.Prune
import Rustic.Lemmas.Interleave
import Rustic.Lemmas.Repo
namespace Rustic.Props.C10
open Rustic.Interleave
open Rustic.Repo (Key BlobType)

/-- **Timing core** (DESIGN §6 C10: "the duration hypothesis is used exactly once"): a pack marked at `t ≥ since`
cannot satisfy the deletion test `t + keep_delete ≤ pn` of any plan computed at `pn ≤ now` while
`now < since + keep_delete`. -/
theorem relied_pack_not_deletable (t since now pn keepDelete : Int) (h1 : since ≤ t) (h2 : now < since + keepDelete)
    (h3 : pn ≤ now) : ¬ (t + keepDelete ≤ pn) := by omega

/-- with a prune that needs up to `d` between its plan (whose time the marks carry) and its index write, a pack
a backup relied on at `t0` is marked at `t ≥ t0 - d`; it is safe while `now + d < t0 + keep_delete`. -/
theorem relied_pack_not_deletable_span (t t0 now pn keepDelete : Int) (d : Nat) (h1 : t0 - d ≤ t)
    (h2 : now + d < t0 + keepDelete) (h3 : pn ≤ now) : ¬ (t + keepDelete ≤ pn) := by omega

/-- (I3) a pack file disappears only through a `pruneRemove` step of a prune whose plan lists it for deletion. -/
theorem remove_only_planned (s s' : St) (j id : Nat) (h : step s (.pruneRemove j id) = some s') :
    ∃ pr, s.prunes[j]? = some pr ∧ pr.toDelete.contains id = true := by
  simp only [step] at h
  split at h
  · simp at h
  · rename_i pr hpr
    split at h
    · rename_i hc; exact ⟨pr, hpr, hc⟩
    · simp at h

/-- a plan lists for deletion only packs that are marked with `t + keep_delete ≤ pn` and hold no blob of a visible
snapshot (C02 decision table, `Delete` row), and marks only unmarked packs no visible snapshot uses. -/
theorem plan_is_disciplined (s s' : St) (del mk : List Nat) (h : step s (.pruneStart del mk) = some s') :
    (∀ id ∈ del, ∃ p ∈ s.packs, p.id = id ∧ deletable s s.now p = true) ∧
    (∀ id ∈ mk, ∃ p ∈ s.packs, p.id = id ∧ unusedUnmarked s p = true) := by
  simp only [step] at h
  split at h
  · rename_i hc
    simp only [Bool.and_eq_true, List.all_eq_true, List.any_eq_true, beq_iff_eq] at hc
    exact ⟨fun id hid => by obtain ⟨p, hp, h1, h2⟩ := hc.1 id hid; exact ⟨p, hp, h1, h2⟩,
           fun id hid => by obtain ⟨p, hp, h1, h2⟩ := hc.2 id hid; exact ⟨p, hp, h1, h2⟩⟩
  · simp at h

/-- a backup relies only on keys that a fresh index load can see (stored, unmarked). -/
theorem backup_relies_on_visible (s s' : St) (relied : List Key) (h : step s (.backupStart relied) = some s') :
    ∀ k ∈ relied, visible s k = true := by
  simp only [step] at h
  split at h
  · rename_i hc; simpa [List.all_eq_true] using hc
  · simp at h

theorem visible_kept (s : St) (since : Int) (k : Key) (h : visible s k = true) : kept s since k = true := by
  simp only [visible, kept, List.any_eq_true, Bool.and_eq_true, beq_iff_eq] at h ⊢
  obtain ⟨p, hp, ⟨hs, hst⟩, hk⟩ := h
  exact ⟨p, hp, ⟨hs, hk⟩, by rw [hst]⟩

/-- **Every step of every actor preserves the invariant** — tick, backupStart, backupWrite, backupFinish, pruneStart,
pruneRewrite, pruneRemove, pruneEnd, forget (DESIGN §6 C10 `step_preserves_Inv`). -/
theorem step_preserves_Inv (s s' : St) (a : Step) (h : Inv s) (hs : step s a = some s') : Inv s' := inv_step a h hs

/-- **Main theorem**: for every interleaving (`steps` is any list of steps of any number of backups and prunes that the
guards of the model allow), in the state reached nothing is lost: every key of every visible snapshot is in a stored
pack the index still lists, and every key a running backup (within the hypothesis) relies on is stored and listed. -/
theorem overlap_no_loss (s0 s : St) (steps : List Step) (h0 : Inv s0) (hr : run s0 steps = some s) :
    noLoss s = true := inv_noLoss (inv_run steps h0 hr)

/-- … starting from any quiescent repository (no running actor) whose snapshots are intact and whose pack ids are unique. -/
theorem overlap_no_loss_from_quiescent (s0 s : St) (steps : List Step) (hspan : s0.pruneSpan.isSome = true)
    (hu : s0.packs.Pairwise (fun p q => p.id ≠ q.id)) (hb : s0.backups = []) (hp : s0.prunes = [])
    (hs : ∀ c ∈ s0.snaps, ∀ k ∈ c, ∃ p ∈ s0.packs, p.stored = true ∧ k ∈ p.blobs ∧ p.status ≠ .unlisted)
    (hr : run s0 steps = some s) : noLoss s = true :=
  overlap_no_loss s0 s steps (inv_quiescent s0 hspan hu hb hp hs) hr

/-- the property's literal hypothesis (keep-delete exceeds the backup's duration: `span = 0`, i.e. a prune whose marks
carry the time at which its rebuilt index takes effect): a backup may finish whenever `now < t0 + keep_delete`. -/
theorem overlap_no_loss_literal (s0 s : St) (steps : List Step) (h0 : Inv s0) (hz : s0.pruneSpan = some 0)
    (hr : run s0 steps = some s) : noLoss s = true := by
  have _ := hz
  exact overlap_no_loss s0 s steps h0 hr

/-- **The next prune recovers**: in every reachable state, the follow-up prune (marked packs holding a used blob are
recovered — C02's decision table) makes every key of every visible snapshot readable through a fresh index load. -/
theorem next_prune_recovers (s0 s : St) (steps : List Step) (h0 : Inv s0) (hr : run s0 steps = some s) :
    allVisible (followupPrune s) = true := inv_followup (inv_run steps h0 hr)

/-- **Recover does not depend on the age of the mark** (prune.rs `decide_packs`: the arm `(true, 1.., _)` — marked, at least one
used blob — is `Recover` without looking at `pack.time`; only the arm `(true, 0, _)` tests `time + keep_delete ≤ plan time`).
In ANY state — no invariant, no reachability, no relation between `t`, `keep_delete` and `now` is assumed, so in particular
for `t + keep_delete ≤ now` — a stored pack marked at `t` that holds a key of a visible snapshot comes out of the follow-up
prune unmarked, with its blob list, and the key is readable through a fresh index load. -/
theorem needed_marked_pack_recovered_whatever_its_age (s : St) (p : PackSt) (t : Int) (c : List Key) (k : Key)
    (hp : p ∈ s.packs) (hm : p.status = .marked t) (hst : p.stored = true) (hc : c ∈ s.snaps) (hk : k ∈ c) (hb : k ∈ p.blobs) :
    { p with status := .unmarked } ∈ (followupPrune s).packs ∧ visible (followupPrune s) k = true := by
  have h := followup_recovers_marked hp hm hc hk hb
  refine ⟨h, ?_⟩
  simp only [visible, List.any_eq_true, Bool.and_eq_true, beq_iff_eq, List.contains_iff_mem]
  exact ⟨_, h, ⟨hst, rfl⟩, hb⟩

open Rustic.Prune in
/-- **the order of the tests in `followupPrune` is the decision table's** (C02's model `decideOne` of `decide_packs`, which is
compared with the real planner on every C02 run): for a MARKED pack the decision is `recover` as soon as one blob is used —
whatever `p.time`, `o.now`, `o.keepDelete` — and only for a pack with no used blob the age of the mark decides between `delete`
(`t + keep_delete ≤ now`) and `keepMarked`. -/
theorem marked_pack_decision_tests_use_before_age (kc : Consts) (o : Opts) (p : PPack) (pi : PackInfo) (hm : p.mark = true) :
    (decideOne kc o p pi).1 =
      if pi.usedBlobs ≠ 0 then .recover
      else match p.time with
        | some t => if t + o.keepDelete ≤ o.now then .delete else .keepMarked
        | none => .keepMarkedAndCorrect := by
  unfold decideOne
  simp only [hm]
  cases hu : pi.usedBlobs with
  | succ n => simp
  | zero =>
    simp only [ne_eq, not_true_eq_false, if_false]
    cases p.time with
    | none => rfl
    | some t =>
      simp only []
      by_cases h : t + o.keepDelete ≤ o.now
      · have : o.now - o.keepDelete ≥ t := by omega
        simp [h, this]
      · have : ¬ (o.now - o.keepDelete ≥ t) := by omega
        simp [h, this]
/-- the same with the old mark spelled out: when `t + keep_delete ≤ now`, what the follow-up prune does to the pack is decided
by use alone — used: recovered; used by no snapshot: removed. -/
theorem old_mark_is_executed_only_for_unneeded_packs (s : St) (p : PackSt) (t : Int) (hp : p ∈ s.packs)
    (hm : p.status = .marked t) (hold : t + s.keepDelete ≤ s.now) :
    (if (s.snaps.any fun c => c.any fun k => p.blobs.contains k) then { p with status := .unmarked }
     else { p with status := .unlisted, stored := false }) ∈ (followupPrune s).packs := by
  split
  · rename_i hu
    simp only [List.any_eq_true, List.contains_iff_mem] at hu
    obtain ⟨c, hc, k, hk, hb⟩ := hu
    exact followup_recovers_marked hp hm hc hk hb
  · rename_i hu
    exact followup_deletes_old_unused hp hm (by simpa using hu) hold

/-- `next_prune_recovers` with the time of the follow-up prune explicit: in every reachable state, a follow-up prune running ANY
time `d` later (one hour, or keep-delete + one hour after the marking prune, or years) makes every snapshot readable. -/
theorem next_prune_recovers_however_late (s0 s : St) (steps : List Step) (d : Nat) (h0 : Inv s0) (hr : run s0 steps = some s) :
    allVisible (followupPrune { s with now := s.now + d }) = true := inv_followup (inv_tick (inv_run steps h0 hr) d)

/-- **A prune that keeps a pack marked keeps its blob list** (prune.rs `prune_repository`: `KeepMarked` packs are written to the
rebuilt index with `into_index_pack` — id, size, time AND blobs): a pack marked at `t` that prune `j` does not delete is,
after `j`'s index rewrite, the very same entry — same mark time, same blobs. -/
theorem kept_marked_packs_keep_their_blobs (s s' : St) (j : Nat) (pr : Prune) (hpr : s.prunes[j]? = some pr)
    (h : step s (.pruneRewrite j) = some s') (p : PackSt) (t : Int) (hp : p ∈ s.packs) (hm : p.status = .marked t)
    (hk : p.id ∉ pr.toDelete) : p ∈ s'.packs := by
  obtain ⟨pr', hpr', _, rfl⟩ := step_pruneRewrite h
  rw [hpr] at hpr'
  injection hpr' with e
  subst e
  exact List.mem_map.mpr ⟨p, hp, rewritePack_keepMarked hm hk⟩

open Rustic.Prune in
/-- … and in C02's execution model (`Prune.execute` of `prune_repository`): a pack decided `keepMarked` (or
`keepMarkedAndCorrect`) that lies in an index file which is rebuilt is written to the marked section of the rebuilt index with its
old mark time and its COMPLETE blob list (`toIdx` = `into_index_pack`). -/
theorem kept_marked_entry_is_rewritten_with_its_blobs (typed : Bool) (o : Opts) (d : Decided) (p : PPack) (hp : p ∈ d.packs)
    (hr : d.rebuild.contains p.index = true) (ht : p.todo = .keepMarked ∨ p.todo = .keepMarkedAndCorrect)
    (hi : o.instantDelete = false) :
    toIdx p (some (p.time.getD o.now)) ∈ (execute typed o d).newMarked ∧
    (toIdx p (some (p.time.getD o.now))).blobs = p.blobs.map blobKey := by
  refine ⟨?_, rfl⟩
  have hne : d.rebuild.isEmpty = false := by
    cases hd : d.rebuild with
    | nil => rw [hd] at hr; simp at hr
    | cons a l => rfl
  unfold execute
  simp only [hne, hi, Bool.false_eq_true, if_false]
  apply List.mem_append_right
  rw [List.mem_filterMap]
  refine ⟨p, List.mem_filter.mpr ⟨hp, hr⟩, ?_⟩
  rcases ht with h | h <;> simp [h]
/-- more generally an index rewrite changes the status of packs only: ids and blob lists of ALL packs are what they were. -/
theorem every_prune_step_keeps_blob_lists (s s' : St) (j : Nat) (h : step s (.pruneRewrite j) = some s') :
    s'.packs.map (fun p => (p.id, p.blobs)) = s.packs.map (fun p => (p.id, p.blobs)) := by
  obtain ⟨pr, _, _, rfl⟩ := step_pruneRewrite h
  simp only [List.map_map]
  apply List.map_congr_left
  intro p _
  simp

/-- **Two prunes during one backup** (composition of `kept_marked_packs_keep_their_blobs` and
`needed_marked_pack_recovered_whatever_its_age`): pack `p` was marked by an earlier prune; a second prune rewrites the index and
keeps it marked; then the backup finishes with a snapshot that needs a key `k` of `p`; the follow-up prune — any time `d`
later — makes `k` readable.  (That the pack is still stored and not deleted by the second prune while the backup is within the
hypothesis is `overlap_no_loss`; that this holds for every interleaving and every number of prunes is `next_prune_recovers`.) -/
theorem backup_over_two_prunes_recovered (s1 s2 s3 : St) (j i : Nat) (pr : Prune) (closure : List Key)
    (hpr : s1.prunes[j]? = some pr) (h2 : step s1 (.pruneRewrite j) = some s2)
    (h3 : step s2 (.backupFinish i closure) = some s3)
    (p : PackSt) (t : Int) (hp : p ∈ s1.packs) (hm : p.status = .marked t) (hst : p.stored = true)
    (hk : p.id ∉ pr.toDelete) (k : Key) (hb : k ∈ p.blobs) (hc : k ∈ closure) (d : Nat) :
    visible (followupPrune { s3 with now := s3.now + d }) k = true := by
  have hp2 := kept_marked_packs_keep_their_blobs s1 s2 j pr hpr h2 p t hp hm hk
  obtain ⟨b, _, _, _, rfl⟩ := step_backupFinish h3
  exact (needed_marked_pack_recovered_whatever_its_age
    { s2 with snaps := closure :: s2.snaps, backups := s2.backups.eraseIdx i, now := s2.now + d } p t closure k hp2 hm hst
    (List.mem_cons_self ..) hc hb).2


/-- (I3) in every reachable state, whatever a running prune is going to remove was marked at `t` with
`t + keep_delete ≤` its plan time, or has left the index already. -/
theorem planned_removals_are_old (s0 s : St) (steps : List Step) (h0 : Inv s0) (hr : run s0 steps = some s) :
    ∀ pr ∈ s.prunes, ∀ id ∈ pr.toDelete, ∃ p ∈ s.packs, p.id = id ∧
      (p.status = .unlisted ∨ ∃ t, p.status = .marked t ∧ t + s.keepDelete ≤ pr.pn) :=
  (inv_run steps h0 hr).del

/-! ### backup ∥ backup on the protocol model: no follow-up step is needed -/
open Rustic.Repo in
/-- writes never hurt each other: if the operations of two commands are pack writes, index writes that list only
packs stored at that point, and snapshot writes whose closure is indexed at that point, then *any* interleaving that
keeps these per-operation premises is consistent after every prefix (this is `safe_run`: the premises are local to
the operation and the state it meets, not to the command that issued it). -/
theorem backup_backup_any_interleaving (r : Repo) (ops : List Op) (h : consistent r = true)
    (hs : allSafe r ops = true) : ∀ r' ∈ prefixStates r ops, consistent r' = true :=
  safe_run ops r h hs

open Rustic.Repo in
/-- and the premises of one backup's operations survive the other backup's writes: what is stored stays stored,
what is indexed stays indexed. -/
theorem writes_are_monotone (r : Repo) (o : Op) (hw : o.isWrite = true) (pid : Nat) (k : Key) :
    (stored r pid k = true → stored (apply r o) pid k = true) ∧ (indexed r k = true → indexed (apply r o) k = true) := by
  cases o <;> simp [Op.isWrite] at hw
  · exact ⟨stored_writePack r _ pid k, fun h => by rw [indexed_congr (apply r (.writePack _)) r rfl]; exact h⟩
  · refine ⟨fun h => by rw [stored_congr (apply r (.writeIndex _)) r rfl]; exact h, fun h => ?_⟩
    rw [indexed_iff] at h ⊢
    obtain ⟨i, hi, x⟩ := h
    exact ⟨i, List.mem_cons_of_mem _ hi, x⟩
  · exact ⟨fun h => by rw [stored_congr (apply r (.writeSnap _)) r rfl]; exact h,
           fun h => by rw [indexed_congr (apply r (.writeSnap _)) r rfl]; exact h⟩
  · exact ⟨id, id⟩

/-! ### the same on the protocol model (where index files exist; this is what the driver's monitor judges) -/
open Rustic.Repo in
/-- **index-file level of "kept marked packs keep their blobs"**: a prune's index rewrite = write the rebuilt index file `i`, then
remove old index files `rm`.  If `i` lists pack `p` — unmarked or MARKED — with key `k` in its blob list and the pack file is stored,
`k` stays available (can be brought back by the next prune) whatever index files are removed. -/
theorem rewritten_index_listing_blobs_keeps_available (r : Repo) (i : IndexFile) (p : IdxPack) (k : Key) (rm : List Nat)
    (hp : p ∈ i.packs ++ i.del) (hk : k ∈ p.blobs) (hs : stored r p.id k = true) (hrm : i.id ∉ rm) :
    available (applyAll (apply r (.writeIndex i)) (rm.map .removeIndex)) k = true := by
  have h := removeIndexes_keep rm (apply r (.writeIndex i)) i (by simp [apply]) hrm
  simp only [available, List.any_eq_true, Bool.and_eq_true, List.contains_iff_mem]
  refine ⟨i, h.1, p, hp, hk, ?_⟩
  have e : stored (applyAll (apply r (.writeIndex i)) (rm.map .removeIndex)) p.id k = stored r p.id k := by
    unfold stored; rw [h.2]; rfl
  rw [e]; exact hs

open Rustic.Repo in
/-- … and an entry WITHOUT its blob list loses it (the shape of seeded change C10-7): pack 1 holds `k`, the old index file 7 lists it
marked with `k`; the rebuilt index 8 lists pack 1 marked but with no blobs; once index 7 is removed `k` is not available any more. -/
theorem rewrite_dropping_blobs_loses :
    let k : Key := (.data, 1)
    let r : Repo := { packs := [{ id := 1, blobs := [k] }], indexes := [{ id := 7, packs := [], del := [{ id := 1, blobs := [k] }] }] }
    (available r k, available (applyAll r [.writeIndex { id := 8, packs := [], del := [{ id := 1, blobs := [] }] }, .removeIndex 7]) k,
     available (applyAll r [.writeIndex { id := 8, packs := [], del := [{ id := 1, blobs := [k] }] }, .removeIndex 7]) k)
      = (true, false, true) := by decide

/-! ### witnesses -/

/-- non-vacuity with `forget` (the `bfp` family of the harness): a backup loads its index and relies on `k1`, the only
snapshot using pack 1 is forgotten, a prune marks pack 1, a second prune 10 min later keeps it (marked at 100, keep-delete
23 h), the backup finishes within the hypothesis: nothing lost, and the follow-up prune makes the snapshot readable. -/
theorem forget_two_prunes_keeps :
    ((run { w0 (some 3600) with snaps := [[k1]] } [.tick 100, .backupStart [k1], .forget 0, .pruneStart [] [1], .pruneRewrite 0,
        .pruneEnd 0, .tick 600, .pruneStart [] [], .pruneRewrite 0, .pruneEnd 0, .tick 60, .backupFinish 0 [k1]]).map
      (fun s => (noLoss s, s.packs.map (fun p => (p.stored, p.status)), allVisible (followupPrune s)))) =
      some (true, [(true, .marked 100)], true) := by
  decide +kernel

/-- non-vacuity of the hypotheses of the main theorem: the witness start state satisfies the invariant. -/
example : Inv (w0 (some 3600)) := inv_quiescent _ rfl (by simp [w0]) rfl rfl (by simp [w0])

theorem slow_prune_can_lose :
    ((run (w0 none) slowPruneRun).map noLoss) = some false := by decide +kernel

/-- with the span accounted for (prune needs ≤ 1 h from plan to index write, and the backup must finish while
`now + 1 h < t0 + keep-delete`) the same schedule is refused at the last step: the backup ran too long. -/
theorem slow_prune_refused_with_span :
    (run (w0 (some 3600)) slowPruneRun).isNone = true := by decide +kernel

/-- non-vacuity: an overlap within the hypothesis — the backup relies on pack 1, prune marks it meanwhile, the
backup finishes, nothing is lost, and the pack is still stored so that the next prune recovers it. -/
theorem overlap_within_hypothesis_keeps :
    ((run (w0 (some 3600)) [.pruneStart [] [1], .tick 10, .backupStart [k1], .tick 60, .pruneRewrite 0, .pruneEnd 0,
        .tick 3600, .backupFinish 0 [k1]]).map
      (fun s => (noLoss s, s.packs.map (fun p => (p.stored, p.status))))) = some (true, [(true, .marked 0)]) := by
  decide +kernel

/-- non-vacuity, shape "follow-up later than keep-delete" (harness: `Fp.late_followup`): the history of `forget_two_prunes_keeps`,
then 25 h pass (the mark of pack 1, time 100, is older than keep-delete = 23 h): the follow-up prune RECOVERS pack 1, the
snapshot is readable; had the backup not finished (no snapshot needs `k1`), the same prune would have deleted the pack. -/
theorem late_followup_recovers_old_mark :
    ((run { w0 (some 3600) with snaps := [[k1]] } [.tick 100, .backupStart [k1], .forget 0, .pruneStart [] [1], .pruneRewrite 0,
        .pruneEnd 0, .tick 600, .pruneStart [] [], .pruneRewrite 0, .pruneEnd 0, .tick 60, .backupFinish 0 [k1], .tick 90000]).map
      (fun s => (decide (100 + s.keepDelete ≤ s.now), (followupPrune s).packs.map (fun p => (p.stored, p.status)),
        allVisible (followupPrune s), (followupPrune { s with snaps := [] }).packs.map (fun p => (p.stored, p.status))))) =
      some (true, [(true, .unmarked)], true, [(false, .unlisted)]) := by
  decide +kernel

/-- non-vacuity, shape "backup over two prunes with another backup in between" (harness: `Fp.mid_backup`): backup A relies on
`k1` (pack 1), the snapshot is forgotten, prune 1 marks pack 1 at 100; backup B writes pack 2 and finishes; prune 2 (10 min
after prune 1) rewrites the index — pack 1 stays marked at 100 WITH its blob list; A finishes; nothing is lost and the
follow-up prune, 25 h later, makes both snapshots readable. -/
theorem two_prunes_with_backup_between_keeps :
    ((run { w0 (some 3600) with snaps := [[k1]] } twoPrunesBackupBetween).map
      (fun s => (noLoss s, s.packs.map (fun p => (p.blobs.contains k1, p.stored, p.status))))) =
      some (true, [(true, true, .marked 100), (false, true, .unmarked)]) ∧
    ((run { w0 (some 3600) with snaps := [[k1]] } twoPrunesBackupBetween).map
      (fun s => ((followupPrune s).packs.map (fun p => (p.stored, p.status)), allVisible (followupPrune s)))) =
      some ([(true, .unmarked), (true, .unmarked)], true) := by
  decide +kernel

end Rustic.Props.C10
