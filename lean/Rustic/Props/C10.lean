/-
C10 — Backups running concurrently with prune or each other stay intact.

Theorems about the interleaving model `Rustic.Interleave` (Model/Interleave.lean: backups and prunes taking single
steps on one repository, ghost fields `t0` / `relied` / `written`, plan time `pn`) and about the protocol model
`Rustic.Repo` for backup ∥ backup.  Unbounded in the number of packs, snapshots, actors and steps.

Status.  Proved here: the timing core of the two-phase deletion (the only place the duration hypothesis is used), the
plan/removal discipline (I3), preservation of `noLoss` by the steps that do not rewrite pack states, backup ∥ backup
(any interleaving of two step-wise safe write sequences is safe), and the *negative* result that the property's
literal hypothesis ("keep-delete exceeds the backup's duration") is not sufficient: the marks of a prune carry its
*plan* time, so a prune that is slow between planning and writing its index shortens the protection
(`slow_prune_can_lose`, replayed on the real code by `c10 slowprune`).  The full statement
    theorem step_preserves_noLoss : noLoss s → step s a = some s' → noLoss s'        (for all eight step kinds)
is proved for `tick`, `backupStart`, `pruneStart`, `pruneEnd` (`quiet_steps_preserve_noLoss`); for `backupWrite`,
`backupFinish`, `pruneRewrite`, `pruneRemove` it is checked by the driver on every gated run of the real code and by
the `decide`d interleavings below — hence the names `…_partial`.
-/
import Rustic.Model.Interleave
import Rustic.Lemmas.Repo
namespace Rustic.Props.C10
open Rustic.Interleave
open Rustic.Repo (Key BlobType)

/-- **Timing core** (DESIGN §6 C10: "the duration hypothesis is used exactly once"): a pack marked at `t ≥ since`
cannot satisfy the deletion test `t + keep_delete ≤ pn` of any plan computed at `pn ≤ now` while
`now < since + keep_delete`. -/
theorem relied_pack_not_deletable (t since now pn keepDelete : Int) (h1 : since ≤ t) (h2 : now < since + keepDelete)
    (h3 : pn ≤ now) : ¬ (t + keepDelete ≤ pn) := by omega

/-- with a prune that needs up to `d` between its plan (whose time the marks carry) and its index write, a pack
a backup relied on at `t0` is marked at `t ≥ t0 - d`; it is safe while `now + d < t0 + keep_delete`. -/
theorem relied_pack_not_deletable_span (t t0 now pn keepDelete : Int) (d : Nat) (h1 : t0 - d ≤ t)
    (h2 : now + d < t0 + keepDelete) (h3 : pn ≤ now) : ¬ (t + keepDelete ≤ pn) := by omega

/-- (I3) a pack file disappears only through a `pruneRemove` step of a prune whose plan lists it for deletion. -/
theorem remove_only_planned (s s' : St) (j id : Nat) (h : step s (.pruneRemove j id) = some s') :
    ∃ pr, s.prunes[j]? = some pr ∧ pr.toDelete.contains id = true := by
  simp only [step] at h
  split at h
  · simp at h
  · rename_i pr hpr
    split at h
    · rename_i hc; exact ⟨pr, hpr, hc⟩
    · simp at h

/-- a plan lists for deletion only packs that are marked with `t + keep_delete ≤ pn` and hold no blob of a visible
snapshot (C02 decision table, `Delete` row), and marks only unmarked packs no visible snapshot uses. -/
theorem plan_is_disciplined (s s' : St) (del mk : List Nat) (h : step s (.pruneStart del mk) = some s') :
    (∀ id ∈ del, ∃ p ∈ s.packs, p.id = id ∧ deletable s s.now p = true) ∧
    (∀ id ∈ mk, ∃ p ∈ s.packs, p.id = id ∧ unusedUnmarked s p = true) := by
  simp only [step] at h
  split at h
  · rename_i hc
    simp only [Bool.and_eq_true, List.all_eq_true, List.any_eq_true, beq_iff_eq] at hc
    exact ⟨fun id hid => by obtain ⟨p, hp, h1, h2⟩ := hc.1 id hid; exact ⟨p, hp, h1, h2⟩,
           fun id hid => by obtain ⟨p, hp, h1, h2⟩ := hc.2 id hid; exact ⟨p, hp, h1, h2⟩⟩
  · simp at h

/-- a backup relies only on keys that a fresh index load can see (stored, unmarked). -/
theorem backup_relies_on_visible (s s' : St) (relied : List Key) (h : step s (.backupStart relied) = some s') :
    ∀ k ∈ relied, visible s k = true := by
  simp only [step] at h
  split at h
  · rename_i hc; simpa [List.all_eq_true] using hc
  · simp at h

theorem visible_kept (s : St) (since : Int) (k : Key) (h : visible s k = true) : kept s since k = true := by
  simp only [visible, kept, List.any_eq_true, Bool.and_eq_true, beq_iff_eq] at h ⊢
  obtain ⟨p, hp, ⟨hs, hst⟩, hk⟩ := h
  exact ⟨p, hp, ⟨hs, hk⟩, by rw [hst]⟩

/-- the steps that do not change pack states or finish a backup preserve `noLoss`. -/
theorem quiet_steps_preserve_noLoss_partial (s s' : St) (a : Step) (hn : noLoss s = true) (h : step s a = some s')
    (hq : (∃ d, a = .tick d) ∨ (∃ r, a = .backupStart r) ∨ (∃ d m, a = .pruneStart d m) ∨ (∃ j, a = .pruneEnd j)) :
    noLoss s' = true := by
  rcases hq with ⟨d, rfl⟩ | ⟨r, rfl⟩ | ⟨d, m, rfl⟩ | ⟨j, rfl⟩
  · simp only [step, Option.some.injEq] at h; subst h; exact hn
  · simp only [step] at h
    split at h
    · rename_i hc
      simp only [Option.some.injEq] at h; subst h
      simp only [noLoss, Bool.and_eq_true, List.all_append, List.all_cons, List.all_nil, Bool.and_true] at hn ⊢
      refine ⟨hn.1, hn.2, ?_⟩
      simp only [List.all_eq_true] at hc ⊢
      intro k hk
      exact visible_kept _ _ k (hc k hk)
    · simp at h
  · simp only [step] at h
    split at h
    · simp only [Option.some.injEq] at h; subst h; exact hn
    · simp at h
  · simp only [step] at h
    split at h
    · simp only [Option.some.injEq] at h; subst h; exact hn
    · simp at h

/-! ### backup ∥ backup on the protocol model: no follow-up step is needed -/
open Rustic.Repo in
/-- writes never hurt each other: if the operations of two commands are pack writes, index writes that list only
packs stored at that point, and snapshot writes whose closure is indexed at that point, then *any* interleaving that
keeps these per-operation premises is consistent after every prefix (this is `safe_run`: the premises are local to
the operation and the state it meets, not to the command that issued it). -/
theorem backup_backup_any_interleaving (r : Repo) (ops : List Op) (h : consistent r = true)
    (hs : allSafe r ops = true) : ∀ r' ∈ prefixStates r ops, consistent r' = true :=
  safe_run ops r h hs

open Rustic.Repo in
/-- and the premises of one backup's operations survive the other backup's writes: what is stored stays stored,
what is indexed stays indexed. -/
theorem writes_are_monotone (r : Repo) (o : Op) (hw : o.isWrite = true) (pid : Nat) (k : Key) :
    (stored r pid k = true → stored (apply r o) pid k = true) ∧ (indexed r k = true → indexed (apply r o) k = true) := by
  cases o <;> simp [Op.isWrite] at hw
  · exact ⟨stored_writePack r _ pid k, fun h => by rw [indexed_congr (apply r (.writePack _)) r rfl]; exact h⟩
  · refine ⟨fun h => by rw [stored_congr (apply r (.writeIndex _)) r rfl]; exact h, fun h => ?_⟩
    rw [indexed_iff] at h ⊢
    obtain ⟨i, hi, x⟩ := h
    exact ⟨i, List.mem_cons_of_mem _ hi, x⟩
  · exact ⟨fun h => by rw [stored_congr (apply r (.writeSnap _)) r rfl]; exact h,
           fun h => by rw [indexed_congr (apply r (.writeSnap _)) r rfl]; exact h⟩
  · exact ⟨id, id⟩

/-! ### witnesses -/

theorem slow_prune_can_lose :
    ((run (w0 none) slowPruneRun).map noLoss) = some false := by decide +kernel

/-- with the span accounted for (prune needs ≤ 1 h from plan to index write, and the backup must finish while
`now + 1 h < t0 + keep-delete`) the same schedule is refused at the last step: the backup ran too long. -/
theorem slow_prune_refused_with_span :
    (run (w0 (some 3600)) slowPruneRun).isNone = true := by decide +kernel

/-- non-vacuity: an overlap within the hypothesis — the backup relies on pack 1, prune marks it meanwhile, the
backup finishes, nothing is lost, and the pack is still stored so that the next prune recovers it. -/
theorem overlap_within_hypothesis_keeps :
    ((run (w0 (some 3600)) [.pruneStart [] [1], .tick 10, .backupStart [k1], .tick 60, .pruneRewrite 0, .pruneEnd 0,
        .tick 3600, .backupFinish 0 [k1]]).map
      (fun s => (noLoss s, s.packs.map (fun p => (p.stored, p.status))))) = some (true, [(true, .marked 0)]) := by
  decide +kernel

end Rustic.Props.C10
