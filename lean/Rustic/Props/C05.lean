/-
C05 — Check is sound and complete with respect to restorability.

Model: `Rustic/Model/Check.lean` (`commands/check.rs`: `check_packs`, `check_packs_list`, `check_trees`,
`check_pack`) over an arbitrary — i.e. arbitrarily damaged — abstract repository `r : Repo`: index files
that may lie, be duplicated or incomplete; stored pack files given by size, sha256, trailer, header parse
and a per-byte-range decrypt table.  All statements quantify over every `Repo`, every index lookup `lk`
satisfying `LkSound`, every size-constant set `z` and every fuel; no size bound anywhere.

"Complete" (damage ⇒ all snapshots restore ∨ check reports an error) is the contrapositive of soundness
quantified over arbitrary repository states: `damage_reported_or_harmless`.

FULL STATEMENT (not provable of the current code):
  check z true r lk fuel = .findings [] → ∀ s ∈ r.snaps, s.authentic = true ∧ RestoresCorrectly r lk s.tree
Missing hypothesis of the `_partial` theorems (the first one proves the `RestoresCorrectly` half without it):
 * `SnapshotsAuthentic` — no check-side (nor read-side) comparison of a snapshot file's name with the hash
   of its content: exchanging two snapshot files is silent (DESIGN §7 #12, witness `snapshot_swap_undetected`,
   replayed on the real code by corpus/C05/snapshot_swap.ops; known finding).
Discharged: `DirsOnly` (only `Dir` nodes carry subtrees) was a hypothesis because `check_trees` looked at the subtree
of `Dir` nodes only while the tree streamers follow the subtree of any node; a `ReadSource` can hand the archiver a
file node with a subtree, and the real check was silent on a pack swap below it (corpus/C05/file_node_subtree.ops).
Repaired in the code (`fix: check ignored subtrees of non-directory nodes`), modelled (`subtreeErrs`/`subtreePacks`),
and the hypothesis is gone (witness of the repaired behaviour: `non_dir_subtree_checked`).
Repaired: packs holding only root trees never entered the read set (DESIGN §7 #11); `check z false` is the
code before the repair, `root_tree_pack_swap_undetected_before_fix` its witness (replayed on the real code by
corpus/C05/root_tree_pack_swap.ops, where the repaired code now reports `PackHashMismatch`).
-/
import Rustic.Lemmas.Check
namespace Rustic.Props.C05
open Rustic.Check

def SnapshotsAuthentic (r : Repo) : Prop := ∀ s ∈ r.snaps, s.authentic = true

/-- (0) **Which packs enter check's own index**: `check_packs` feeds its index collector with `index.packs` of
every index file — the packs of the unmarked sections and nothing else; this is the pack list of the index every
reader (restore / dump / ls: `GlobalIndex::new`) uses.  Packs that prune marked for deletion never answer a
look-up of check. -/
theorem check_index_is_reader_index (r : Repo) :
    checkIndexPacks false r = livePacks r ∧
    (∀ p ∈ checkIndexPacks false r, ∃ f ∈ r.index, p ∈ f.packs) ∧
    (∀ lk, LkSoundOn (checkIndexPacks false r) lk ↔ LkSound r lk) := by
  refine ⟨checkIndexPacks_false r, fun p hp => ?_, lkSound_iff_checkIndex r⟩
  rw [checkIndexPacks_false] at hp
  exact List.mem_flatMap.mp hp

/-- (1) Soundness: a full check (`read_data`) without Error-level finding — its own index `lk` being built from
the packs `check_packs` collects (`checkIndexPacks false`: unmarked only) — ⇒ every snapshot's trees and file
chunks, as a restore / dump / ls reads them through that pack list, are indexed, stored, MAC-valid, decode, have
the recorded length and hash to their ids. -/
theorem check_ok_implies_restorable_partial (z : Sizes) (r : Repo) (lk : Lookup) (fuel : Nat)
    (hlk : LkSoundOn (checkIndexPacks false r) lk)
    (h : checkW false z true r lk fuel = .findings []) :
    ∀ s ∈ r.snaps, RestoresCorrectly r lk s.tree :=
  check_sound ((lkSound_iff_checkIndex r lk).mp hlk) h

/-- (1') … and the snapshot read is the snapshot written, when snapshot files are what their names say. -/
theorem check_ok_implies_restores_original_partial (z : Sizes) (r : Repo) (lk : Lookup) (fuel : Nat)
    (hlk : LkSound r lk) (ha : SnapshotsAuthentic r)
    (h : check z true r lk fuel = .findings []) :
    ∀ s ∈ r.snaps, s.authentic = true ∧ RestoresCorrectly r lk s.tree :=
  fun s hs => ⟨ha s hs, check_sound hlk h s hs⟩

/-- (2) Completeness in the sense of the statement: whatever happened to the stored files (remove,
truncate, flip, swap, index entries dropped or duplicated — `r` is arbitrary), if some snapshot does not
restore correctly then the check does not come back clean (it reports an Error or fails as a command). -/
theorem damage_reported_or_harmless (z : Sizes) (r : Repo) (lk : Lookup) (fuel : Nat)
    (hlk : LkSound r lk) :
    (∀ s ∈ r.snaps, RestoresCorrectly r lk s.tree) ∨ check z true r lk fuel ≠ .findings [] := by
  by_cases h : check z true r lk fuel = .findings []
  · exact Or.inl (check_sound hlk h)
  · exact Or.inr h

/-- (3) Index-only damage: after a clean check every tree and every file chunk a reader reaches is in the
index (a dropped entry of a needed blob cannot go unnoticed). -/
theorem clean_check_implies_reachable_indexed (z : Sizes) (r : Repo) (lk : Lookup) (fuel : Nat)
    (hlk : LkSound r lk) (h : check z true r lk fuel = .findings [])
    (s : Snap) (hs : s ∈ r.snaps) (t : Id) (ht : Reach r lk s.tree t) :
    (lk .tree t).isSome ∧ ∃ nodes, readTree r lk t = some nodes ∧
      ∀ n ∈ nodes, n.kind = .file → ∃ ids, n.content = some ids ∧ ∀ d ∈ ids, (lk .data d).isSome := by
  obtain ⟨_, nodes, hrd, hf⟩ := check_sound hlk h s hs t ht
  obtain ⟨e, he⟩ := lk_of_readTree hrd
  refine ⟨by simp [he], nodes, hrd, fun n hn hk => ?_⟩
  obtain ⟨ids, hc, hall⟩ := hf n hn hk
  refine ⟨ids, hc, fun d hdm => ?_⟩
  obtain ⟨nd, hnd⟩ := hall d hdm
  unfold readBlob at hnd
  cases hl : lk .data d with
  | none => simp [hl] at hnd
  | some e => simp

/-- (4) A clean index-level pass pins every listed pack's layout: blobs typed like the pack, offsets
cumulative from 0 in offset order (so duplicated, overlapping or shifted entries are reported). -/
theorem clean_index_offsets_cumulative (r : Repo) (h : indexErrs r = []) (p : IPack) (hp : p ∈ livePacks r) :
    offsetErrs (packType p) 0 (sortBlobs p.blobs) = [] ∧ ∀ b ∈ p.blobs, b.tpe = packType p := by
  have := (List.flatMap_eq_nil_iff.mp h) (p, false) (mem_allIndexPacks_of_live hp)
  simp only [indexPackErrs, List.append_eq_nil_iff] at this
  exact ⟨this.2, fun b hb => offsetErrs_types this.2 b (mem_sortBlobs.mpr hb)⟩

/-- (5) The restorability verdict the driver prints (`restore=ok`) implies the specification. -/
theorem restore_verdict_sound (r : Repo) (lk : Lookup) (fuel : Nat) (h : restoreOk r lk fuel = true) :
    ∀ s ∈ r.snaps, s.authentic = true ∧ RestoresCorrectly r lk s.tree :=
  restoreOk_sound h

/-- (6) The lookup used by the driver is an admissible index. -/
theorem driver_lookup_sound (r : Repo) : LkSound r (lkFirst r) := lkFirst_sound r

/-- (7) **The read set of `check_trees` covers ALL content.**  Whenever the tree walk of check comes through (`out`), the set of
packs `check --read-data` goes on to read (`readSet`) holds the pack of EVERY content blob (as check's index `lk` locates it) of
EVERY file node of EVERY tree reachable from EVERY snapshot — whatever the node's recorded `size` (0 with real content for stdin /
stdin-command snapshots, smaller or larger than the content for files that changed while read), `links`, `inode` and `device`
(a hardlinked file overwritten in place keeps inode and link count across snapshots with new content): these fields are
universally quantified here and `nodePacks` does not look at them (`nodePacks_ignores_metadata`).  Together with the root-tree
packs and the packs of every subtree this is why a clean full check has read every blob a restore needs. -/
theorem check_read_set_covers_all_content (rootFix : Bool) (r : Repo) (lk : Lookup) (fuel : Nat)
    (out : List (Id × List Node)) (hw : walk (readTree r lk) fuel (roots r) (roots r) = some out) :
    ∀ s ∈ r.snaps, ∀ t, Reach r lk s.tree t → ∀ nodes, readTree r lk t = some nodes →
      ∀ n ∈ nodes, n.kind = .file → ∀ ids, n.content = some ids → ∀ d ∈ ids, ∀ e, lk .data d = some e →
        e.pack ∈ readSet rootFix r lk out := by
  intro s hs t ht nodes hrd n hn hk ids hc d hd e he
  obtain ⟨nodes', hmem, hrd'⟩ := reach_processed hw (mem_roots hs) ht
  rw [hrd] at hrd'
  cases hrd'
  unfold readSet
  apply List.mem_append_right
  exact mem_walkPacks hmem hn (content_pack_in_nodePacks hk hc hd he)

/-- (7') … and the verdict of the whole check does not depend on that metadata: rewriting size / links / inode / device of any
node changes neither its findings nor the packs it contributes. -/
theorem check_ignores_node_metadata (lk : Lookup) (n : Node) (size links inode device : Nat) :
    nodePacks lk { n with size := size, links := links, inode := inode, device := device } = nodePacks lk n ∧
    nodeErrs lk { n with size := size, links := links, inode := inode, device := device } = nodeErrs lk n :=
  nodePacks_ignores_metadata lk n size links inode device

/-- (8) **check walks every listed snapshot, whatever its delete mark and whatever the time is.**  `Repository::check` hands
`check_repository` the root tree of every snapshot `get_all_snapshots` lists (`snapTrees`); a snapshot saved with
`--delete-after` whose time has passed (or with `delete-never`) is a listed, restorable snapshot until `forget` removes the
file.  (a) the root of every listed snapshot is among the trees handed over and among the roots of the walk — no `now`
occurs in the model of the code; (b) rewriting the delete marks of the snapshot files in ANY way (`remark f`) changes neither
these trees nor the verdict of the check; (c) whenever the tree walk comes through, the root tree of every listed snapshot —
marked or not — has been loaded and processed (so, by `check_read_set_covers_all_content`, the packs of all its content are
read); (d) soundness therefore covers the marked snapshots: a clean check implies that every listed snapshot, in particular
every one whose delete-after time has passed at any `now`, restores. -/
theorem check_walks_every_listed_snapshot (w : Bool) (z : Sizes) (rootFix : Bool) (r : Repo) (lk : Lookup) (fuel : Nat) :
    (∀ s ∈ r.snaps, s.tree ∈ snapTrees r ∧ s.tree ∈ roots r) ∧
    (∀ f : Snap → DelMark, snapTrees (remark f r) = snapTrees r ∧ roots (remark f r) = roots r ∧
      checkW w z rootFix (remark f r) lk fuel = checkW w z rootFix r lk fuel) ∧
    (∀ out, walk (readTree r lk) fuel (roots r) (roots r) = some out →
      ∀ s ∈ r.snaps, ∃ nodes, (s.tree, nodes) ∈ out ∧ readTree r lk s.tree = some nodes) ∧
    (LkSound r lk → check z true r lk fuel = .findings [] →
      ∀ now : Int, ∀ s ∈ r.snaps, mustDelete now s = true → RestoresCorrectly r lk s.tree) := by
  refine ⟨fun s hs => ⟨List.mem_map.mpr ⟨s, hs, rfl⟩, mem_roots hs⟩,
    fun f => ⟨snapTrees_remark f r, roots_remark f r, checkW_remark f w z rootFix r lk fuel⟩,
    fun out hw s hs => reach_processed hw (mem_roots hs) Reach.root,
    fun hlk h _ s hs _ => check_sound hlk h s hs⟩

/-! ## Witnesses -/

def z0 : Sizes := { entryLen := 37, entryLenComp := 41, overhead := 32, lengthLen := 4 }

def fileNode (ids : List Id) : Node := { kind := .file, subtree := none, content := some ids }

def tblob (id : Id) : Blob := { id := id, tpe := .tree, offset := 0, length := 100, ulen := none }
def dblob (id : Id) : Blob := { id := id, tpe := .data, offset := 0, length := 50, ulen := none }

/-- a stored tree pack `id` whose bytes are those written for the tree `content` (sha256 = `hash`) -/
def treeFile (id hash content : Id) (nodes : List Node) : PFile :=
  { id := id, size := 173, hash := hash, trailer := some 69, header := some [tblob content],
    dec := fun off len c => if off = 0 ∧ len = 100 ∧ c = false then .ok content 68 (some nodes) else .fail }
def dataFile (id content : Id) : PFile :=
  { id := id, size := 123, hash := id, trailer := some 69, header := some [dblob content],
    dec := fun off len c => if off = 0 ∧ len = 50 ∧ c = false then .ok content 18 none else .fail }

def idx11 : List IFile :=
  [{ packs := [{ id := 10, blobs := [tblob 1], timeSet := true, size := none },
               { id := 20, blobs := [tblob 2], timeSet := true, size := none },
               { id := 30, blobs := [dblob 3], timeSet := true, size := none },
               { id := 40, blobs := [dblob 4], timeSet := true, size := none }], toDelete := [] }]

/-- two stdin-style snapshots (root tree 1 → chunk 3, root tree 2 → chunk 4), undamaged -/
def good : Repo :=
  { snapsOk := true, snaps := [{ tree := 1, authentic := true }, { tree := 2, authentic := true }], indexOk := true, index := idx11,
    files := [treeFile 10 10 1 [fileNode [3]], treeFile 20 20 2 [fileNode [4]], dataFile 30 3, dataFile 40 4] }

/-- the same with the two (same-size) root-tree packs exchanged -/
def swapped11 : Repo :=
  { good with files := [treeFile 10 20 2 [fileNode [4]], treeFile 20 10 1 [fileNode [3]], dataFile 30 3, dataFile 40 4] }

/-- the same with the two snapshot files exchanged -/
def swapped12 : Repo := { good with snaps := [{ tree := 2, authentic := false }, { tree := 1, authentic := false }] }

/-- Non-vacuity of the hypotheses and of the conclusion: a concrete undamaged repository is accepted. -/
example : LkSound good (lkFirst good) ∧ SnapshotsAuthentic good ∧
    check z0 true good (lkFirst good) 9 = .findings [] :=
  ⟨lkFirst_sound _, fun s hs => by simp [good] at hs; rcases hs with rfl | rfl <;> rfl, by decide⟩

/-- DESIGN §7 #11, the code before the repair: the exchange is silent although snapshot 1 now reads back
the content of snapshot 2 … -/
theorem root_tree_pack_swap_undetected_before_fix :
    check z0 false swapped11 (lkFirst swapped11) 9 = .findings [] ∧
    ¬ RestoresCorrectly swapped11 (lkFirst swapped11) 1 := by
  refine ⟨by decide, fun h => ?_⟩
  have := blobOkB_complete (h 1 Reach.root).1
  revert this
  decide

/-- … and the repaired code reports it. -/
theorem root_tree_pack_swap_detected_after_fix :
    check z0 true swapped11 (lkFirst swapped11) 9 = .findings [.PackHashMismatch, .PackHashMismatch] := by
  decide

/-- DESIGN §7 #12 (open): exchanging two snapshot files is silent; every blob is fine, but snapshot `id₁`
now is snapshot 2. -/
theorem snapshot_swap_undetected :
    check z0 true swapped12 (lkFirst swapped12) 9 = .findings [] ∧ ¬ SnapshotsAuthentic swapped12 ∧
    restoreOk swapped12 (lkFirst swapped12) 9 = false := by
  refine ⟨by decide, fun h => ?_, by decide⟩
  have := h { tree := 2, authentic := false } (by decide)
  simp at this

/-- Why "unmarked only" matters (history: backup, forget, prune marks the packs, backup again, the index file of the
second backup is lost): the only index file left lists the tree pack 10 and the data pack 30 as *marked for
deletion*; both are still stored. -/
def markedOnly : Repo :=
  { snapsOk := true, snaps := [{ tree := 1, authentic := true }], indexOk := true,
    index := [{ packs := [], toDelete := [{ id := 10, blobs := [tblob 1], timeSet := true, size := none },
                                         { id := 30, blobs := [dblob 3], timeSet := true, size := none }] }],
    files := [treeFile 10 10 1 [fileNode [3]], dataFile 30 3] }

/-- the code (check's index = unmarked packs) reports the snapshot as unreadable — as every reader finds it … -/
theorem marked_packs_not_in_check_index :
    check z0 true markedOnly (lkOf (checkIndexPacks false markedOnly)) 9 = .findings [.ErrorCheckingTrees] ∧
    ¬ RestoresCorrectly markedOnly (lkFirst markedOnly) 1 := by
  refine ⟨by decide, fun h => ?_⟩
  have := blobOkB_complete (h 1 Reach.root).1
  revert this
  decide

/-- … whereas a check whose index also collected the marked packs would be clean on the same repository although
no reader can restore the snapshot (replayed on the real code by the `remove.index` / `index.drop-pack` faults
on repositories with a forget/prune history). -/
theorem marked_packs_in_check_index_unsound :
    checkW true z0 true markedOnly (lkOf (checkIndexPacks true markedOnly)) 9 = .findings [] ∧
    ¬ RestoresCorrectly markedOnly (lkFirst markedOnly) 1 :=
  ⟨by decide, marked_packs_not_in_check_index.2⟩

/-- A *file* node carrying a subtree (tree 2, stored in pack 20) whose pack content is not what the index says: the
streamers of ls / restore load that tree.  Before `fix: check ignored subtrees of non-directory nodes` `check_trees`
never put pack 20 into the read set and the check was clean (DirsOnly was a hypothesis of the soundness theorem;
replayed on the real code by corpus/C05/file_node_subtree.ops: `oracle-fail:silent:swap.pack` before the fix). -/
def oddNode : Node := { kind := .file, subtree := some 2, content := some [3] }
def odd : Repo :=
  { snapsOk := true, snaps := [{ tree := 1, authentic := true }], indexOk := true, index := idx11,
    files := [treeFile 10 10 1 [oddNode], treeFile 20 20 7 [], dataFile 30 3, dataFile 40 4] }

/-- the snapshot does not restore correctly, and the repaired check says so. -/
theorem non_dir_subtree_checked :
    check z0 true odd (lkFirst odd) 9 ≠ .findings [] ∧ ¬ RestoresCorrectly odd (lkFirst odd) 1 := by
  refine ⟨by decide, fun h => ?_⟩
  have hr : Reach odd (lkFirst odd) 1 2 :=
    Reach.step (nodes := [oddNode]) (n := oddNode) Reach.root (by decide) (by simp) rfl
  have := blobOkB_complete (h 2 hr).1
  revert this
  decide

/-- seeds C05-4 / C05-5 as repository states: two snapshots whose file nodes are a stdin-style node (recorded size 0, real
content) resp. two versions of one hardlinked file (links 2, SAME inode 77 and device, different content); the data pack 40
holding the second content is damaged (a flipped bit: the blob decrypts no more). -/
def metaNode (ids : List Id) (size links inode : Nat) : Node :=
  { kind := .file, subtree := none, content := some ids, size := size, links := links, inode := inode }
def damagedData (id content : Id) : PFile :=
  { dataFile id content with hash := 99, dec := fun _ _ _ => .fail }
def stdinDamaged : Repo :=
  { good with files := [treeFile 10 10 1 [metaNode [3] 0 1 0], treeFile 20 20 2 [metaNode [4] 0 1 0], dataFile 30 3, damagedData 40 4] }
def hardlinkDamaged : Repo :=
  { good with files := [treeFile 10 10 1 [metaNode [3] 18 2 77, metaNode [3] 18 2 77],
                        treeFile 20 20 2 [metaNode [4] 18 2 77, metaNode [4] 18 2 77], dataFile 30 3, damagedData 40 4] }

/-- the model of the code reads pack 40 in both states and reports the damage; snapshot 2 does not restore -/
theorem size0_and_hardlink_content_is_read :
    check z0 true stdinDamaged (lkFirst stdinDamaged) 9 = .findings [.PackHashMismatch] ∧
    check z0 true hardlinkDamaged (lkFirst hardlinkDamaged) 9 = .findings [.PackHashMismatch] ∧
    restoreOk stdinDamaged (lkFirst stdinDamaged) 9 = false ∧
    restoreOk hardlinkDamaged (lkFirst hardlinkDamaged) 9 = false := by
  decide

/-- seed C05-6 as a repository state: snapshot 1 (plain) and snapshot 2, saved with `delete-after` = 1000 s, both listed; the data
pack 40, which only snapshot 2 refers to, is damaged (a flipped bit: the blob decrypts no more). -/
def expiredDamaged : Repo :=
  { good with
    snaps := [{ tree := 1, authentic := true }, { tree := 2, authentic := true, mark := .after 1000 }],
    files := [treeFile 10 10 1 [fileNode [3]], treeFile 20 20 2 [fileNode [4]], dataFile 30 3, damagedData 40 4] }

/-- at any time — before (`now = 500`) and after (`now = 2000`) the delete-after time — the model of the code reads pack 40 and
reports the damage, and snapshot 2 does not restore; the same holds with the mark `never` or none. -/
theorem marked_snapshot_content_is_read :
    check z0 true expiredDamaged (lkFirst expiredDamaged) 9 = .findings [.PackHashMismatch] ∧
    check z0 true (remark (fun _ => .never) expiredDamaged) (lkFirst expiredDamaged) 9 = .findings [.PackHashMismatch] ∧
    restoreOk expiredDamaged (lkFirst expiredDamaged) 9 = false ∧
    mustDelete 500 { tree := 2, authentic := true, mark := .after 1000 } = false ∧
    mustDelete 2000 { tree := 2, authentic := true, mark := .after 1000 } = true := by
  decide

/-- … whereas a check that first drops the snapshots whose delete-after time has passed (`dropExpired`, NOT the code) is clean
on the same repository once the time has passed, although the listed snapshot 2 cannot be restored (replayed on the real code
by the faults on the delete-marks repository of the generator: `oracle-fail:silent:flip.pack` … under seed C05-6). -/
theorem expired_snapshot_skipped_unsound :
    check z0 true (dropExpired 2000 expiredDamaged) (lkFirst expiredDamaged) 9 = .findings [] ∧
    check z0 true (dropExpired 500 expiredDamaged) (lkFirst expiredDamaged) 9 = .findings [.PackHashMismatch] ∧
    ¬ RestoresCorrectly expiredDamaged (lkFirst expiredDamaged) 2 := by
  refine ⟨by decide, by decide, fun h => ?_⟩
  obtain ⟨_, nodes, hrd, hall⟩ := h 2 Reach.root
  have hr : readTree expiredDamaged (lkFirst expiredDamaged) 2 = some [fileNode [4]] := by decide
  rw [hr] at hrd
  cases hrd
  obtain ⟨ids, hc, hd⟩ := hall (fileNode [4]) (by simp) rfl
  cases hc
  have := blobOkB_complete (hd 4 (by simp))
  revert this
  decide

/-- OPEN FINDING (known_findings.d/C05.json `silent-dup`, corpus/C05/duplicate_copy_damaged.ops): every theorem above speaks about ONE
look-up `lk` — check's own index — and "restores" means "reads back through that same look-up".  When a blob is stored twice (chunk 3 in the
data packs 30 and 31, both indexed: one backup writing two files of equal content through different packer threads) the look-up of another
reader's index may return the other copy (any choice among duplicates satisfies `LkSound`).  Pack 31 is damaged: -/
def dupRepo : Repo :=
  { snapsOk := true, snaps := [{ tree := 1, authentic := true }], indexOk := true,
    index := [{ packs := [{ id := 10, blobs := [tblob 1], timeSet := true, size := none },
                           { id := 30, blobs := [dblob 3], timeSet := true, size := none },
                           { id := 31, blobs := [dblob 3], timeSet := true, size := none }], toDelete := [] }],
    files := [treeFile 10 10 1 [fileNode [3]], dataFile 30 3, damagedData 31 3] }

/-- the last matching entry in index-file order — as admissible an index as `lkFirst` -/
def lkLast (r : Repo) : Lookup := lkOf (livePacks r).reverse

theorem lkLast_sound (r : Repo) : LkSound r (lkLast r) := by
  intro t id e h
  obtain ⟨p, hp, rest⟩ := lkOf_sound (livePacks r).reverse t id e h
  exact ⟨p, List.mem_reverse.mp hp, rest⟩

/-- … check, whose look-up finds the copy in pack 30, reads pack 30 only and is clean; the reader whose look-up finds the copy in pack 31
cannot restore the snapshot.  (`check_ok_implies_restorable_partial` is not contradicted: through check's own look-up everything reads back.) -/
theorem duplicate_copy_unread :
    LkSound dupRepo (lkFirst dupRepo) ∧ LkSound dupRepo (lkLast dupRepo) ∧
    check z0 true dupRepo (lkFirst dupRepo) 9 = .findings [] ∧
    (∀ s ∈ dupRepo.snaps, RestoresCorrectly dupRepo (lkFirst dupRepo) s.tree) ∧
    ¬ RestoresCorrectly dupRepo (lkLast dupRepo) 1 := by
  have hc : check z0 true dupRepo (lkFirst dupRepo) 9 = .findings [] := by decide
  refine ⟨lkFirst_sound _, lkLast_sound _, hc, check_sound (lkFirst_sound _) hc, fun h => ?_⟩
  obtain ⟨_, nodes, hrd, hall⟩ := h 1 Reach.root
  have hr : readTree dupRepo (lkLast dupRepo) 1 = some [fileNode [3]] := by decide
  rw [hr] at hrd
  cases hrd
  obtain ⟨ids, hc', hd⟩ := hall (fileNode [3]) (by simp) rfl
  cases hc'
  have := blobOkB_complete (hd 3 (by simp))
  revert this
  decide

/-! ### (10) every chunk POSITION of a file and every chunk ID is looked up for itself -/

/-- The pack of the chunk at EVERY position `i` of a file's content list — first, last or inner — joins the packs `check --read-data`
reads, and no chunk is skipped because of another chunk looked up before (the look-up `lk .data ids[i]` of that very id decides;
there is no "seen" state in `nodePacks`).  Positional form of `check_read_set_covers_all_content`. -/
theorem every_chunk_position_is_read (lk : Lookup) (n : Node) (ids : List Id) (i : Nat) (hi : i < ids.length) (e : Entry)
    (hk : n.kind = .file) (hc : n.content = some ids) (he : lk .data ids[i] = some e) : e.pack ∈ nodePacks lk n :=
  content_pack_in_nodePacks hk hc (List.getElem_mem hi) he

/-- NOT the code (seeded change C05-9): only the packs of the first and of the last chunk of a file are registered. -/
def endsPacks (lk : Lookup) (ids : List Id) : List Id :=
  (ids.head?.toList ++ ids.getLast?.toList).filterMap (fun d => (lk .data d).map (·.pack))

/-- NOT the code (seeded change C05-8): a chunk whose id prefix `pre d` (`Id::as_u32`, the first four bytes) was met before is
not looked up. -/
def prefixSkipPacks (pre : Id → Nat) (lk : Lookup) : List Nat → List Id → List Id
  | _, [] => []
  | seen, d :: l =>
    if pre d ∈ seen then prefixSkipPacks pre lk seen l
    else ((lk .data d).map (·.pack)).toList ++ prefixSkipPacks pre lk (pre d :: seen) l

/-- look-up of the witnesses: data blob `d` lives in pack `10 * d` -/
def lkTimes10 : Lookup := fun _ d => some { pack := 10 * d, offset := 0, length := 1, ulen := none }

/-- Witnesses, replayed on the real code by the generator's `build_inner_chunks` / `build_prefix_pair` repositories: a file of chunks
[1, 2, 3] in packs 10, 20, 30 — the code's `nodePacks` holds pack 20, the first/last shortcut misses it; two one-chunk contents 1 and 3
whose ids share their prefix (`pre d = d % 2`) — `nodePacks` holds pack 30, the prefix-keyed "seen" set skips it. -/
theorem shortcuts_miss_a_pack :
    (20 ∈ nodePacks lkTimes10 (metaNode [1, 2, 3] 0 1 0) ∧ 20 ∉ endsPacks lkTimes10 [1, 2, 3]) ∧
    (30 ∈ nodePacks lkTimes10 (metaNode [1, 3] 0 1 0) ∧ 30 ∉ prefixSkipPacks (· % 2) lkTimes10 [] [1, 3]) := by
  decide

end Rustic.Props.C05
