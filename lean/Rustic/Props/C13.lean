/-
C13 — Results do not depend on thread scheduling, latency or pack boundaries.

Property theorems only (lemmas: `Lemmas/Streamer.lean`, `Lemmas/Packer.lean`, `Lemmas/ArchiveDedup.lean`).
Nondeterministic models: `Rustic.Streamer` (`TreeStreamerOnce` with answers arriving in any order; the
channel line of the packer), `Rustic.Archive.step` (packer / file-writer / indexer events in any
interleaving, any pack boundary).  Every statement is for **all** schedules; what real threads do is
sampled by the harness (partial, see notes/C13.md).
-/
import Rustic.Lemmas.Streamer
import Rustic.Lemmas.Packer
import Rustic.Lemmas.ArchiveDedup
import Rustic.Lemmas.SnapshotArchive
import Rustic.Lemmas.TreeIter
import Rustic.Lemmas.StreamerQueueSafety
import Rustic.Lemmas.LockNet
import Rustic.Lemmas.PruneOrder
import Rustic.Lemmas.IndexerLock
import Rustic.Lemmas.ActorListed
import Rustic.Lemmas.RestoreGroups
import Rustic.Lemmas.RestoreTasks
namespace Rustic.Props.C13
open Rustic.Tree Rustic.Parent Rustic.Archive

section Streamer
open Rustic.Streamer

/-- (1) `TreeStreamerOnce`, any delivery order of the loader threads: what has been yielded so far are
reachable trees, each at most once; `next` reports the end exactly when no request is outstanding (it never
blocks on an empty queue — no deadlock — and never stops early); and at the end the yielded trees are
exactly the reachable closure of the roots. -/
theorem treeStreamerOnce_any_order (children : Nat → List Nat) (roots : List Nat) (sched : List Nat) :
    let s := runSched children (init roots) sched
    s.yielded.Nodup ∧ (∀ id ∈ s.yielded, Reach children roots id) ∧
    (isDone s = true ↔ s.pending = []) ∧
    (isDone s = true → ∀ id, Reach children roots id → id ∈ s.yielded) := by
  intro s
  have hg : Good children roots s := runSched_good sched _ (init_good children roots)
  exact ⟨(yielded_sound hg).1, (yielded_sound hg).2, done_iff_no_pending hg,
    fun hd => yielded_complete hg ((done_iff_no_pending hg).mp hd)⟩

/-- (1') Termination: if the reachable trees are finitely many (covered by `l`), then under every delivery
order the stream has ended after at most `l.length` calls of `next` (the per-root counters are the
termination measure: they reach zero). -/
theorem treeStreamerOnce_terminates (children : Nat → List Nat) (roots : List Nat) (l : List Nat)
    (hl : ∀ id, Reach children roots id → id ∈ l) (sched : List Nat) (hlen : l.length ≤ sched.length) :
    isDone (runSched children (init roots) sched) = true := by
  have hg0 := init_good children roots
  have hg : Good children roots (runSched children (init roots) sched) := runSched_good sched _ hg0
  rcases runSched_count sched _ hg0 with h | h
  · exact h
  · -- not done would mean: `sched.length` distinct reachable trees yielded and one more still pending
    cases hd : isDone (runSched children (init roots) sched) with
    | true => rfl
    | false =>
      exfalso
      have hp : (runSched children (init roots) sched).pending ≠ [] := by
        intro e; have := (done_iff_no_pending hg).mpr e; rw [this] at hd; cases hd
      obtain ⟨e, he⟩ := List.exists_mem_of_ne_nil _ hp
      have hnd := hg.inv.nodup
      simp only [List.append_nil] at hnd
      have hcons : ((runSched children (init roots) sched).yielded ++ [e.1]).Nodup := by
        rw [List.nodup_append] at hnd ⊢
        refine ⟨hnd.1, by simp, ?_⟩
        intro a ha b hb
        simp only [List.mem_singleton] at hb; subst hb
        exact hnd.2.2 a ha _ (List.mem_map.mpr ⟨e, he, rfl⟩)
      have hsub : ∀ x ∈ (runSched children (init roots) sched).yielded ++ [e.1], x ∈ l := by
        intro x hx
        rcases List.mem_append.mp hx with hx | hx
        · exact hl x ((yielded_sound hg).2 x hx)
        · simp only [List.mem_singleton] at hx; subst hx
          exact hl _ (hg.inv.reach _ ((hg.inv.vis _).mpr (Or.inr (Or.inl (List.mem_map.mpr ⟨e, he, rfl⟩)))))
      have := nodup_subset_length _ l hcons hsub
      have hy0 : (init roots).yielded = [] := by
        have : ∀ (ids : List Nat) (c : Nat) (s : St), (initGo s ids c).yielded = s.yielded := by
          intro ids
          induction ids with
          | nil => intro c s; rfl
          | cons x xs ih =>
            intro c s
            simp only [initGo]
            rw [ih]
            split
            · exact (addPending_fields s x c).2.2.1
            · exact (addPending_fields s x c).2.2.1
        exact this roots 0 _
      simp only [List.length_append, List.length_singleton, h, hy0, List.length_nil] at this
      omega

/-- (2) Channel line of the packer (`bounded(0)` hand-over → readahead → filters → `parallel_map` → readahead →
filter → `add_raw` → `bounded(1)` file-writer queue → write + index): whenever an item is anywhere in the
line some stage is enabled (no deadlock), and every move strictly decreases a natural-number measure (no
livelock), so every item is eventually written or filtered out. -/
theorem pipeline_progress (p : Pipe) (hcap : capsPos p = true) (hne : allEmpty p = false) :
    ∃ i p', move p i false = some p' ∧ measure p' < measure p := by
  obtain ⟨i, hi⟩ := pipe_progress p hcap hne
  cases hm : move p i false with
  | none => rw [hm] at hi; cases hi
  | some p' => exact ⟨i, p', hm, move_measure p i false p' hm⟩

/-- (2') **The archiver's channel network** (not a line: `parallel_map` workers fan out to the data packer and to the
ordered output queue, the main thread feeds the tree packer, both packers end in their file-writer actor).  For ANY
network of bounded buffers whose hand-overs all go downstream (`Net.WF`: a DAG in node order, every buffer can hold an
item): in EVERY state with an item anywhere — whatever the workers have expanded files into — some node can move (no
deadlock: the most downstream non-empty node either lets its item leave or hands it to an empty buffer), the number of
nodes is unchanged and the move strictly decreases a natural-number measure (no livelock). -/
theorem network_progress (net : Net) (s : NSt) (hwf : net.WF s.length) (hne : ∃ i, getBuf s i ≠ []) :
    ∃ i s', moveN net s i = some s' ∧ s'.length = s.length ∧ measureN s' < measureN s :=
  net_progress net s hwf hne

/-- (2'') … and `archiverNet` — source/`TreeIterator`/`Parent` → file-archiver workers → {data packer line, ordered
output → `tree_archiver.add` → tree packer line} — is such a network, so the backup pipeline as a whole always has
an enabled step until it has drained. -/
theorem archiver_network_progress (s : NSt) (hlen : s.length = 16) (hne : ∃ i, getBuf s i ≠ []) :
    ∃ i s', moveN archiverNet s i = some s' ∧ s'.length = 16 ∧ measureN s' < measureN s := by
  obtain ⟨i, s', h1, h2, h3⟩ := net_progress archiverNet s (hlen ▸ archiverNet_wf) hne
  exact ⟨i, s', h1, h2 ▸ hlen, h3⟩

end Streamer

section StreamerThreads
open Rustic.StreamerQ

/-- (1t) **Thread level, every schedule of consumer and loader threads, every capacity setting** (also the bounded
counter-model: bounding the request queue breaks progress (1c), not what is yielded): at any moment the yielded trees are
pairwise different and reachable; if the reachable trees are covered by `l` at most `l.length` trees are ever received
(`recv` steps — with (1a') the run is finite); and when nothing is outstanding any more every reachable tree has been yielded.
The loaders answer in whatever order the schedule lets them — the set of results does not depend on it. -/
theorem treeStreamerOnce_threads_any_schedule (c : Cfg) (children : Nat → List Nat) (roots : List Nat) (acts : List Act) :
    let s := runActs c children (init roots) acts
    s.yielded.Nodup ∧ (∀ id ∈ s.yielded, Rustic.Streamer.Reach children roots id) ∧
    (∀ l : List Nat, (∀ id, Rustic.Streamer.Reach children roots id → id ∈ l) → s.yielded.length ≤ l.length) ∧
    (finished s = true → ∀ id, Rustic.Streamer.Reach children roots id → id ∈ s.yielded) := by
  intro s
  have hi : SInv children roots s := runActs_inv c acts _ (init_inv children roots)
  exact ⟨inv_yielded_nodup hi, inv_yielded_reach hi,
    fun l hl => Rustic.Streamer.nodup_subset_length _ l (inv_yielded_nodup hi) (fun x hx => hl x (inv_yielded_reach hi x hx)),
    inv_finished_complete hi⟩

/-- (1a) **The threads of `TreeStreamerOnce`, request queue `unbounded()` (the code as it is)** — consumer (`new` / `next`),
any number `l > 0` of loader threads, result queue of any capacity `o > 0`, any forest: in EVERY state (reachable or not) in
which something is outstanding some thread can make a step.  The consumer's `queue_in.send` never blocks, so it sends or
receives; otherwise a loader hands its tree to the empty result queue; otherwise an idle loader takes a request. -/
theorem treeStreamerOnce_threads_progress (l o : Nat) (hl : 0 < l) (ho : 0 < o) (children : Nat → List Nat) (s : TSt)
    (hnf : finished s = false) : ∃ a s', step ⟨none, l, o⟩ children s a = some s' :=
  progress_of_room ⟨none, l, o⟩ children s hl ho hnf (fun _ => rfl)

/-- (1a'') **Termination at thread level**: if the reachable trees are covered by `l`, then in ANY schedule — any capacities,
any interleaving of consumer and loaders — at most `4 * l.length` steps are ever made (each tree is sent, loaded, handed over
and received once).  With (1a): under the unbounded queue every run that keeps making enabled steps reaches `finished` within
that many steps, and (1t) says what it has yielded then. -/
theorem treeStreamerOnce_threads_terminates (c : Cfg) (children : Nat → List Nat) (roots : List Nat) (l : List Nat)
    (hl : ∀ id, Rustic.Streamer.Reach children roots id → id ∈ l) (acts : List Act) :
    executed c children (init roots) acts ≤ 4 * l.length := by
  have hi : SInv children roots (runActs c children (init roots) acts) := runActs_inv c acts _ (init_inv children roots)
  have h1 := executed_eq_credit c children acts (init roots)
  have h2 := credit_le hi l hl
  have h0 : credit (init roots) = 0 := by simp [credit, init]
  omega

/-- (1a') … and between two `recv`s of the consumer every step decreases a measure (no livelock; the number of `recv`s is
bounded by `treeStreamerOnce_terminates`). -/
theorem treeStreamerOnce_threads_measure (c : Cfg) (children : Nat → List Nat) (s s' : TSt) (a : Act) (ha : a ≠ .recv)
    (h : step c children s a = some s') : StreamerQ.measure s' < StreamerQ.measure s :=
  step_measure c children s s' a ha h

/-- (1b) **Where (1a) depends on the unbounded queue** — for ANY capacity setting: a state with something outstanding in
which no thread can move is a consumer that still has a sub-tree (or root) to send and faces a FULL bounded request queue.
With `cap = none` that cannot happen (1a); the result queue and the loaders never block on their own. -/
theorem treeStreamerOnce_stuck_only_on_full_queue (c : Cfg) (children : Nat → List Nat) (s : TSt) (hl : 0 < c.loaders)
    (ho : 0 < c.out) (hnf : finished s = false) (hstuck : ∀ a, step c children s a = none) :
    s.todo ≠ [] ∧ ∃ n, c.cap = some n ∧ n ≤ s.inq.length := by
  obtain ⟨h1, h2⟩ := stuck_only_on_full_queue c children s hl ho hnf hstuck
  refine ⟨h1, ?_⟩
  cases hc : c.cap with
  | none => simp [room, hc] at h2
  | some n => exact ⟨n, rfl, by simpa [room, hc] using h2⟩

/-- (1c) **Counter-model: EVERY bounded request queue deadlocks** (`bounded(n)` for any n > 0, any number of loaders l > 0,
any result-queue capacity o > 0 — the real constants are l = o = `MAX_TREE_LOADER` = 4).  (i) One directory with n + l + o + 1
pairwise different sub-directories: after the directory has been received, a schedule exists that ends with the consumer
blocked in `add_pending` (`queue_in.send`), every loader blocked in `out_tx.send`, nothing enabled, stream not finished.
(ii) The same with n + l + o + 1 root trees (snapshots), inside `new`.  So "consumer queues all sub-trees before it receives
again" + bounded request queue = deadlock for wide enough input; the progress theorem needs the unbounded queue. -/
theorem bounded_queue_can_deadlock (n l o : Nat) (hn : 0 < n) (hl : 0 < l) (ho : 0 < o) :
    (∃ acts, let s := runActs ⟨some n, l, o⟩ (wideDir (n + l + o + 1)) (init [0]) acts
      finished s = false ∧ ∀ a, step ⟨some n, l, o⟩ (wideDir (n + l + o + 1)) s a = none) ∧
    (∃ acts, let s := runActs ⟨some n, l, o⟩ (fun _ => []) (init (List.range (n + l + o + 1))) acts
      finished s = false ∧ ∀ a, step ⟨some n, l, o⟩ (fun _ => []) s a = none) :=
  ⟨⟨_, deadlock_one_directory n l o hn hl ho⟩, ⟨_, deadlock_roots n l o hn hl (fun _ => [])⟩⟩

end StreamerThreads

section AddRawLocks
open Rustic.LockNet

/-- (2a) **Concurrent `Packer::add_raw` (`prune --fast-repack`), the indexer `RwLock` as a resource** — any number of repack
workers with any numbers of blobs, file-writer queue of any capacity > 0, any schedule of the code as it is (`keep = false`:
the READ guard of `indexer.read().has(..)` is dropped before `raw_packer.write()`): every reachable state that is not final
(all blobs added, all packs written and indexed) has an enabled step, and that step decreases a natural-number measure. -/
theorem addRaw_lock_progress (cap : Nat) (hcap : 0 < cap) (lefts : List Nat) (acts : List LockNet.Act) :
    let s := LockNet.runActs false cap (LockNet.init lefts) acts
    ¬ final s → ∃ a s', LockNet.step false cap s a = some s' ∧ LockNet.measure s' < LockNet.measure s :=
  addRaw_progress hcap lefts acts

/-- (2a') … and no schedule makes more than `15 · (number of blobs)` steps (either variant of the code): together with (2a) every
run of the code as it is that keeps making enabled steps ends in the final state. -/
theorem addRaw_lock_terminates (keep : Bool) (cap : Nat) (lefts : List Nat) (acts : List LockNet.Act) :
    LockNet.executed keep cap (LockNet.init lefts) acts ≤ 15 * lefts.sum := by
  have h := executed_le_measure (keep := keep) (cap := cap) acts (LockNet.init lefts) (init_wf lefts)
  rw [measure_init] at h
  omega

/-- (2b) **What progress needs: no indexer guard held while blocked.**  For BOTH variants of the code and every state: if
every worker that holds the READ guard is in a phase whose next step cannot block (`chk`: the `has` check; `inPk`: adding to
the open pack) — i.e. none holds it while waiting for `raw_packer.write()` or inside the blocking `Actor::send` — then a
non-final state has an enabled step … -/
theorem progress_needs_no_lock_across_blocking_send (keep : Bool) (cap : Nat) (s : LSt) (hcap : 0 < cap)
    (hnl : NoLockWhileBlocked s) (hnf : ¬ final s) : ∃ a s', LockNet.step keep cap s a = some s' :=
  progress_of_noLockWhileBlocked hcap hnl hnf

/-- (2b') … conversely every deadlock of the lock / queue net is a violation of that discipline. -/
theorem deadlock_means_lock_held_while_blocked (keep : Bool) (cap : Nat) (s : LSt) (hcap : 0 < cap) (hnf : ¬ final s)
    (hstuck : ∀ a, LockNet.step keep cap s a = none) : ¬ NoLockWhileBlocked s := by
  intro hnl
  obtain ⟨a, s', h⟩ := progress_of_noLockWhileBlocked (keep := keep) hcap hnl hnf
  rw [hstuck a] at h; cases h

/-- (2c) **Counter-model: the READ guard kept until the end of `add_raw`** (`keep = true`; bound to a local instead of being
a temporary of the `if` condition).  Writer queue of capacity 1, three workers: a schedule ends with worker 1 blocked in
`Actor::send` on the full queue holding the READ guard and the raw_packer lock, worker 2 holding the READ guard waiting for
raw_packer, the file writer's index stage waiting for `indexer.write()`, worker 0 unable to enter — nothing enabled, not final.
(Two workers suffice for a stuck state with one reader inside `send`: `lock_held_across_send_can_deadlock_two`; a longer writer
queue does not help: `lock_held_across_send_can_deadlock_cap4`, capacity 4, six workers — both in `Lemmas/LockNet.lean`.) -/
theorem lock_held_across_send_can_deadlock :
    ∃ acts, let s := LockNet.runActs true 1 (LockNet.init [2, 1, 1]) acts
      final s = false ∧ ∀ a, LockNet.step true 1 s a = none :=
  LockNet.lock_held_across_send_can_deadlock

/-- (2c') **The shape of that deadlock for every queue capacity and every number of workers**: the index stage waits for
`indexer.write()`, the writer queue is full, a worker is inside the blocking `Actor::send`, some worker holds the READ guard and
all workers are outside `add_raw`, inside `send` or waiting for `raw_packer.write()` — then nothing can move, in either variant of
the code.  (By (2a) the code as it is never gets there: its guard holders are always in `chk`.) -/
theorem kept_guard_stuck_state (keep : Bool) (cap : Nat) (s : LSt) (hidx : s.idx = true) (hq : cap ≤ s.queue)
    (hpc : ∀ w ∈ s.ws, w.pc = PC.out ∨ w.pc = PC.send ∨ w.pc = PC.wantPk) (hsend : ∃ w ∈ s.ws, w.pc = PC.send)
    (hrd : ∃ w ∈ s.ws, w.rd = true) : ∀ a, LockNet.step keep cap s a = none :=
  stuck_of_blocked_readers hidx hq hpc hsend hrd

end AddRawLocks

/-! ### Index files: arrival order at the prune planner, and the lock around add-and-save (seeded breakages C13-4 / C13-5) -/

section IndexOrder
open Rustic.Prune

/-- (6) **The prune planner does not depend on the order in which the index files arrive.**  `stream_all::<IndexFile>` delivers
them in the order the parallel reads finish.  For every list of index files (any number, any contents — also the state an
interrupted prune leaves: a pack listed regularly in one file and as pack-to-delete in another) and EVERY permutation of it,
`PrunePlan::new` (two passes) keeps the same packs with the same delete mark: pack `x` is in the plan unmarked iff some file lists
it regularly, marked iff some file lists it as to-delete and none regularly; and no pack is in either plan twice. -/
theorem prune_dedup_order_independent (kc : Consts) (files files' : List IndexFile) (h : files.Perm files') :
    (∀ x m, InPlan (newPlan kc files) x m ↔ InPlan (newPlan kc files') x m) ∧
    ((newPlan kc files).packs.map (·.id)).Nodup ∧ ((newPlan kc files').packs.map (·.id)).Nodup ∧
    (∀ x, (InPlan (newPlan kc files) x false ↔ ListedReg files x) ∧
          (InPlan (newPlan kc files) x true ↔ ListedDel files x ∧ ¬ ListedReg files x)) :=
  ⟨fun x m => newPlan_perm kc h x m, (newPlan_spec kc files).1, (newPlan_spec kc files').1, fun x => newPlan_marks kc files x⟩

/-- … and when all entries of a pack id list the same blobs (ids are content hashes), each plan pack has the same blobs in both. -/
theorem prune_dedup_order_independent_blobs (kc : Consts) (files files' : List IndexFile) (h : files.Perm files')
    (hc : Coherent files) (p : PPack) (hp : p ∈ (newPlan kc files).packs) :
    ∃ p' ∈ (newPlan kc files').packs, p'.id = p.id ∧ p'.mark = p.mark ∧ p'.blobs = p.blobs :=
  newPlan_perm_blobs kc h hc p hp

open OrderWitness in
/-- **Counter-model: de-duplication in ONE pass depends on the arrival order.**  With the regular entry arriving first the plan
holds pack 7 once; with the to-delete entry first it holds it twice (marked and unmarked), and `check_existing_packs` — the first
instance consumes the pack's entry of the existing-packs map — fails ("Pack does not exist"), whatever is decided for the two.
The two-pass planner gives the same single unmarked pack for both orders. -/
theorem single_pass_dedup_depends_on_order :
    (singlePassPlan kc [fNew, fOld]).map (fun p => (p.id, p.mark)) = [(7, false)] ∧
    (singlePassPlan kc [fOld, fNew]).map (fun p => (p.id, p.mark)) = [(7, true), (7, false)] ∧
    (checkExisting true ((singlePassPlan kc [fOld, fNew]).map (fun p => { p with todo := if p.mark then .recover else .keep }))
      [(7, (mkPack kc 0 false pk).size)] (Counts.ofKeys [])).isNone = true ∧
    (checkExisting true ((singlePassPlan kc [fNew, fOld]).map (fun p => { p with todo := .keep }))
      [(7, (mkPack kc 0 false pk).size)] (Counts.ofKeys [])).isSome = true ∧
    (newPlan kc [fNew, fOld]).packs.map (fun p => (p.id, p.mark)) = [(7, false)] ∧
    (newPlan kc [fOld, fNew]).packs.map (fun p => (p.id, p.mark)) = [(7, false)] := by decide

end IndexOrder

section IndexerLocking
open Rustic.IndexerLock

/-- (7) **Locked add-and-save loses nothing, for every interleaving.**  Any number of file writers (data packer, tree packer,
repackers, copiers) share one `Indexer`; `Indexer::add_with` pushes the pack and — when the index file is due — saves it and
resets, all under the write lock, however long the backend write takes.  For every schedule of `add` / `saved` events, every
auto-save threshold and every age pattern: each pack added so far is in the indexer's current file or in a saved index file; hence
after `finalize` every pack any writer added is listed by a stored index file. -/
theorem locked_add_and_save_indexes_every_pack (maxCount : Nat) (evs : List IndexerLock.Ev) :
    (∀ p ∈ (IndexerLock.run true maxCount {} evs).added,
      p ∈ (IndexerLock.run true maxCount {} evs).file ∨ ∃ f ∈ (IndexerLock.run true maxCount {} evs).saved, p ∈ f) ∧
    (∀ p ∈ (IndexerLock.run true maxCount {} evs).added, listed (finalize (IndexerLock.run true maxCount {} evs)) p = true) :=
  ⟨(inv_run maxCount evs {} inv_init).kept, listed_finalize_of_inv (inv_run maxCount evs {} inv_init)⟩

/-- **Counter-model: saving a copy outside the lock and resetting afterwards loses packs.**  Threshold 2 blobs, two writers:
writer 0's add makes the file due (copy `[1]`), writer 1's add finds it due as well (copy `[1, 2]`), writer 0's save returns and it
resets, writer 0 adds pack 3, writer 1's slower save returns and its reset wipes pack 3: all writers idle, nothing left to
finalize, pack 3 is in no index file.  The same events under the locked protocol (writer 1 waits for the lock) list everything. -/
theorem unlocked_save_can_lose_pack :
    3 ∈ (IndexerLock.run false 2 {} losing).added ∧
    listed (finalize (IndexerLock.run false 2 {} losing)) 3 = false ∧
    (IndexerLock.run false 2 {} losing).pc 0 = .idle ∧ (IndexerLock.run false 2 {} losing).pc 1 = .idle ∧
    (IndexerLock.run false 2 {} losing).file = [] ∧
    finalize (IndexerLock.run false 2 {} losing) = [[1, 2], [1]] := by decide

open Rustic.PackerActor Rustic.Repo in
/-- (8) The same for the whole packer / file-writer / indexer actor model (`Model/PackerActor.lean`: n writers with queues and
read-ahead, pack writes and index saves that may fail, the command's tail): whenever the command returns `Ok` — for every
schedule, every threshold, every number of writers — every pack a packer handed to its file writer is a stored pack file AND is
listed by a stored index file (auto-saved mid-run or written by `finalize`). -/
theorem ok_command_lists_every_pack (maxCount n : Nat) (r : Repo) (evs : List PackerActor.Ev) (hl : listedWritten r = true)
    (hr : (PackerActor.run maxCount (init r n) evs).result = some true) :
    ∀ p ∈ (PackerActor.run maxCount (init r n) evs).sent,
      p ∈ (PackerActor.run maxCount (init r n) evs).repo.packs ∧
      ∃ i ∈ (PackerActor.run maxCount (init r n) evs).repo.indexes, idxPackOf p ∈ i.packs :=
  listed_of_ok (okInv_run maxCount evs _ (okInv_init r n ((listedWritten_iff r).mp hl))) hr

end IndexerLocking

/-- (3) **No unindexed blob / pack.**  For every schedule of packer, file-writer and indexer events (any
pack boundaries, any delay between writing a pack and indexing it, typed or untyped indexer set): after
`finalize` the packs listed by the index are exactly the packs written to the backend. -/
theorem every_written_pack_indexed (typed : Bool) (evs : List Ev) (t : BT) (p : List Id) :
    (t, p) ∈ (finalizeAll (runEvs { typed := typed } evs)).packs ↔
      (t, p) ∈ (finalizeAll (runEvs { typed := typed } evs)).index := by
  have h0 : PackInv ({ typed := typed } : PSt) := by
    intro t p; cases t <;> simp [PSt.pk]
  have h := packInv_finalizeAll (packInv_runEvs evs _ h0) t p
  rw [finalizeAll_unindexed] at h
  simpa using h

/-- (4) **Pack boundaries and timing do not change what is stored**: two schedules that are handed the same
blobs (as sets) leave the same set of blob keys in the pack files, whatever their flush points and delays. -/
theorem stored_set_schedule_independent (evs₁ evs₂ : List Ev)
    (hsame : ∀ k, k ∈ entered evs₁ ↔ k ∈ entered evs₂) (t : BT) (id : Id) :
    (t, id) ∈ keysOf (finalizeAll (runEvs { typed := true } evs₁)).packs ↔
      (t, id) ∈ keysOf (finalizeAll (runEvs { typed := true } evs₂)).packs := by
  have h1 := C07_like evs₁ t id
  have h2 := C07_like evs₂ t id
  rw [h1, h2]; exact hsame (t, id)
where
  C07_like (evs : List Ev) (t : BT) (id : Id) :
      (t, id) ∈ keysOf (finalizeAll (runEvs { typed := true } evs)).packs ↔ (t, id) ∈ entered evs := by
    have hinit : Inv (fun _ => False) ({ typed := true } : PSt) :=
      ⟨rfl, fun _ _ h => h.elim, fun t id h => by cases t <;> simp [PSt.pk, Pk.all, keysOf] at h,
       fun _ _ h => by simp at h, fun t id h => by cases t <;> simp [PSt.pk] at h⟩
    have h := inv_finalizeAll (inv_runEvs evs _ hinit)
    constructor
    · intro hk; simpa using h.sound t id (Or.inr hk)
    · intro he
      rcases h.complete t id (Or.inl he) with hc | hc
      · rw [finalizeAll_empty] at hc; cases hc
      · exact hc

/-- (5) **The tree id is a function of the source, the hash and the chunker only**: a backup (no parent)
of the same items computes the same root tree id whatever the index contains — hence whatever earlier runs,
other writers, pack sizes or thread schedules have put there; the pipeline schedule is not even an input of
`archive`. -/
theorem treeId_independent_of_index {γ} (H : List Node → Id) (chunk : γ → List Id) (len : γ → Nat)
    (load : Id → Option (List Node)) (hd0 ht0 hd1 ht1 : Id → Bool) (o : Opts) (items : List (Item γ)) :
    (archive H chunk len load hd0 ht0 o [] items).map (·.root) =
      (archive H chunk len load hd1 ht1 o [] items).map (·.root) := by
  have hE0 : EmptyP (PState.init load []) := ⟨rfl, by intro t h; cases h⟩
  have hrun := run_emptyP o load hd1 hd0 items _ hE0
  simp only [archive]
  rw [hrun]
  have hsteps : ∀ outs : List (Out γ),
      Rel2 sameNode ((outs.filterMap (fileStep chunk len hd0)).map (·.1))
        ((outs.filterMap (fileStep chunk len hd1)).map (·.1)) := by
    intro outs
    induction outs with
    | nil => exact Rel2.nil
    | cons out outs ih =>
      have hi := fileStep_indep chunk len hd0 hd1 out
      simp only [List.filterMap_cons]
      cases h0 : fileStep chunk len hd0 out with
      | none =>
        cases h1 : fileStep chunk len hd1 out with
        | none => exact ih
        | some v => rw [h0, h1] at hi; simp at hi
      | some u =>
        cases h1 : fileStep chunk len hd1 out with
        | none => rw [h0, h1] at hi; simp at hi
        | some v =>
          rw [h0, h1] at hi
          simp only [Option.map_some, Option.some.injEq, Prod.mk.injEq] at hi
          simp only [List.map_cons]
          refine Rel2.cons ?_ ih
          rw [hi.1]; exact sameNode_refl _
  by_cases hp : hasPanic (run o load hd0 (PState.init load []) items) = true
  · simp [hp]
  · simp only [hp, Bool.false_eq_true, if_false]
    rcases addAll_same H ht0 ht1 _ _ (hsteps (run o load hd0 (PState.init load []) items)) {} {} ⟨rfl, Rel2.nil⟩ with ⟨e0, e1⟩ | ⟨t0, t1, e0, e1, hs⟩
    · simp [e0, e1]
    · simp only [e0, e1, Option.map_some, TA.finalize, List.filter_nil, List.head?_nil]
      rw [(backupTree_id H ht0 t0 _).1, (backupTree_id H ht1 t1 _).1, hs.1]

/-- (6) **The tree id is a function of the source and the chunker only** — stated on the source: for every source forest
walked by the real `TreeIterator` model, every index state (`hasData`, `hasTree`), every stored parent forest `load`
(unused without parents) and every option set, the archiver's root id is `H` of the node list that `Snapshot.saveL`
computes from the forest alone (names, types, link targets, metadata, chunk ids of the contents under `chunks`, sub-tree
ids); the chunks it references are those of `saveL`; what it UPLOADS (`treeAdds`, `dataAdds`) is that same set minus what
the index has.  With `stored_set_schedule_independent` (pack boundaries, delays) the snapshot's id and blob set do not
depend on scheduling, latency, pack sizes or the index. -/
theorem snapshot_is_function_of_source (H : List Node → Id) (hash : RoundTrip.Bytes → Id)
    (chunks : RoundTrip.Bytes → List RoundTrip.Bytes) (load : Id → Option (List Node)) (hasData hasTree : Id → Bool)
    (o : Opts) (src : List Snapshot.STree) (hw : Snapshot.WalkableL src) :
    ∃ a, archive H (fun d => (chunks d).map hash) List.length load hasData hasTree o []
        (treeItems (Snapshot.entriesL [] src)) = some a ∧
      a.root = H (Snapshot.saveL H hash chunks Snapshot.noTree src).nodes ∧
      (∀ i, i ∈ a.dataAdds ↔ i ∈ (Snapshot.saveL H hash chunks Snapshot.noTree src).chunks.map hash ∧ hasData i = false) ∧
      (∀ t ∈ a.treeAdds, hasTree t.1 = false) := by
  rw [Snapshot.tree_iterator_items src hw]
  obtain ⟨a, ha, hroot, htrees, hdata⟩ := Snapshot.archive_eq_save H hash chunks load hasData hasTree o src
  have hind := Snapshot.saveL_indep H hash chunks hasTree Snapshot.noTree src
  refine ⟨a, ha, by rw [hroot, hind.1], ?_, ?_⟩
  · intro i
    rw [hdata, hind.2, List.mem_filter]
    simp
  · intro t ht
    rw [htrees] at ht
    rcases List.mem_append.mp ht with ht | ht
    · exact Snapshot.saveL_trees_new H hash chunks hasTree src t ht
    · split at ht
      · cases ht
      · rename_i hh
        simp only [List.mem_singleton] at ht
        subst ht
        simpa using hh

section RestoreLayout
open Rustic.RestoreGroups

/-- (restore, pack boundaries) `restore_contents` as it is (`PackInfo::coalesce` with the guard `self.from_file.is_none()`):
for EVERY list of `RestoreInfo` entries, every content of the pack files, every decoding function and every coalescing
relation `adj` that only joins a group with an entry behind it (`BlobLocations::can_coalesce` for any hole size and read
limit is one: `canCoalesce_ok`) — i.e. for all pack layouts and all coalescing decisions the guard allows — the writes handed
to the writer tasks are, entry by entry, the entry's non-matching file locations with the CONTENT OF THAT BLOB.  The right
side names no pack boundary: where a blob is stored, which blobs are its neighbours and what is read in one go do not enter.
Hypothesis `Faithful`: what is read from an existing file at a location that `matches` is the blob's content (that is what
`blob_matches_reader` checked). -/
theorem restore_writes_independent_of_pack_layout (adj : Group → Entry → Bool)
    (hadj : ∀ g e, adj g e = true → g.off + g.len ≤ e.off) (packs : Nat → Bytes) (decode : Bytes → Bytes) (es : List Entry)
    (hf : ∀ e ∈ es, Faithful packs decode e) :
    writes guardSelf adj packs decode es = es.flatMap fun e => writesTo e.dests (content packs decode e) :=
  writes_eq adj hadj packs decode es hf

/-- two repositories holding the same blobs in different pack layouts (other pack files, offsets, neighbours, other hole
size / read limit): entry lists that agree in the dests and in the blob contents produce the same writes -/
theorem restore_same_for_all_pack_layouts (h₁ l₁ h₂ l₂ : Nat) (packs₁ packs₂ : Nat → Bytes) (decode : Bytes → Bytes)
    (es₁ es₂ : List Entry) (hf₁ : ∀ e ∈ es₁, Faithful packs₁ decode e) (hf₂ : ∀ e ∈ es₂, Faithful packs₂ decode e)
    (hsame : es₁.map (fun e => (e.dests, content packs₁ decode e)) = es₂.map (fun e => (e.dests, content packs₂ decode e))) :
    writes guardSelf (canCoalesce h₁ l₁) packs₁ decode es₁ = writes guardSelf (canCoalesce h₂ l₂) packs₂ decode es₂ := by
  rw [writes_eq _ (canCoalesce_ok h₁ l₁) packs₁ decode es₁ hf₁, writes_eq _ (canCoalesce_ok h₂ l₂) packs₂ decode es₂ hf₂]
  have e : ∀ (packs : Nat → Bytes) (es : List Entry), es.flatMap (entryWrites packs decode) =
      (es.map (fun e => (e.dests, content packs decode e))).flatMap (fun p => writesTo p.1 p.2) := by
    intro packs es
    induction es with
    | nil => rfl
    | cons a rest ih => simp only [List.flatMap_cons, List.map_cons, ih]; rfl
  rw [e packs₁ es₁, e packs₂ es₂, hsame]

/-- blob X (pack 0, offset 0) is found in an existing file and is still needed at (file 1, 0); blob Y is needed at (file 1, 1) -/
def layoutX : Entry := { pack := 0, off := 0, len := 1, fromFile := some [1], dests := [(1, 0)] }

/-- **the guard on the other operand makes the result depend on the pack layout** (the seeded change C13-7:
`other.from_file.is_none()`): Y stored directly behind X in the same pack (default pack size) is written with X's bytes; Y in a
pack of its own (one blob per pack) is written correctly; the code's guard gives the correct writes for both layouts. -/
theorem guard_on_other_depends_on_pack_layout :
    let adj := canCoalesce 262144 41943040
    let same : List Entry := [layoutX, { pack := 0, off := 1, len := 1, fromFile := none, dests := [(1, 1)] }]
    let own : List Entry := [layoutX, { pack := 1, off := 0, len := 1, fromFile := none, dests := [(1, 1)] }]
    let packsSame : Nat → Bytes := fun _ => [1, 2]
    let packsOwn : Nat → Bytes := fun p => if p = 0 then [1] else [2]
    writes guardOther adj packsSame id same = [⟨1, 0, [1]⟩, ⟨1, 1, [1]⟩] ∧
    writes guardOther adj packsOwn id own = [⟨1, 0, [1]⟩, ⟨1, 1, [2]⟩] ∧
    writes guardSelf adj packsSame id same = [⟨1, 0, [1]⟩, ⟨1, 1, [2]⟩] ∧
    writes guardSelf adj packsOwn id own = [⟨1, 0, [1]⟩, ⟨1, 1, [2]⟩] := by decide

end RestoreLayout

/-- (restore, per file) the writer tasks of one file may run in any order (they write to disjoint ranges): with the writes of
`restore_writes_independent_of_pack_layout` the file content is a function of the file's blob list, the blob contents and the
existing destination file only (`Lemmas/RestoreTasks.lean`, shared with C14). -/
theorem restore_file_any_task_order (o : Rustic.Restore.Opts) (fresh : Bool) (m : Option Rustic.Restore.Bytes)
    (blobs : List Rustic.Restore.Bytes) (old : Option Rustic.Restore.Bytes) (ts : List Rustic.Restore.Task)
    (hp : ts.Perm (Rustic.Restore.tasks o fresh m 0 blobs)) :
    Rustic.Restore.runTasks old fresh blobs.flatten.length ts =
      Rustic.Restore.runTasks old fresh blobs.flatten.length (Rustic.Restore.tasks o fresh m 0 blobs) :=
  Rustic.Restore.runTasks_any_order o fresh m blobs old ts hp

/-! ### Non-vacuity -/

open Rustic.Streamer in
/-- a diamond-shaped forest with two roots sharing sub-trees, answers delivered newest-first: every tree once -/
example : (runSched (fun id => match id with | 1 => [3, 4] | 2 => [4, 5, 1] | 4 => [6] | _ => []) (init [1, 2, 1])
    [9, 9, 9, 9, 9, 9, 9, 9]).yielded = [2, 1, 4, 5, 6, 3] := by decide

open Rustic.Streamer in
example : isDone (runSched (fun id => match id with | 1 => [3, 4] | 2 => [4, 5, 1] | 4 => [6] | _ => []) (init [1, 2, 1])
    [9, 9, 9, 9, 9, 9, 9, 9]) = true := by decide

open Rustic.Streamer in
/-- the packer line with a rendezvous slot, read-ahead buffers and the one-pack writer queue, two items in it -/
example : ∃ i p', move [([1], 1), ([], 1), ([2], 1), ([], 1)] i false = some p' ∧
    measure p' < measure [([1], 1), ([], 1), ([2], 1), ([], 1)] :=
  pipeline_progress _ (by decide) (by decide)

open Rustic.Streamer in
/-- the archiver network with the workers full (two chunks, two processed items), a tree blob in the main thread's hands,
the data writer queue occupied: the data file writer (node 9, the most downstream non-empty node) is the move the proof picks … -/
example : moveN archiverNet [[], [1, 2, 5, 4], [6], [7], [], [], [], [], [], [11], [], [], [], [], [], []] 9 =
    some [[], [1, 2, 5, 4], [6], [7], [], [], [], [], [], [], [], [], [], [], [], []] := by decide

open Rustic.Streamer in
/-- … and a worker blocked on the full data-packer hand-over is NOT enabled (the model has blocking sends) -/
example : moveN archiverNet [[], [1], [], [], [9], [], [], [], [], [], [], [], [], [], [], []] 1 = none := by decide

open Rustic.StreamerQ in
/-- the real constants: request queue `bounded(1024)`, 4 loaders, result queue of 4 — a directory with 1033 sub-directories -/
example : ∃ acts, let s := runActs ⟨some 1024, 4, 4⟩ (wideDir 1033) (init [0]) acts
    finished s = false ∧ ∀ a, step ⟨some 1024, 4, 4⟩ (wideDir 1033) s a = none :=
  (bounded_queue_can_deadlock 1024 4 4 (by omega) (by omega) (by omega)).1

open Rustic.StreamerQ in
/-- the same forest with the unbounded queue: the filling schedule leaves an enabled step (2 loaders, queues of 2, 7 sub-trees) -/
example : (step ⟨none, 2, 2⟩ (wideDir 7) (runActs ⟨none, 2, 2⟩ (wideDir 7) (init [0])
    ([.send, .load, .put 0, .recv] ++ fillSchedule 2 2 2)) .send).isSome = true := by decide

open Rustic.StreamerQ in
/-- a whole run of the thread model (unbounded queue, 2 loaders): root 0 with sub-trees 1, 2, 3 — finished, all yielded -/
example : (runActs ⟨none, 2, 2⟩ (wideDir 3) (init [0])
      [.send, .load, .put 0, .recv, .send, .send, .send, .load, .load, .put 1, .put 0, .recv, .load, .recv, .put 0,
       .recv]).yielded = [0, 2, 1, 3] ∧
    finished (runActs ⟨none, 2, 2⟩ (wideDir 3) (init [0])
      [.send, .load, .put 0, .recv, .send, .send, .send, .load, .load, .put 1, .put 0, .recv, .load, .recv, .put 0,
       .recv]) = true := by decide

/-- the losing events under the locked protocol: writer 1's add waits (not enabled while writer 0 saves); all added packs listed -/
example : (IndexerLock.run true 2 {} IndexerLock.losing).added = [3, 1] ∧
    IndexerLock.finalize (IndexerLock.run true 2 {} IndexerLock.losing) = [[3], [1]] := by decide

open Rustic.RestoreGroups in
/-- three blobs of one pack read in one go (the middle one also found in an existing file), a fourth beyond the hole limit:
two groups, every dest gets its own blob -/
example : writes guardSelf (canCoalesce 2 100) (fun _ => [10, 11, 12, 13, 14, 15, 16, 17, 18, 19]) id
    [⟨0, 0, 2, none, [(0, 0), (1, 4)]⟩, ⟨0, 2, 1, some [12], [(1, 0)]⟩, ⟨0, 4, 1, none, [(0, 2)]⟩, ⟨0, 8, 2, none, [(2, 0)]⟩] =
    [⟨0, 0, [10, 11]⟩, ⟨1, 4, [10, 11]⟩, ⟨1, 0, [12]⟩, ⟨0, 2, [14]⟩, ⟨2, 0, [18, 19]⟩] ∧
    (coalesceAll guardSelf (canCoalesce 2 100)
      [⟨0, 0, 2, none, [(0, 0), (1, 4)]⟩, ⟨0, 2, 1, some [12], [(1, 0)]⟩, ⟨0, 4, 1, none, [(0, 2)]⟩, ⟨0, 8, 2, none, [(2, 0)]⟩]).length = 2 := by
  decide

/-- writing is delayed behind three flushes: everything is indexed at finalize -/
example : (finalizeAll (runEvs { typed := true }
    [.enter .data 1, .commit .data, .flush .data, .enter .tree 7, .enter .data 2, .commit .data, .flush .data,
     .write .data, .commit .tree, .flush .tree])).index =
    [(.data, [1]), (.data, [2]), (.tree, [7])] := by decide

end Rustic.Props.C13
