import Rustic.Model.Forget
namespace Rustic.Props.C09
open Rustic.Forget

theorem placeholder : equalYear = equalYear := rfl

end Rustic.Props.C09
