import Rustic.Lemmas.ForgetProps
import Rustic.Lemmas.ForgetCalendar
/-
C09 — Retention decisions follow the documented keep rules.

Model: `Rustic/Model/Forget.lean` (the code of forget.rs / snapshotfile.rs after the two `fix:` commits
for `equal_minute` and `equal_week`), `Rustic/Model/Calendar.lean`.  Specification: `keepSpec`
(`Rustic/Lemmas/Forget.lean`): the decision for the i-th newest snapshot is read off its two neighbours
and the snapshots newer than it —
  protected (delete-never / delete-after not yet reached) -> keep;  expired -> remove;  unchanged -> remove;
  otherwise kept iff id rule, tag rule, or for some entry X of the rule table it is an X-head (oldest of
  all, newest of all, or its newer neighbour lies in another X-period) and (its rank among the ordinary
  X-heads is below N_X (negative N_X = all) or time + within_X > latest).
All theorems quantify over every list of snapshots (any length, any times, tags, ids, marks, zone
offsets), every option value and every `now`.
-/
namespace Rustic.Props.C09
open Rustic.Forget Rustic.Calendar

/-- The counter loop of `KeepOptions::apply` computes exactly the rank specification. -/
theorem apply_eq_spec (o : KeepOptions) (h : WF o) (sorted : List Snap) (now : Int) :
    applySorted o sorted now = keepSpec o sorted now :=
  applySorted_eq_keepSpec o h sorted now

/-- `apply` as a whole: invalid option sets are refused, otherwise the specification is applied to a
newest-first permutation of the input. -/
theorem apply_total (o : KeepOptions) (h : WF o) (snaps : List Snap) (now : Int) :
    apply o snaps now = (if isValid o then .ok (keepSpec o (sortDesc snaps) now) else .error .invalidInput)
      ∧ (sortDesc snaps).Perm snaps ∧ isSortedDesc (sortDesc snaps) = true := by
  refine ⟨?_, sortDesc_perm snaps, sortDesc_sorted snaps⟩
  unfold apply applyWith
  cases hv : isValid o <;> simp [applySorted_eq_keepSpec o h]

/-- The result is one decision per snapshot, in the sorted order. -/
theorem apply_keeps_every_snapshot (o : KeepOptions) (h : WF o) (sorted : List Snap) (now : Int) :
    (applySorted o sorted now).map (·.snap) = sorted := by
  rw [apply_eq_spec o h]
  apply List.ext_getElem
  · simp [keepSpec_length]
  · intro i h1 h2
    cases sorted with
    | nil => simp at h2
    | cons first t =>
      simp only [List.getElem_map]
      rw [keepSpec_getElem o first t now i h2, specOne_snap, ctxFrom_getElem none (first :: t) i h2]

/-- A snapshot is kept exactly when a stated rule applies (statement of the property, main clause). -/
theorem kept_iff_rule (o : KeepOptions) (h : WF o) (first : Snap) (t : List Snap) (now : Int) (i : Nat)
    (hi : i < (first :: t).length) :
    let cs := ctxFrom none (first :: t)
    let c := cs[i]'(by rw [ctxFrom_length]; exact hi)
    ((applySorted o (first :: t) now)[i]'(by rw [apply_eq_spec o h, keepSpec_length]; exact hi)).keep = true
      ↔ kind o now c = .prot ∨ (kind o now c = .ord ∧
          (idHit o c.sn = true ∨ tagHit o c.sn = true ∨ ruleApplies o now first.time (cs.take i) c)) := by
  intro cs c
  have : (applySorted o (first :: t) now)[i]'(by rw [apply_eq_spec o h, keepSpec_length]; exact hi)
      = (keepSpec o (first :: t) now)[i]'(by rw [keepSpec_length]; exact hi) := by
    congr 1
    exact apply_eq_spec o h _ now
  rw [this, keepSpec_getElem o first t now i hi]
  exact specOne_keep_iff o now first.time _ _

/-- The neighbours used by the specification really are the adjacent snapshots of the sorted list. -/
theorem neighbours (l : List Snap) (i : Nat) (h : i < l.length) :
    (ctxFrom none l)[i]'(by rw [ctxFrom_length]; exact h)
      = ⟨if i = 0 then none else l[i - 1]?, l[i], l[i + 1]?⟩ :=
  ctxFrom_getElem none l i h

/-! Period predicates = equality of the documented period key. -/
theorem equal_year_is_key (a b : Snap) : equalYear a b = true ↔ keyYear a = keyYear b := equalYear_iff a b
theorem equal_half_year_is_key (a b : Snap) : equalHalfYear a b = true ↔ keyHalfYear a = keyHalfYear b := equalHalfYear_iff a b
theorem equal_quarter_year_is_key (a b : Snap) : equalQuarterYear a b = true ↔ keyQuarterYear a = keyQuarterYear b := equalQuarterYear_iff a b
theorem equal_month_is_key (a b : Snap) : equalMonth a b = true ↔ keyMonth a = keyMonth b := equalMonth_iff a b
theorem equal_week_is_key (a b : Snap) : equalWeek a b = true ↔ keyWeek a = keyWeek b := equalWeek_iff a b
theorem equal_day_is_key (a b : Snap) : equalDay a b = true ↔ keyDay a = keyDay b := equalDay_iff a b
theorem equal_hour_is_key (a b : Snap) : equalHour a b = true ↔ keyHour a = keyHour b := equalHour_iff a b
theorem equal_minute_is_key (a b : Snap) : equalMinute a b = true ↔ keyMinute a = keyMinute b := equalMinute_iff a b

/-- Every entry of the rule table is a key equality (so `heads_are_period_newest` applies to each), the
`last` entry having a key that is never equal (every snapshot is its own period). -/
theorem rules_table :
    rules.map (·.reason1) = ["last", "minutely", "hourly", "daily", "weekly", "monthly", "quarter-yearly",
      "half-yearly", "yearly"] ∧ rules.map (·.reason2) = ["within", "within minutely", "within hourly",
      "within daily", "within weekly", "within monthly", "within quarter-yearly", "within half-yearly",
      "within yearly"] ∧ rules.length = 9 := by
  decide

/-- An X-head that is neither the newest nor the oldest snapshot is the newest snapshot of its X-period
(given that equal period keys are adjacent in the newest-first order). -/
theorem heads_are_period_newest {κ : Type} (key : Snap → κ) (eq : Snap → Snap → Bool)
    (heq : ∀ a b, eq a b = true ↔ key a = key b) (l : List Snap) (hc : PeriodContiguous key l)
    (i : Nat) (hlast : i + 1 < l.length) :
    headOf eq ((ctxFrom none l)[i]'(by rw [ctxFrom_length]; omega)) = true
      ↔ ∀ (j : Nat) (hj : j < i), key (l[j]'(by omega)) ≠ key (l[i]'(by omega)) :=
  head_iff_newest_of_period key eq heq l hc i hlast

/-! ### `PeriodContiguous` derived from the calendar (`Model/Calendar`, `Lemmas/Calendar`) -/

/-- Every period key is a convex function of the local wall-clock second: between two seconds with the same
year / half-year / quarter / month / ISO week / day / hour / minute, every second has the same one.  (From: the
civil year is monotone in the day number, the month is monotone within a year, 1 January of a day's year is not
after the day, the ISO-week Thursday is monotone.) -/
theorem period_keys_convex :
    Convex (fun s => (Civil.ofLocalSecs s).year) ∧
    Convex (fun s => ((Civil.ofLocalSecs s).year, ((Civil.ofLocalSecs s).month - 1) / 6)) ∧
    Convex (fun s => ((Civil.ofLocalSecs s).year, ((Civil.ofLocalSecs s).month - 1) / 3)) ∧
    Convex (fun s => ((Civil.ofLocalSecs s).year, (Civil.ofLocalSecs s).month)) ∧
    Convex (fun s => ((Civil.ofLocalSecs s).isoYear, (Civil.ofLocalSecs s).isoWeek)) ∧
    Convex (fun s => ((Civil.ofLocalSecs s).year, (Civil.ofLocalSecs s).doy)) ∧
    Convex (fun s => ((Civil.ofLocalSecs s).year, (Civil.ofLocalSecs s).doy, (Civil.ofLocalSecs s).hour)) ∧
    Convex (fun s => ((Civil.ofLocalSecs s).year, (Civil.ofLocalSecs s).doy, (Civil.ofLocalSecs s).hour,
      (Civil.ofLocalSecs s).minute)) :=
  ⟨convex_year, convex_half, convex_quarter, convex_month, convex_week, convex_day, convex_hour, convex_minute⟩

/-- The calendar facts behind it, for all day numbers (no range restriction). -/
theorem calendar_monotone (z1 z2 : Int) (h : z1 ≤ z2) :
    yearOf z1 ≤ yearOf z2 ∧ (yearOf z1 = yearOf z2 → monthOf z1 ≤ monthOf z2) ∧ daysFromCivil (yearOf z1) 1 1 ≤ z1 :=
  ⟨yearOf_mono z1 z2 h, monthOf_mono z1 z2 h, jan1_le z1⟩

/-- The calendar model is a bijection between day numbers and civil dates with month 1..12, day 1..31: the date of
a day number determines it (so distinct days never share (year, month, day), for all integers). -/
theorem calendar_round_trip (z : Int) :
    daysFromCivil (civilFromDays z).1 (civilFromDays z).2.1 (civilFromDays z).2.2 = z ∧
    1 ≤ (civilFromDays z).2.1 ∧ (civilFromDays z).2.1 ≤ 12 ∧ 1 ≤ (civilFromDays z).2.2 ∧ (civilFromDays z).2.2 ≤ 31 :=
  daysFromCivil_civilFromDays z

/-- What holds for ANY mix of zone offsets: if the snapshots carry the civil fields of their own `Zoned`
(`CivilOk`) and the list is newest-first by LOCAL wall-clock time, equal period keys are adjacent, for all
eight period rules. -/
theorem period_contiguous_local_order (l : List Snap) (hc : ∀ s ∈ l, s.CivilOk) (hs : LocalSortedDesc l) :
    PeriodContiguous keyYear l ∧ PeriodContiguous keyHalfYear l ∧ PeriodContiguous keyQuarterYear l ∧
    PeriodContiguous keyMonth l ∧ PeriodContiguous keyWeek l ∧ PeriodContiguous keyDay l ∧
    PeriodContiguous keyHour l ∧ PeriodContiguous keyMinute l :=
  periodContiguous_all l hc hs

/-- One zone offset for all snapshots (the usual case: one machine, one zone): the order `apply` sorts by
(newest instant first) is an order by local time, so `PeriodContiguous` holds — it is no longer a hypothesis. -/
theorem period_contiguous_fixed_offset (l : List Snap) (off : Int) (hc : ∀ s ∈ l, s.CivilOk)
    (hoff : ∀ s ∈ l, s.off = off) (hs : isSortedDesc l = true) :
    PeriodContiguous keyYear l ∧ PeriodContiguous keyHalfYear l ∧ PeriodContiguous keyQuarterYear l ∧
    PeriodContiguous keyMonth l ∧ PeriodContiguous keyWeek l ∧ PeriodContiguous keyDay l ∧
    PeriodContiguous keyHour l ∧ PeriodContiguous keyMinute l :=
  periodContiguous_all l hc (localSorted_of_fixed_offset l off hoff hs)

/-- `heads_are_period_newest` without the contiguity hypothesis, for one zone offset and every period rule:
an X-head that is not the oldest snapshot is the newest snapshot of its X-period. -/
theorem heads_are_period_newest_fixed_offset (l : List Snap) (off : Int) (hc : ∀ s ∈ l, s.CivilOk)
    (hoff : ∀ s ∈ l, s.off = off) (hs : isSortedDesc l = true) (i : Nat) (hlast : i + 1 < l.length) :
    HeadIsNewest keyYear equalYear l i hlast ∧ HeadIsNewest keyHalfYear equalHalfYear l i hlast ∧
    HeadIsNewest keyQuarterYear equalQuarterYear l i hlast ∧ HeadIsNewest keyMonth equalMonth l i hlast ∧
    HeadIsNewest keyWeek equalWeek l i hlast ∧ HeadIsNewest keyDay equalDay l i hlast ∧
    HeadIsNewest keyHour equalHour l i hlast ∧ HeadIsNewest keyMinute equalMinute l i hlast := by
  obtain ⟨c1, c2, c3, c4, c5, c6, c7, c8⟩ := period_contiguous_fixed_offset l off hc hoff hs
  exact ⟨heads_are_period_newest _ _ equalYear_iff l c1 i hlast,
    heads_are_period_newest _ _ equalHalfYear_iff l c2 i hlast,
    heads_are_period_newest _ _ equalQuarterYear_iff l c3 i hlast,
    heads_are_period_newest _ _ equalMonth_iff l c4 i hlast,
    heads_are_period_newest _ _ equalWeek_iff l c5 i hlast,
    heads_are_period_newest _ _ equalDay_iff l c6 i hlast,
    heads_are_period_newest _ _ equalHour_iff l c7 i hlast,
    heads_are_period_newest _ _ equalMinute_iff l c8 i hlast⟩

/-- "…the newest snapshot of one of the newest N distinct periods": with one zone offset, while all newer
snapshots are ordinary, the rank of the i-th snapshot for period rule X is the NUMBER OF DISTINCT X-periods among
the snapshots newer than it (`distinctPeriods` counts first occurrences of keys) — so by `kept_iff_rule` an
X-head is kept by `keep-X N` exactly while fewer than N distinct newer periods exist. -/
theorem rank_counts_distinct_periods_fixed_offset (o : KeepOptions) (now : Int) (l : List Snap) (off : Int)
    (hc : ∀ s ∈ l, s.CivilOk) (hoff : ∀ s ∈ l, s.off = off) (hs : isSortedDesc l = true) (i : Nat) (hi : i < l.length)
    (hord : ∀ c ∈ (ctxFrom none l).take i, kind o now c = .ord) :
    rank o now equalYear ((ctxFrom none l).take i) = distinctPeriods keyYear (l.take i) ∧
    rank o now equalHalfYear ((ctxFrom none l).take i) = distinctPeriods keyHalfYear (l.take i) ∧
    rank o now equalQuarterYear ((ctxFrom none l).take i) = distinctPeriods keyQuarterYear (l.take i) ∧
    rank o now equalMonth ((ctxFrom none l).take i) = distinctPeriods keyMonth (l.take i) ∧
    rank o now equalWeek ((ctxFrom none l).take i) = distinctPeriods keyWeek (l.take i) ∧
    rank o now equalDay ((ctxFrom none l).take i) = distinctPeriods keyDay (l.take i) ∧
    rank o now equalHour ((ctxFrom none l).take i) = distinctPeriods keyHour (l.take i) ∧
    rank o now equalMinute ((ctxFrom none l).take i) = distinctPeriods keyMinute (l.take i) := by
  obtain ⟨c1, c2, c3, c4, c5, c6, c7, c8⟩ := period_contiguous_fixed_offset l off hc hoff hs
  have go : ∀ {κ : Type} [DecidableEq κ] (key : Snap → κ) (eq : Snap → Snap → Bool)
      (_ : ∀ a b, eq a b = true ↔ key a = key b) (_ : PeriodContiguous key l),
      rank o now eq ((ctxFrom none l).take i) = distinctPeriods key (l.take i) := by
    intro κ _ key eq heq hpc
    rw [show rank o now eq ((ctxFrom none l).take i) = runsFrom key none (l.take i) from
      rank_eq_runs key eq heq o now l none i hi hord]
    exact runs_eq_distinct key _ (periodContiguous_take key l hpc i)
  exact ⟨go _ _ equalYear_iff c1, go _ _ equalHalfYear_iff c2, go _ _ equalQuarterYear_iff c3,
    go _ _ equalMonth_iff c4, go _ _ equalWeek_iff c5, go _ _ equalDay_iff c6, go _ _ equalHour_iff c7,
    go _ _ equalMinute_iff c8⟩

/-- Mixed zone offsets, newest-first by INSTANT (what `apply` sorts by): contiguity can fail — the hypothesis
`PeriodContiguous` (or local order) stays exactly there.  2020-01-01T23:50Z (UTC: 1 Jan), 23:40Z at +01:00
(local 2 Jan 00:40), 23:30Z (UTC: 1 Jan), then 31 Dec and 30 Dec: the days read 1 Jan, 2 Jan, 1 Jan, so
`keep-daily 3` keeps the three newest snapshots (two of them of 1 Jan) and drops 31 Dec, the third-newest
distinct day.  Replayed on the real code: corpus/C09/witnesses.ops (`mixed offsets`). -/
def mixedOffsets : List Snap :=
  [ Snap.ofInstant 1577922600000000000 0 "a0" 1 [] .notSet, Snap.ofInstant 1577922000000000000 3600 "a1" 1 [] .notSet,
    Snap.ofInstant 1577921400000000000 0 "a2" 1 [] .notSet, Snap.ofInstant 1577793600000000000 0 "a3" 1 [] .notSet,
    Snap.ofInstant 1577707200000000000 0 "a4" 1 [] .notSet ]

def keepDaily3 : KeepOptions :=
  { keepTags := [], keepIds := [], keepNone := false, deleteUnchanged := false,
    slots := [⟨none, none⟩, ⟨none, none⟩, ⟨none, none⟩, ⟨some 3, none⟩, ⟨none, none⟩, ⟨none, none⟩, ⟨none, none⟩,
      ⟨none, none⟩, ⟨none, none⟩] }

theorem period_contiguous_fails_with_mixed_offsets :
    isSortedDesc mixedOffsets = true ∧ (∀ s ∈ mixedOffsets, s.CivilOk) ∧ ¬ PeriodContiguous keyDay mixedOffsets ∧
    mixedOffsets.map keyDay = [(2020, 1), (2020, 2), (2020, 1), (2019, 365), (2019, 364)] ∧
    (applySorted keepDaily3 mixedOffsets 0).map (·.keep) = [true, true, true, false, false] := by
  refine ⟨by decide, ?_, ?_, by decide, by decide⟩
  · intro s hs
    simp only [mixedOffsets, List.mem_cons, List.not_mem_nil, or_false] at hs
    rcases hs with rfl | rfl | rfl | rfl | rfl <;> exact ofInstant_civilOk _ _ _ _ _ _
  · intro h
    exact absurd (h 0 1 2 (by decide) (by decide) (by decide) (by decide)) (by decide)

/-! ### delete marks: the boundary -/

/-- "Snapshots whose delete-after time has passed are removed": *passed* is strict.  A snapshot whose
delete-after time equals `now` exactly is still protected (`must_keep`, tested first by `apply`) and is not
`must_delete`; one nanosecond later it is `must_delete` and not protected.  For every mark exactly one of
protected / expired / ordinary holds.  (`must_delete` / `must_keep` are tied directly by the `mark` channel:
inside `apply` the `<` of `must_delete` is shadowed by `must_keep`.) -/
theorem delete_after_boundary (sn : Snap) (t now : Int) (h : sn.delete = .after t) :
    (mustDelete sn now = true ↔ t < now) ∧ (mustKeep sn now = true ↔ now ≤ t) ∧
    (t = now → mustKeep sn now = true ∧ mustDelete sn now = false) ∧
    (mustKeep sn now = true ↔ mustDelete sn now = false) := by
  simp [mustDelete, mustKeep, h]
  omega

theorem delete_marks_exclusive (sn : Snap) (now : Int) :
    ¬ (mustKeep sn now = true ∧ mustDelete sn now = true) ∧
    (sn.delete = .never → mustKeep sn now = true) ∧
    (sn.delete = .notSet → mustKeep sn now = false ∧ mustDelete sn now = false) := by
  cases hd : sn.delete <;> simp [mustKeep, mustDelete, hd]

/-- "…or the oldest snapshot while a counter remains": the oldest snapshot is a head of every rule. -/
theorem oldest_is_always_head (eq : Snap → Snap → Bool) (l : List Snap) (i : Nat) (hlast : i + 1 = l.length) :
    headOf eq ((ctxFrom none l)[i]'(by rw [ctxFrom_length]; omega)) = true :=
  oldest_is_head eq l i hlast

/-- "…one of the newest N distinct periods": while all newer snapshots are ordinary, the rank of the i-th
snapshot among the X-heads is the number of maximal runs of equal X-period keys among the snapshots
newer than it — the number of distinct newer periods when equal keys are adjacent (`PeriodContiguous`). -/
theorem rank_counts_newer_periods {κ : Type} [DecidableEq κ] (key : Snap → κ) (eq : Snap → Snap → Bool)
    (heq : ∀ a b, eq a b = true ↔ key a = key b) (o : KeepOptions) (now : Int) (l : List Snap) (i : Nat)
    (hi : i < l.length) (hord : ∀ c ∈ (ctxFrom none l).take i, kind o now c = .ord) :
    rank o now eq ((ctxFrom none l).take i) = runsFrom key none (l.take i) :=
  rank_eq_runs key eq heq o now l none i hi hord

/-- Raising keep counts (everything else equal) never removes a snapshot that was kept before. -/
theorem monotone (o o' : KeepOptions) (h : WF o) (hle : OptsLe o o') (sorted : List Snap) (now : Int) (i : Nat)
    (x : Out) (hx : (applySorted o sorted now)[i]? = some x) (hk : x.keep = true) :
    ∃ x', (applySorted o' sorted now)[i]? = some x' ∧ x'.snap = x.snap ∧ x'.keep = true := by
  rw [apply_eq_spec o h] at hx
  rw [apply_eq_spec o' (hle.wf h)]
  cases sorted with
  | nil => simp [keepSpec] at hx
  | cons first t =>
    have hi : i < (first :: t).length := by
      have := (List.getElem?_eq_some_iff.1 hx).1
      rwa [keepSpec_length] at this
    have hx' := (List.getElem?_eq_some_iff.1 hx).2
    rw [keepSpec_getElem o first t now i hi] at hx'
    refine ⟨_, List.getElem?_eq_getElem (by rw [keepSpec_length]; exact hi), ?_, ?_⟩
    · rw [keepSpec_getElem o' first t now i hi, specOne_snap, ← hx', specOne_snap]
    · rw [keepSpec_getElem o' first t now i hi]
      apply specOne_mono hle
      rw [hx']; exact hk

/-- The count order used by `monotone`, spelled out: unset/0 ≤ n ≤ n' ≤ -1 (= all). -/
theorem count_order_examples :
    CountLe none (some 3) ∧ CountLe (some 0) none ∧ CountLe (some 2) (some 3) ∧ CountLe (some 7) (some (-1))
      ∧ ¬ CountLe (some (-1)) (some 1000) ∧ ¬ CountLe (some 3) (some 2) := by
  simp [CountLe]

/-- Snapshots whose delete-after time has passed are removed. -/
theorem expired_removed (o : KeepOptions) (h : WF o) (first : Snap) (t : List Snap) (now : Int) (i : Nat)
    (hi : i < (first :: t).length) (hexp : mustDelete ((first :: t)[i]) now = true) :
    ((applySorted o (first :: t) now)[i]'(by rw [apply_eq_spec o h, keepSpec_length]; exact hi)).keep = false := by
  have : (applySorted o (first :: t) now)[i]'(by rw [apply_eq_spec o h, keepSpec_length]; exact hi)
      = (keepSpec o (first :: t) now)[i]'(by rw [keepSpec_length]; exact hi) := by
    congr 1
    exact apply_eq_spec o h _ now
  rw [this, keepSpec_getElem o first t now i hi]
  apply specOne_expired
  rw [ctxFrom_getElem none (first :: t) i hi]
  exact hexp

/-- Snapshots protected by their own delete-never / not-yet-reached delete-after mark are kept. -/
theorem protected_kept (o : KeepOptions) (h : WF o) (first : Snap) (t : List Snap) (now : Int) (i : Nat)
    (hi : i < (first :: t).length) (hp : mustKeep ((first :: t)[i]) now = true) :
    ((applySorted o (first :: t) now)[i]'(by rw [apply_eq_spec o h, keepSpec_length]; exact hi)).keep = true := by
  have : (applySorted o (first :: t) now)[i]'(by rw [apply_eq_spec o h, keepSpec_length]; exact hi)
      = (keepSpec o (first :: t) now)[i]'(by rw [keepSpec_length]; exact hi) := by
    congr 1
    exact apply_eq_spec o h _ now
  rw [this, keepSpec_getElem o first t now i hi]
  apply specOne_protected
  rw [ctxFrom_getElem none (first :: t) i hi]
  exact hp

/-! ### the two defects of the code before the repair (DESIGN §7 #1, #2), as witnesses -/

def snapAt (year : Int) (month doy hour minute : Nat) (isoYear : Int) (isoWeek : Nat) : Snap :=
  { time := 0, off := 0, year, month, doy, hour, minute, isoYear, isoWeek, id := "", tags := [], tree := 0,
    delete := .notSet }

/-- #1 `equal_minute` built on `equal_half_year`: 2014-09-01 10:20 and 2014-09-02 10:20 were "the same
minute" (replayed on the real code: corpus/C09/witnesses.ops). -/
theorem equal_minute_old_not_key :
    equalMinuteOld (snapAt 2014 9 244 10 20 2014 36) (snapAt 2014 9 245 10 20 2014 36) = true
      ∧ keyMinute (snapAt 2014 9 244 10 20 2014 36) ≠ keyMinute (snapAt 2014 9 245 10 20 2014 36) := by
  decide

/-- #2 `equal_week` = calendar year + ISO week number: 2018-12-31 (2019-W01) and 2018-01-03 (2018-W01)
were merged; 2016-01-01 and 2015-12-31 (both 2015-W53) were split. -/
theorem equal_week_old_not_key :
    (equalWeekOld (snapAt 2018 12 365 0 0 2019 1) (snapAt 2018 1 3 0 0 2018 1) = true
      ∧ keyWeek (snapAt 2018 12 365 0 0 2019 1) ≠ keyWeek (snapAt 2018 1 3 0 0 2018 1))
    ∧ (equalWeekOld (snapAt 2016 1 1 0 0 2015 53) (snapAt 2015 12 365 0 0 2015 53) = false
      ∧ keyWeek (snapAt 2016 1 1 0 0 2015 53) = keyWeek (snapAt 2015 12 365 0 0 2015 53)) := by
  decide

/-! ### non-vacuity -/

def exOpts : KeepOptions :=
  { keepTags := [], keepIds := [], keepNone := false, deleteUnchanged := false,
    slots := [⟨none, none⟩, ⟨some 5, none⟩, ⟨none, none⟩, ⟨some 1, none⟩, ⟨none, none⟩, ⟨none, none⟩, ⟨none, none⟩,
      ⟨none, none⟩, ⟨none, none⟩] }

def exSnaps : List Snap :=
  [ { snapAt 2014 9 246 10 20 2014 36 with time := 3 }, { snapAt 2014 9 245 10 20 2014 36 with time := 2 },
    { snapAt 2014 9 245 10 19 2014 36 with time := 1, delete := .after 5 },
    { snapAt 2014 9 244 10 20 2014 36 with time := 0 } ]

example : WF exOpts := by decide
example : isValid exOpts = true := by decide
/-- keep_minutely(5) + keep_daily(1) on four snapshots, one of them expired: K K D K, with the reasons. -/
example : (applySorted exOpts exSnaps 10).map (fun o => (o.keep, o.reasons))
    = [(true, ["minutely", "daily"]), (true, ["minutely"]), (false, ["snapshot"]), (true, ["minutely"])] := by
  decide
example : OptsLe exOpts { exOpts with slots := exOpts.slots.set 3 ⟨some 2, none⟩ } := by
  refine ⟨rfl, rfl, rfl, ?_⟩
  repeat (first | exact SlotsLe.nil | refine SlotsLe.cons rfl (by simp [CountLe]) ?_)
/-- two distinct days (246, 245, 245) among the three newest snapshots of `exSnaps` -/
example : runsFrom keyDay none (exSnaps.take 3) = 2 := by decide
example : distinctPeriods keyDay (exSnaps.take 3) = 2 ∧ distinctPeriods keyDay mixedOffsets = 4 ∧
    runsFrom keyDay none mixedOffsets = 5 := by decide
example : PeriodContiguous keyDay exSnaps := by
  have key : ∀ (i j k : Fin 4), i < j → j < k →
      keyDay (exSnaps[i.1]'i.2) = keyDay (exSnaps[k.1]'k.2) → keyDay (exSnaps[j.1]'j.2) = keyDay (exSnaps[k.1]'k.2) := by
    decide
  intro i j k hij hjk hk
  have hk4 : k < 4 := hk
  exact key ⟨i, by omega⟩ ⟨j, by omega⟩ ⟨k, hk4⟩ hij hjk

end Rustic.Props.C09
