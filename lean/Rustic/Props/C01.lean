/-
C01 — Backup followed by restore reproduces the source exactly (compositional).

Component models: `Rustic/Model/RoundTrip.lean` (file-name escaping `backend/node.rs`, ranged reads `vfs.rs`,
coalesced pack reads `blob.rs`, positional restore writes `commands/restore.rs`, the content path of a file) and
the chunker `Rustic/Model/Chunker.lean` (C06).  Every statement is for all inputs: all names (every cutting into
valid characters and invalid bytes), all blob lists, offsets and lengths (also past the end), all sorted location
lists, all write orders, all byte streams and chunker parameters, all read-fragmentation schedules.

THE COMPOSITION (whole pipeline incl. codecs, packer, pack files, index, tree blobs) is proved here over the component
models of the other properties — no `StoreFaithful` assumption is left:
* `stored_blob_reads_back` (6): blob codec (`Model/Codec`, C04 round trip) → `BasicPacker.add_raw` (`Model/Pack`, C08
  offsets/bytes invariant) → pack file bytes → index files listing the packs (`Model/Index`; ANY index value the
  loader may produce, C17 `get_succeeds_iff` / `get_returns_a_listing`) → `get_id` → partial read → decode = the plaintext.
  (6') the index may equally be the one `PackHeader::from_file` rebuilds from the pack bytes (C08 `parse_build`).
* `archive_restore_blobs` (7): for EVERY schedule of the packer pipeline (`Model/Archive` part 2: early/late dedup filters,
  any pack boundaries, writer and indexer delays; C07 `uploaded_exactly_added`, C13 `every_written_pack_indexed`, typed
  indexer 17c26ec) every blob handed to a packer reads back.  `store_faithful_derived` / `backup_restore_file` (8): the
  former hypothesis as a theorem, one file end to end through the C06 chunker.
* `archive_restore` (9): a whole source forest — names (any bytes), entry types, link targets (UTF-8 or not), metadata
  (mode/mtime/… as one record), file contents, directories of any depth/width incl. empty ones — through the real
  `TreeIterator` (`Model/Tree TIter`), `Parent` (no parent), `FileArchiver` step and the `TreeArchiver` stack machine
  (`Model/Archive.archive`), tree serialisation with escaped names, the packer pipeline under any schedule, and back
  through index lookups, decoding, `from_slice`, un-escaping, ranged/positional content assembly: `restore = src`.
Remaining hypotheses, all explicit: ideal AE (`Codec.AE`: CTR inverse, tag length), zstd round trip (`Codec.Zstd`), serde
round trip of trees (`Snapshot.Ser`), UTF-8 facts (`StrOK`), hash injectivity on the blobs of this run (`HashInj`), collision
free pack ids, 16-byte nonces; a fresh repository for (7)–(9) ((6) is for any repository satisfying `RepoOK`).
-/
import Rustic.Lemmas.RoundTrip
import Rustic.Props.C06
import Rustic.Lemmas.StorePipeline
import Rustic.Lemmas.SnapshotArchive
import Rustic.Lemmas.SnapshotLookup
import Rustic.Lemmas.TreeIter
import Rustic.Lemmas.Times
namespace Rustic.Props.C01
open Rustic.RoundTrip

/-- (1) File names: `unescape (escape n) = n` for every name, whatever bytes it has. -/
theorem unescape_escape (enc : Char → Bytes) (he : EncAscii enc) (items : List Item) :
    unescape enc (escape items) = some (items.flatMap (itemBytes enc)) :=
  unescape_escape' enc he items

/-- (2) `OpenFile::read_at` with `ContentStartpoints`: exactly the requested range of the concatenation of the
file's blobs — for every offset and length, also reaching or lying past the end. -/
theorem readAt_spec (maxv : Nat) (blobs : List Bytes) (offset len : Nat) (hm : offset < maxv) :
    readAt maxv (blobs.map List.length) blobs offset len = (blobs.flatten.drop offset).take len :=
  readAt_eq maxv blobs offset len hm

/-- (3) Coalesced pack reads (restore, copy, prune repack): every location lands in exactly one group, in
order, and the sub-slice taken for it out of the group's single read is the blob's own byte range of the pack. -/
theorem coalesce_slice_ok (hole limit : Nat) (locs : List Loc) (pack : Bytes) :
    (coalesceAll hole limit locs).flatMap (·.blobs) = locs ∧
    ∀ g ∈ coalesceAll hole limit locs, ∀ bl ∈ g.blobs,
      sliceOf pack g bl = (pack.drop bl.offset).take bl.length := by
  cases locs with
  | nil => simp [coalesceAll]
  | cons o l =>
    refine ⟨by simp [coalesceAll, coalesceFrom_blobs, Group.single], fun g hg bl hbl => ?_⟩
    have := coalesceFrom_inv hole limit l (Group.single o) (inv_single o) g hg bl hbl
    exact slice_eq this.1 this.2

/-- (4) Restore writes in any order: performing the positional writes of a file's blobs in any order (even
repeatedly) on the zero-filled file yields the concatenation of the blobs. -/
theorem restore_writes_any_order (cs : List Bytes) (ws : List Write) (h : ∀ w, w ∈ ws ↔ w ∈ positions 0 cs) :
    (applyWrites (zeros (totalLen cs)) ws).bytes = cs.flatten :=
  writes_any_order cs ws h

/-- every chunk handed to the packer can be read back by its id (codecs, pack and index formats, dedup filters) -/
def StoreFaithful (hash : Bytes → Nat) (chunks : List Bytes) (store : Nat → Option Bytes) : Prop :=
  ∀ c ∈ chunks, store (hash c) = some c

/-- (5) Composition for one entry: the name is escaped into the tree and un-escaped on the way back; the content
is chunked (rabin, any parameters accepted by `WFp`, any reader fragmentation), the ids go into the node, restore
looks them up and writes them at the running positions in any order — and the entry comes back exactly. -/
theorem backup_restore_file_partial {σ : Type} (enc : Char → Bytes) (he : EncAscii enc) (name : List Item)
    (r : Rustic.Chunker.Roll σ) (p : Rustic.Chunker.Params) (hp : Rustic.Props.C06.WFp p) (bufSize : Nat)
    (hb : 0 < bufSize) (input : Bytes) (sched : List Rustic.Chunker.Ev)
    (hash : Bytes → Nat) (store : Nat → Option Bytes)
    (hs : StoreFaithful hash (Rustic.Props.C06.chunksOf r p bufSize input sched) store)
    (order : List Write → List Write) (ho : ∀ l w, w ∈ order l ↔ w ∈ l) :
    unescape enc (escape name) = some (name.flatMap (itemBytes enc)) ∧
    (restoreFile store ((Rustic.Props.C06.chunksOf r p bufSize input sched).map hash) order).map File.bytes
      = some input := by
  refine ⟨unescape_escape' enc he name, ?_⟩
  unfold restoreFile
  rw [mapM_store _ hs]
  simp only [Option.map_some]
  congr 1
  have := writes_any_order (Rustic.Props.C06.chunksOf r p bufSize input sched)
    (order (positions 0 (Rustic.Props.C06.chunksOf r p bufSize input sched))) (ho _)
  rw [show (List.map List.length (Rustic.Props.C06.chunksOf r p bufSize input sched)).sum
      = totalLen (Rustic.Props.C06.chunksOf r p bufSize input sched) from rfl, this]
  exact Rustic.Props.C06.lossless r p hp bufSize hb input sched

/-- (2') … so a ranged read (`read_file_at`) of an archived file whose chunks read back by their ids returns exactly the
requested range of the file's bytes (any offset, any length, also past the end) — with (8) the premise is a theorem. -/
theorem ranged_read_of_stored_file (maxv : Nat) (hash : Bytes → Nat) (store : Nat → Option Bytes) (chunks : List Bytes)
    (hs : StoreFaithful hash chunks store) (offset len : Nat) (hm : offset < maxv) :
    ((chunks.map hash).mapM store).map (fun blobs => readAt maxv (blobs.map List.length) blobs offset len) =
      some ((chunks.flatten.drop offset).take len) := by
  rw [mapM_store _ hs]
  simp only [Option.map_some]
  rw [readAt_eq maxv chunks offset len hm]

/-- (5') the store the archiver builds is faithful when distinct chunks have distinct ids -/
theorem archive_store_faithful (hash : Bytes → Nat) (chunks : List Bytes) (store : Nat → Option Bytes)
    (hinj : ∀ a ∈ chunks, ∀ b ∈ chunks, hash a = hash b → a = b) :
    StoreFaithful hash chunks (archiveFile hash chunks store).2 :=
  archive_store_get hinj

/-! ### the composition over the real formats -/

open Rustic.Store Rustic.Snapshot in
/-- (6) **A stored blob reads back** — codec → packer → pack file → index → lookup → partial read → decode.
`packs`: the pack files of the repository, each the output of `BasicPacker` on blobs that went through `process_data`
(any nonces, duplicates, any number of blobs); `files`: any index files; `RepoOK`: the index lists exactly these packs
with the blob lists their packers recorded, pack ids name one file, plaintexts of one type with equal ids are equal
(hash injectivity on what is stored), nothing empty is stored compressed.  Then for ANY index value the load may produce
(unstable sort!) every blob handed to a packer — also one `add_raw` skipped as duplicate, also one present in several
packs — is returned exactly by `blob_from_backend`. -/
theorem stored_blob_reads_back (c : Cfg) (packs : List BuiltPack) (files : List Rustic.Index.IndexFile)
    (hok : RepoOK c packs (Rustic.Index.unmarked files)) (idx : Rustic.Index.Index)
    (hl : Rustic.Props.C17.Loaded .full files idx) (q : BuiltPack) (hq : q ∈ packs) (a : Add) (ha : a ∈ q.adds) :
    readBlob c idx (backendGet c packs) q.tpe (c.hash a.data) = some a.data :=
  blob_read_back c packs files hok idx hl q hq a ha

open Rustic.Store in
/-- (6') … and the index entry `PackHeader::from_file` rebuilds from the pack file alone (any size hint: none, too
small, exact, too large) is the entry the indexer wrote — so (6) holds verbatim for a repaired index. -/
theorem rebuilt_index_entry_is_written_one (c : Cfg) (q : BuiltPack) (hn : q.hdrNonce.length = 16)
    (hwf : ∀ b ∈ (q.packer c).blobs, Rustic.Pack.WFBlob b)
    (hfit : Rustic.Pack.packSize (q.packer c).blobs < 4294967296) (hint : Option Nat) :
    q.rebuiltIndexPack c hint = q.indexPack c :=
  rebuilt_eq_written c q hn hwf hfit hint

/-- the `Conc` whose plaintexts are those of the blobs the archiver handed over -/
def concOf (hash : RoundTrip.Bytes → Nat) (blobs : List (Rustic.Archive.BT × RoundTrip.Bytes)) (nonce : Rustic.Archive.Key → RoundTrip.Bytes)
    (hdrNonce : Rustic.Archive.BT × List Nat → RoundTrip.Bytes) (packId : Rustic.Archive.BT × List Nat → Nat) : Rustic.Store.Conc :=
  { content := Rustic.Store.contentOf hash blobs, nonce := nonce, hdrNonce := hdrNonce, packId := packId }

/-- the hypotheses about one backup run into a fresh repository -/
structure RunOK (c : Rustic.Store.Cfg) (blobs : List (Rustic.Archive.BT × RoundTrip.Bytes)) (k : Rustic.Store.Conc)
    (evs : List Rustic.Archive.Ev) : Prop where
  /-- hash injectivity on the blobs of this run -/
  inj : Rustic.Store.HashInj c.hash blobs
  /-- trees and chunks are never empty -/
  nonempty : ∀ b ∈ blobs, b.2 ≠ []
  /-- `Packer::add` was called exactly with the blobs' keys (in any order, any number of times) -/
  entered : ∀ key, key ∈ Rustic.Archive.entered evs ↔ key ∈ blobs.map (fun b => (b.1, c.hash b.2))
  content : k.content = Rustic.Store.contentOf c.hash blobs
  /-- pack ids are collision free -/
  packId : ∀ p p', k.packId p = k.packId p' → p = p'
  nonce : ∀ key, (k.nonce key).length = 16

open Rustic.Store Rustic.Archive in
/-- (7) **Every blob of a backup run reads back, for every schedule of the packer pipeline.**  `evs` is any interleaving
of `Packer::add` calls, late-filter commits, pack flushes (every pack-size setting), pack writes and indexer updates;
the repository is what `finalize` leaves (`packsOf` / `indexedOf` give the pipeline's packs their bytes); `files` is any
way of spreading the indexed packs over index files; `idx` any index the loader may build. -/
theorem archive_restore_blobs (c : Cfg) (blobs : List (BT × RoundTrip.Bytes)) (k : Conc) (evs : List Ev) (hr : RunOK c blobs k evs)
    (files : List Rustic.Index.IndexFile)
    (hfiles : ∀ p, p ∈ Rustic.Index.unmarked files ↔ p ∈ indexedOf c k (finalizeAll (runEvs Rustic.Props.C07.init evs)))
    (idx : Rustic.Index.Index) (hl : Rustic.Props.C17.Loaded .full files idx) :
    ∀ b ∈ blobs, readBlob c idx (backendGet c (packsOf k (finalizeAll (runEvs Rustic.Props.C07.init evs))))
      (toBlobType b.1) (c.hash b.2) = some b.2 := by
  have hkey : ∀ key ∈ entered evs, c.hash (k.content key) = key.2 ∧ ∃ b ∈ blobs, b.2 = k.content key := by
    intro key hk
    rw [hr.content]
    exact contentOf_key c.hash blobs key ((hr.entered key).mp hk)
  have hok := (pipeline_repoOK c k evs hr.packId hr.nonce
    (fun key hk => by
      obtain ⟨_, b, hb, he⟩ := hkey key hk
      exact Or.inl (he ▸ hr.nonempty b hb))
    (fun key hk => (hkey key hk).1)).of_mem_iff hfiles
  intro b hb
  have hent : (b.1, c.hash b.2) ∈ entered evs := (hr.entered _).mpr (List.mem_map.mpr ⟨b, hb, rfl⟩)
  obtain ⟨q, hq, hty, a, ha, hdata⟩ := entered_is_added k evs _ hent
  have hcont : k.content (b.1, c.hash b.2) = b.2 := by rw [hr.content]; exact contentOf_spec c.hash blobs hr.inj b hb
  have := blob_read_back c _ files hok idx hl q hq a ha
  rw [hdata, hcont, hty] at this
  exact this

open Rustic.Store Rustic.Archive in
/-- (8) **`StoreFaithful` is a theorem**: the chunks of a file that went through the pipeline (with whatever else the
run stored) read back by their ids. -/
theorem store_faithful_derived (c : Cfg) (blobs : List (BT × RoundTrip.Bytes)) (k : Conc) (evs : List Ev) (hr : RunOK c blobs k evs)
    (files : List Rustic.Index.IndexFile)
    (hfiles : ∀ p, p ∈ Rustic.Index.unmarked files ↔ p ∈ indexedOf c k (finalizeAll (runEvs Rustic.Props.C07.init evs)))
    (idx : Rustic.Index.Index) (hl : Rustic.Props.C17.Loaded .full files idx)
    (chunks : List RoundTrip.Bytes) (hc : ∀ ch ∈ chunks, (BT.data, ch) ∈ blobs) :
    StoreFaithful c.hash chunks
      (readBlob c idx (backendGet c (packsOf k (finalizeAll (runEvs Rustic.Props.C07.init evs)))) .data) :=
  fun ch hch => archive_restore_blobs c blobs k evs hr files hfiles idx hl (.data, ch) (hc ch hch)

open Rustic.Store Rustic.Archive in
/-- (8') One file end to end, nothing assumed of the store: rabin chunker (any accepted parameters, any reader
fragmentation) → blob codec → packer pipeline (any schedule) → pack files → index → lookups → decode → positional writes
in any order = the file's bytes; and the name round trip. -/
theorem backup_restore_file {σ : Type} (enc : Char → RoundTrip.Bytes) (he : EncAscii enc) (name : List Item)
    (r : Rustic.Chunker.Roll σ) (p : Rustic.Chunker.Params) (hp : Rustic.Props.C06.WFp p) (bufSize : Nat)
    (hb : 0 < bufSize) (input : RoundTrip.Bytes) (sched : List Rustic.Chunker.Ev)
    (c : Cfg) (blobs : List (BT × RoundTrip.Bytes)) (k : Conc) (evs : List Ev) (hr : RunOK c blobs k evs)
    (hc : ∀ ch ∈ Rustic.Props.C06.chunksOf r p bufSize input sched, (BT.data, ch) ∈ blobs)
    (files : List Rustic.Index.IndexFile)
    (hfiles : ∀ p, p ∈ Rustic.Index.unmarked files ↔ p ∈ indexedOf c k (finalizeAll (runEvs Rustic.Props.C07.init evs)))
    (idx : Rustic.Index.Index) (hl : Rustic.Props.C17.Loaded .full files idx)
    (order : List Write → List Write) (ho : ∀ l w, w ∈ order l ↔ w ∈ l) :
    unescape enc (escape name) = some (name.flatMap (itemBytes enc)) ∧
    (restoreFile (readBlob c idx (backendGet c (packsOf k (finalizeAll (runEvs Rustic.Props.C07.init evs)))) .data)
      ((Rustic.Props.C06.chunksOf r p bufSize input sched).map c.hash) order).map File.bytes = some input :=
  backup_restore_file_partial enc he name r p hp bufSize hb input sched c.hash _
    (store_faithful_derived c blobs k evs hr files hfiles idx hl _ hc) order ho

open Rustic.Store Rustic.Archive Rustic.Snapshot Rustic.Tree in
/-- (9) **Backup followed by restore reproduces the source tree.**  `src`: any source forest (`WFL`: what a file system
gives — leaves are not directories, only files carry bytes; `WalkableL`: directories are directory nodes, adjacent sibling
directories have different names).  The archiver (`Archive.archive`: real `TreeIterator` over the depth-first entries,
`Parent` without parents, file step with the chunker `chunks`, `TreeArchiver`) runs on a fresh repository with tree id
`H nodes = hash (serialised nodes)` (names escaped, link targets as string + raw bytes); `blobs` are the trees and chunks
it hands to the packers, `evs` any pipeline schedule entering them (`RunOK`), the repository what `finalize` leaves, `idx`
any index the loader builds from any split into index files.  Then restoring from the snapshot's root tree id — tree blobs
and data blobs through `blob_from_backend`, `from_slice`, un-escaped names, `to_link`, content by positional writes in any
order — yields exactly `src`: every name, entry type, link target, metadata record and file content. -/
theorem archive_restore (c : Cfg) (s : Str) (hs : StrOK s) (j : Ser) (chunks : RoundTrip.Bytes → List RoundTrip.Bytes)
    (hch : ∀ d, (chunks d).flatten = d)
    (src : List STree) (hwf : WFL src) (hwalk : WalkableL src)
    (o : Rustic.Parent.Opts) (load : Id → Option (List Node)) (a : ArchOut)
    (ha : archive (fun nodes => c.hash (treeBytes s j nodes)) (fun d => (chunks d).map c.hash) List.length load
      (fun _ => false) noTree o [] (treeItems (entriesL [] src)) = some a)
    (k : Conc) (evs : List Ev)
    (hr : RunOK c (a.treeAdds.map (fun t => (BT.tree, treeBytes s j t.2)) ++
      (saveL (fun nodes => c.hash (treeBytes s j nodes)) c.hash chunks noTree src).chunks.map (fun ch => (BT.data, ch))) k evs)
    (files : List Rustic.Index.IndexFile)
    (hfiles : ∀ p, p ∈ Rustic.Index.unmarked files ↔ p ∈ indexedOf c k (finalizeAll (runEvs Rustic.Props.C07.init evs)))
    (idx : Rustic.Index.Index) (hl : Rustic.Props.C17.Loaded .full files idx)
    (order : List Write → List Write) (ho : ∀ l w, w ∈ order l ↔ w ∈ l) :
    restoreTrees s j
      (readBlob c idx (backendGet c (packsOf k (finalizeAll (runEvs Rustic.Props.C07.init evs)))) .tree)
      (readBlob c idx (backendGet c (packsOf k (finalizeAll (runEvs Rustic.Props.C07.init evs)))) .data)
      order (depthL src + 1) a.root = some src := by
  rw [tree_iterator_items src hwalk] at ha
  obtain ⟨a', ha', hroot, htrees, _⟩ := archive_eq_save (fun nodes => c.hash (treeBytes s j nodes)) c.hash chunks load
    (fun _ => false) noTree o src
  rw [ha] at ha'
  injection ha' with ha'
  subst ha'
  simp only [noTree, Bool.false_eq_true, if_false] at htrees
  have hread := archive_restore_blobs c _ k evs hr files hfiles idx hl
  rw [hroot]
  refine restore_of_saved s hs j (fun nodes => c.hash (treeBytes s j nodes)) c.hash chunks hch
    (readBlob c idx (backendGet c (packsOf k (finalizeAll (runEvs Rustic.Props.C07.init evs)))) .tree)
    (readBlob c idx (backendGet c (packsOf k (finalizeAll (runEvs Rustic.Props.C07.init evs)))) .data)
    order ho src hwf ?_ ?_ ?_
  · exact hread (BT.tree, _) (List.mem_append_left _ (List.mem_map.mpr ⟨(_, _), by
      rw [htrees]; exact List.mem_append_right _ (List.mem_singleton.mpr rfl), rfl⟩))
  · intro p hp
    have hid := saveL_trees_id (fun nodes => c.hash (treeBytes s j nodes)) c.hash chunks noTree src p hp
    have := hread (BT.tree, treeBytes s j p.2) (List.mem_append_left _ (List.mem_map.mpr ⟨p, by
      rw [htrees]; exact List.mem_append_left _ hp, rfl⟩))
    rw [hid]
    exact this
  · intro ch hc
    exact hread (BT.data, ch) (List.mem_append_right _ (List.mem_map.mpr ⟨ch, hc, rfl⟩))

open Rustic.Store Rustic.Archive in
/-- the repository a run leaves behind satisfies the restore invariant (used by (7) and (10)) -/
theorem run_repoOK (c : Cfg) (blobs : List (BT × RoundTrip.Bytes)) (k : Conc) (evs : List Ev) (hr : RunOK c blobs k evs) :
    RepoOK c (packsOf k (finalizeAll (runEvs Rustic.Props.C07.init evs)))
      (indexedOf c k (finalizeAll (runEvs Rustic.Props.C07.init evs))) := by
  have hkey : ∀ key ∈ entered evs, c.hash (k.content key) = key.2 ∧ ∃ b ∈ blobs, b.2 = k.content key := by
    intro key hk
    rw [hr.content]
    exact contentOf_key c.hash blobs key ((hr.entered key).mp hk)
  exact pipeline_repoOK c k evs hr.packId hr.nonce
    (fun key hk => by
      obtain ⟨_, b, hb, he⟩ := hkey key hk
      exact Or.inl (he ▸ hr.nonempty b hb))
    (fun key hk => (hkey key hk).1)

open Rustic.Store Rustic.Archive Rustic.Snapshot Rustic.Tree in
/-- (10) **… also into a repository that already holds data** (de-duplication against the global index).  `old` /
`oldFiles`: any repository satisfying `RepoOK`; the archiver consults ANY index loaded from it (`idxOld`, any mode — backup
uses `DataIds`) through `has_data` / `has_tree` and hands over only what it lacks; the new packs are added
(`old ++ packsOf …`), the index files old and new are loaded together.  With collision-free pack ids and no hash collision
between a plaintext already stored and another byte string, restoring the new snapshot yields exactly `src` — chunks and
trees that were NOT uploaded because the index knew them are read from the old packs. -/
theorem archive_restore_incremental (c : Cfg) (s : Str) (hs : StrOK s) (j : Ser) (chunks : RoundTrip.Bytes → List RoundTrip.Bytes)
    (hch : ∀ d, (chunks d).flatten = d)
    (src : List STree) (hwf : WFL src) (hwalk : WalkableL src)
    (old : List BuiltPack) (oldFiles : List Rustic.Index.IndexFile)
    (hold : RepoOK c old (Rustic.Index.unmarked oldFiles))
    (m : Rustic.Index.IndexType) (idxOld : Rustic.Index.Index) (hlOld : Rustic.Props.C17.Loaded m oldFiles idxOld)
    (o : Rustic.Parent.Opts) (load : Id → Option (List Node)) (a : ArchOut)
    (ha : archive (fun nodes => c.hash (treeBytes s j nodes)) (fun d => (chunks d).map c.hash) List.length load
      (idxOld.has .data) (idxOld.has .tree) o [] (treeItems (entriesL [] src)) = some a)
    (k : Conc) (evs : List Ev)
    (hr : RunOK c (a.treeAdds.map (fun t => (BT.tree, treeBytes s j t.2)) ++
      ((saveL (fun nodes => c.hash (treeBytes s j nodes)) c.hash chunks (idxOld.has .tree) src).chunks.filter
        (fun ch => !idxOld.has .data (c.hash ch))).map (fun ch => (BT.data, ch))) k evs)
    (hids : ∀ q ∈ old, ∀ p, q.id ≠ k.packId p)
    (hcoll : ∀ q ∈ old, ∀ x ∈ q.adds, ∀ y : RoundTrip.Bytes, c.hash x.data = c.hash y → x.data = y)
    (files : List Rustic.Index.IndexFile)
    (hfiles : ∀ p, p ∈ Rustic.Index.unmarked files ↔ p ∈ Rustic.Index.unmarked oldFiles ∨
      p ∈ indexedOf c k (finalizeAll (runEvs Rustic.Props.C07.init evs)))
    (idx : Rustic.Index.Index) (hl : Rustic.Props.C17.Loaded .full files idx)
    (order : List Write → List Write) (ho : ∀ l w, w ∈ order l ↔ w ∈ l) :
    restoreTrees s j
      (readBlob c idx (backendGet c (old ++ packsOf k (finalizeAll (runEvs Rustic.Props.C07.init evs)))) .tree)
      (readBlob c idx (backendGet c (old ++ packsOf k (finalizeAll (runEvs Rustic.Props.C07.init evs)))) .data)
      order (depthL src + 1) a.root = some src := by
  rw [tree_iterator_items src hwalk] at ha
  obtain ⟨a', ha', hroot, htrees, _⟩ := archive_eq_save (fun nodes => c.hash (treeBytes s j nodes)) c.hash chunks load
    (idxOld.has .data) (idxOld.has .tree) o src
  rw [ha] at ha'
  injection ha' with ha'
  subst ha'
  have hnew := run_repoOK c _ k evs hr
  have hall : RepoOK c (old ++ packsOf k (finalizeAll (runEvs Rustic.Props.C07.init evs))) (Rustic.Index.unmarked files) := by
    refine (RepoOK.append hold hnew ?_ ?_).of_mem_iff (fun p => by rw [hfiles p, List.mem_append])
    · intro q hq q' hq'
      obtain ⟨p, _, rfl⟩ := List.mem_map.mp hq'
      exact hids q hq p
    · intro q hq q' _ _ x hx x' _ hh
      exact hcoll q hq x hx x'.data hh
  -- what the run uploaded reads back from the new packs
  have hreadNew : ∀ b ∈ (a.treeAdds.map (fun t => (BT.tree, treeBytes s j t.2)) ++
      ((saveL (fun nodes => c.hash (treeBytes s j nodes)) c.hash chunks (idxOld.has .tree) src).chunks.filter
        (fun ch => !idxOld.has .data (c.hash ch))).map (fun ch => (BT.data, ch))),
      readBlob c idx (backendGet c (old ++ packsOf k (finalizeAll (runEvs Rustic.Props.C07.init evs))))
        (toBlobType b.1) (c.hash b.2) = some b.2 := by
    intro b hb
    have hent : (b.1, c.hash b.2) ∈ entered evs := (hr.entered _).mpr (List.mem_map.mpr ⟨b, hb, rfl⟩)
    obtain ⟨q, hq, hty, x, hx, hdata⟩ := entered_is_added k evs _ hent
    have hcont : k.content (b.1, c.hash b.2) = b.2 := by rw [hr.content]; exact contentOf_spec c.hash _ hr.inj b hb
    have := blob_read_back c _ files hall idx hl q (List.mem_append_right _ hq) x hx
    rw [hdata, hcont, hty] at this
    exact this
  -- what the old index knew reads back from the old packs
  have hreadOld : ∀ (t : Rustic.Pack.BlobType) (y : RoundTrip.Bytes), idxOld.has t (c.hash y) = true →
      readBlob c idx (backendGet c (old ++ packsOf k (finalizeAll (runEvs Rustic.Props.C07.init evs)))) t (c.hash y) = some y := by
    intro t y hh
    obtain ⟨q, hq, hty, x, hx, hxh⟩ := has_is_added c old oldFiles hold m idxOld hlOld t (c.hash y) hh
    have hxy := hcoll q hq x hx y hxh
    have := blob_read_back c _ files hall idx hl q (List.mem_append_left _ hq) x hx
    rw [hxy, hty] at this
    exact this
  rw [hroot]
  refine restore_of_saved_gen s hs j (fun nodes => c.hash (treeBytes s j nodes)) c.hash chunks hch (idxOld.has .tree)
    (readBlob c idx (backendGet c (old ++ packsOf k (finalizeAll (runEvs Rustic.Props.C07.init evs)))) .tree)
    (readBlob c idx (backendGet c (old ++ packsOf k (finalizeAll (runEvs Rustic.Props.C07.init evs)))) .data)
    order ho src hwf (fun nodes hh => hreadOld .tree _ hh) ?_ ?_ ?_
  · by_cases hh : idxOld.has .tree (c.hash (treeBytes s j
        (saveL (fun nodes => c.hash (treeBytes s j nodes)) c.hash chunks (idxOld.has .tree) src).nodes)) = true
    · exact hreadOld .tree _ hh
    · simp only [hh, Bool.false_eq_true, if_false] at htrees
      exact hreadNew (BT.tree, _) (List.mem_append_left _ (List.mem_map.mpr ⟨(_, _), by
        rw [htrees]; exact List.mem_append_right _ (List.mem_singleton.mpr rfl), rfl⟩))
  · intro p hp
    have hid := saveL_trees_id (fun nodes => c.hash (treeBytes s j nodes)) c.hash chunks (idxOld.has .tree) src p hp
    have := hreadNew (BT.tree, treeBytes s j p.2) (List.mem_append_left _ (List.mem_map.mpr ⟨p, by
      rw [htrees]; exact List.mem_append_left _ hp, rfl⟩))
    rw [hid]
    exact this
  · intro ch hc
    by_cases hh : idxOld.has .data (c.hash ch) = true
    · exact hreadOld .data ch hh
    · exact hreadNew (BT.data, ch) (List.mem_append_right _ (List.mem_map.mpr
        ⟨ch, List.mem_filter.mpr ⟨hc, by simpa using hh⟩, rfl⟩))

open Rustic.Store Rustic.Snapshot Rustic.Tree in
/-- (11) **Restore does not depend on how the repository stores the blobs.**  ANY repository satisfying `RepoOK` — any key,
compression setting, pack sizes, distribution of blobs over packs, duplicates, any split into index files, any index the
loader builds — that holds the tree blobs and chunks of the snapshot of `src` (each as the plaintext of some add of a pack
of the right type) restores the snapshot's root id to exactly `src`.  (This is the second half of the copy clause of C12:
`copy_restores_same` shows the destination holds every reachable blob; here that suffices, whatever key / compression /
pack size the destination uses.) -/
theorem restore_from_any_repository (c : Cfg) (s : Str) (hs : StrOK s) (j : Ser) (chunks : RoundTrip.Bytes → List RoundTrip.Bytes)
    (hch : ∀ d, (chunks d).flatten = d) (src : List STree) (hwf : WFL src)
    (packs : List BuiltPack) (files : List Rustic.Index.IndexFile) (hok : RepoOK c packs (Rustic.Index.unmarked files))
    (idx : Rustic.Index.Index) (hl : Rustic.Props.C17.Loaded .full files idx)
    (hroot : ∃ q ∈ packs, q.tpe = .tree ∧ ∃ x ∈ q.adds,
      x.data = treeBytes s j (saveL (fun nodes => c.hash (treeBytes s j nodes)) c.hash chunks noTree src).nodes)
    (htrees : ∀ p ∈ (saveL (fun nodes => c.hash (treeBytes s j nodes)) c.hash chunks noTree src).trees,
      ∃ q ∈ packs, q.tpe = .tree ∧ ∃ x ∈ q.adds, x.data = treeBytes s j p.2)
    (hdata : ∀ ch ∈ (saveL (fun nodes => c.hash (treeBytes s j nodes)) c.hash chunks noTree src).chunks,
      ∃ q ∈ packs, q.tpe = .data ∧ ∃ x ∈ q.adds, x.data = ch)
    (order : List Write → List Write) (ho : ∀ l w, w ∈ order l ↔ w ∈ l) :
    restoreTrees s j (readBlob c idx (backendGet c packs) .tree) (readBlob c idx (backendGet c packs) .data) order
      (depthL src + 1) (c.hash (treeBytes s j (saveL (fun nodes => c.hash (treeBytes s j nodes)) c.hash chunks noTree src).nodes))
      = some src := by
  have hread : ∀ (t : Rustic.Pack.BlobType) (y : RoundTrip.Bytes), (∃ q ∈ packs, q.tpe = t ∧ ∃ x ∈ q.adds, x.data = y) →
      readBlob c idx (backendGet c packs) t (c.hash y) = some y := by
    rintro t y ⟨q, hq, hty, x, hx, rfl⟩
    rw [← hty]
    exact blob_read_back c packs files hok idx hl q hq x hx
  refine restore_of_saved s hs j (fun nodes => c.hash (treeBytes s j nodes)) c.hash chunks hch
    (readBlob c idx (backendGet c packs) .tree) (readBlob c idx (backendGet c packs) .data) order ho src hwf ?_ ?_ ?_
  · exact hread .tree _ hroot
  · intro p hp
    have hid := saveL_trees_id (fun nodes => c.hash (treeBytes s j nodes)) c.hash chunks noTree src p hp
    rw [hid]
    exact hread .tree _ (htrees p hp)
  · intro ch hc
    exact hread .data ch (hdata ch hc)

open Rustic.Store in
/-- (12) **The index files the `Indexer` writes list exactly the packs it was given** — `add_with` saves the current file
BEFORE resetting it when the blob count reaches `MAX_COUNT` (any threshold `maxCount`) or the file is older than `MAX_AGE`
(`aged`: any schedule of age-triggered flushes), `finalize` saves the rest: nothing is lost at a flush, nothing is listed
twice, order kept.  So the hypothesis `hfiles` of (7)–(10) holds for the files of the run's indexer
(`indexer_files_satisfy_hfiles`). -/
theorem indexer_files_list_every_pack (maxCount : Nat) (adds : List (Rustic.Index.IndexPack × Bool)) :
    Rustic.Index.unmarked (Ixr.run maxCount adds).saved = adds.map (·.1) :=
  ixr_run_unmarked maxCount adds

open Rustic.Store Rustic.Archive in
theorem indexer_files_satisfy_hfiles (c : Cfg) (k : Conc) (s : PSt) (maxCount : Nat) (aged : List Bool)
    (hlen : aged.length = (indexedOf c k s).length) :
    ∀ p, p ∈ Rustic.Index.unmarked (Ixr.run maxCount ((indexedOf c k s).zip aged)).saved ↔ p ∈ indexedOf c k s := by
  intro p
  rw [indexer_files_list_every_pack, List.map_fst_zip (by omega)]

open Rustic.Snapshot Rustic.Tree in
/-- (14) **Every listed path is found BY PATH and yields the listed node.**  `Tree::node_from_path` (`lookupPath`: per path
component `Tree::from_backend` of the current subtree and a LINEAR search for the first node whose UN-ESCAPED name equals the
component — the entry point of `snapshot:path`, `Repository::node_from_path`, `Vfs`, hence of dump / `read_file_at` / sub-path
ls / sub-path restore) on ANY repository: if the restore walk below tree `id` reads the forest `forest` (sibling names pairwise
different, as on every file system), then for EVERY entry `(path, t)` of its recursive listing the lookup succeeds — never "not
found", never "not a directory" — and the node it returns is the node the walk restored `t` from: name, type, link target and
metadata are `t`'s, its content ids assemble to `t`'s bytes, its subtree restores to `t`'s children.  Names are arbitrary bytes
(quotes, backslashes, control characters, invalid UTF-8): the comparison is on un-escaped names, no order of the escaped
strings is used. -/
theorem path_lookup_finds_every_listed_entry (s : Str) (j : Ser) (getTree getData : Id → Option RoundTrip.Bytes)
    (order : List Write → List Write) (fuel : Nat) (id : Id) (forest : List STree)
    (hr : restoreTrees s j getTree getData order fuel id = some forest) (hd : DistinctL forest) :
    ∀ pt ∈ pathsL forest, ∃ n k, lookupPath s j getTree id pt.1 = some n ∧
      restoreNode getData order (restoreTrees s j getTree getData order k) n = some pt.2 := by
  intro pt hpt
  exact lookup_of_restore s j getTree getData order pt.1 fuel id forest (rootNode id) pt.2 rfl hr
    (listed_foundL forest hd pt hpt)

open Rustic.Store Rustic.Archive Rustic.Snapshot Rustic.Tree in
/-- (15) (9) + (14): after a backup of `src` (hypotheses of `archive_restore`, sibling names pairwise different) every entry of
the source is found by its path in the snapshot and reads back, through the node found, as the source entry. -/
theorem archive_lookup_by_path (c : Cfg) (s : Str) (hs : StrOK s) (j : Ser) (chunks : RoundTrip.Bytes → List RoundTrip.Bytes)
    (hch : ∀ d, (chunks d).flatten = d)
    (src : List STree) (hwf : WFL src) (hwalk : WalkableL src) (hd : DistinctL src)
    (o : Rustic.Parent.Opts) (load : Id → Option (List Node)) (a : ArchOut)
    (ha : archive (fun nodes => c.hash (treeBytes s j nodes)) (fun d => (chunks d).map c.hash) List.length load
      (fun _ => false) noTree o [] (treeItems (entriesL [] src)) = some a)
    (k : Conc) (evs : List Ev)
    (hr : RunOK c (a.treeAdds.map (fun t => (BT.tree, treeBytes s j t.2)) ++
      (saveL (fun nodes => c.hash (treeBytes s j nodes)) c.hash chunks noTree src).chunks.map (fun ch => (BT.data, ch))) k evs)
    (files : List Rustic.Index.IndexFile)
    (hfiles : ∀ p, p ∈ Rustic.Index.unmarked files ↔ p ∈ indexedOf c k (finalizeAll (runEvs Rustic.Props.C07.init evs)))
    (idx : Rustic.Index.Index) (hl : Rustic.Props.C17.Loaded .full files idx)
    (order : List Write → List Write) (ho : ∀ l w, w ∈ order l ↔ w ∈ l) :
    ∀ pt ∈ pathsL src, ∃ n fuel,
      lookupPath s j (readBlob c idx (backendGet c (packsOf k (finalizeAll (runEvs Rustic.Props.C07.init evs)))) .tree)
        a.root pt.1 = some n ∧
      restoreNode (readBlob c idx (backendGet c (packsOf k (finalizeAll (runEvs Rustic.Props.C07.init evs)))) .data) order
        (restoreTrees s j
          (readBlob c idx (backendGet c (packsOf k (finalizeAll (runEvs Rustic.Props.C07.init evs)))) .tree)
          (readBlob c idx (backendGet c (packsOf k (finalizeAll (runEvs Rustic.Props.C07.init evs)))) .data) order fuel) n
        = some pt.2 :=
  path_lookup_finds_every_listed_entry s j _ _ order _ a.root src
    (archive_restore c s hs j chunks hch src hwf hwalk o load a ha k evs hr files hfiles idx hl order ho) hd

open Rustic.Store Rustic.Archive Rustic.Snapshot Rustic.Tree in
/-- (15') (10) + (14): the same for a backup INTO a repository that already holds data — entries whose chunks / trees were not
uploaded because the index knew them are found by path as well and read back from the old packs. -/
theorem archive_lookup_by_path_incremental (c : Cfg) (s : Str) (hs : StrOK s) (j : Ser)
    (chunks : RoundTrip.Bytes → List RoundTrip.Bytes) (hch : ∀ d, (chunks d).flatten = d)
    (src : List STree) (hwf : WFL src) (hwalk : WalkableL src) (hd : DistinctL src)
    (old : List BuiltPack) (oldFiles : List Rustic.Index.IndexFile)
    (hold : RepoOK c old (Rustic.Index.unmarked oldFiles))
    (m : Rustic.Index.IndexType) (idxOld : Rustic.Index.Index) (hlOld : Rustic.Props.C17.Loaded m oldFiles idxOld)
    (o : Rustic.Parent.Opts) (load : Id → Option (List Node)) (a : ArchOut)
    (ha : archive (fun nodes => c.hash (treeBytes s j nodes)) (fun d => (chunks d).map c.hash) List.length load
      (idxOld.has .data) (idxOld.has .tree) o [] (treeItems (entriesL [] src)) = some a)
    (k : Conc) (evs : List Ev)
    (hr : RunOK c (a.treeAdds.map (fun t => (BT.tree, treeBytes s j t.2)) ++
      ((saveL (fun nodes => c.hash (treeBytes s j nodes)) c.hash chunks (idxOld.has .tree) src).chunks.filter
        (fun ch => !idxOld.has .data (c.hash ch))).map (fun ch => (BT.data, ch))) k evs)
    (hids : ∀ q ∈ old, ∀ p, q.id ≠ k.packId p)
    (hcoll : ∀ q ∈ old, ∀ x ∈ q.adds, ∀ y : RoundTrip.Bytes, c.hash x.data = c.hash y → x.data = y)
    (files : List Rustic.Index.IndexFile)
    (hfiles : ∀ p, p ∈ Rustic.Index.unmarked files ↔ p ∈ Rustic.Index.unmarked oldFiles ∨
      p ∈ indexedOf c k (finalizeAll (runEvs Rustic.Props.C07.init evs)))
    (idx : Rustic.Index.Index) (hl : Rustic.Props.C17.Loaded .full files idx)
    (order : List Write → List Write) (ho : ∀ l w, w ∈ order l ↔ w ∈ l) :
    ∀ pt ∈ pathsL src, ∃ n fuel,
      lookupPath s j (readBlob c idx (backendGet c (old ++ packsOf k (finalizeAll (runEvs Rustic.Props.C07.init evs)))) .tree)
        a.root pt.1 = some n ∧
      restoreNode (readBlob c idx (backendGet c (old ++ packsOf k (finalizeAll (runEvs Rustic.Props.C07.init evs)))) .data) order
        (restoreTrees s j
          (readBlob c idx (backendGet c (old ++ packsOf k (finalizeAll (runEvs Rustic.Props.C07.init evs)))) .tree)
          (readBlob c idx (backendGet c (old ++ packsOf k (finalizeAll (runEvs Rustic.Props.C07.init evs)))) .data) order fuel) n
        = some pt.2 :=
  path_lookup_finds_every_listed_entry s j _ _ order _ a.root src
    (archive_restore_incremental c s hs j chunks hch src hwf hwalk old oldFiles hold m idxOld hlOld o load a ha k evs hr hids hcoll
      files hfiles idx hl order ho) hd

open Rustic.Store Rustic.Snapshot Rustic.Tree in
/-- (15'') (11) + (14): by-path access does not depend on how the repository stores the blobs either (any key, compression,
pack sizes, duplicates, index split — e.g. the destination of a copy, a pruned or repacked repository). -/
theorem lookup_by_path_from_any_repository (c : Cfg) (s : Str) (hs : StrOK s) (j : Ser)
    (chunks : RoundTrip.Bytes → List RoundTrip.Bytes) (hch : ∀ d, (chunks d).flatten = d)
    (src : List STree) (hwf : WFL src) (hd : DistinctL src)
    (packs : List BuiltPack) (files : List Rustic.Index.IndexFile) (hok : RepoOK c packs (Rustic.Index.unmarked files))
    (idx : Rustic.Index.Index) (hl : Rustic.Props.C17.Loaded .full files idx)
    (hroot : ∃ q ∈ packs, q.tpe = .tree ∧ ∃ x ∈ q.adds,
      x.data = treeBytes s j (saveL (fun nodes => c.hash (treeBytes s j nodes)) c.hash chunks noTree src).nodes)
    (htrees : ∀ p ∈ (saveL (fun nodes => c.hash (treeBytes s j nodes)) c.hash chunks noTree src).trees,
      ∃ q ∈ packs, q.tpe = .tree ∧ ∃ x ∈ q.adds, x.data = treeBytes s j p.2)
    (hdata : ∀ ch ∈ (saveL (fun nodes => c.hash (treeBytes s j nodes)) c.hash chunks noTree src).chunks,
      ∃ q ∈ packs, q.tpe = .data ∧ ∃ x ∈ q.adds, x.data = ch)
    (order : List Write → List Write) (ho : ∀ l w, w ∈ order l ↔ w ∈ l) :
    ∀ pt ∈ pathsL src, ∃ n fuel,
      lookupPath s j (readBlob c idx (backendGet c packs) .tree)
        (c.hash (treeBytes s j (saveL (fun nodes => c.hash (treeBytes s j nodes)) c.hash chunks noTree src).nodes)) pt.1 = some n ∧
      restoreNode (readBlob c idx (backendGet c packs) .data) order
        (restoreTrees s j (readBlob c idx (backendGet c packs) .tree) (readBlob c idx (backendGet c packs) .data) order fuel) n
        = some pt.2 :=
  path_lookup_finds_every_listed_entry s j _ _ order _ _ src
    (restore_from_any_repository c s hs j chunks hch src hwf packs files hok idx hl hroot htrees hdata order ho) hd

open Rustic.Snapshot in
/-- (16) why the lookup must not search the ESCAPED names by bisection (seeded change C01-5): trees are sorted by the un-escaped
name; escaping inserts `\` (0x5c), so the escaped names of the byte-sorted directory `a!`, `a"z`, `a#` are NOT sorted and a
binary search for the plain name `a#` misses it, while the linear search of `lookupStep` finds it at index 2. -/
theorem binary_search_on_escaped_names_misses :
    let names : List (List Item) := [[.ch 'a', .ch '!'], [.ch 'a', .ch '"', .ch 'z'], [.ch 'a', .ch '#']]
    let esc := names.map escape
    bsearch esc.toArray (escape [.ch 'a', .ch '#']) 3 0 3 = none ∧
    esc.findIdx? (· == escape [.ch 'a', .ch '#']) = some 2 := by
  decide

/-- (13) **Restored times are exact.**  The `timespec` `LocalDestination::set_times` writes for a snapshot timestamp (jiff:
seconds truncated toward zero, sub-second part with the sign of the instant) denotes exactly the same instant, in normal form
(whole seconds rounded down, nanoseconds in `[0, 10^9)`) — before and after the epoch, with any sub-second part — and reading
it back as a timestamp gives the snapshot's timestamp. -/
theorem restored_time_is_exact (t : Rustic.Times.JTime) (h : t.WF) :
    (Rustic.Times.toFileTime t).1 * Rustic.Times.NS + (Rustic.Times.toFileTime t).2 = t.nanos ∧
    0 ≤ (Rustic.Times.toFileTime t).2 ∧ (Rustic.Times.toFileTime t).2 < Rustic.Times.NS ∧
    Rustic.Times.ofFileTime (Rustic.Times.toFileTime t).1 (Rustic.Times.toFileTime t).2 = t :=
  ⟨(Rustic.Times.toFileTime_exact t h).1, (Rustic.Times.toFileTime_exact t h).2.1, (Rustic.Times.toFileTime_exact t h).2.2,
   Rustic.Times.ofFileTime_toFileTime t h⟩

/-! non-vacuity -/

example : EncAscii (fun c => if c.toNat < 128 then [UInt8.ofNat c.toNat] else [0xc3, 0xa9]) :=
  ⟨fun c h => by simp [h]⟩

example : escape [.ch 'a', .ch '"', .bad 0xff, .ch '\\'] = ['a', '\\', '"', '\\', 'x', 'f', 'f', '\\', '\\'] := by
  decide

example : readAt 1000 [2, 3] [[1, 2], [3, 4, 5]] 1 3 = [2, 3, 4] := by decide

example : (coalesceAll 4 100 [⟨0, 10⟩, ⟨12, 5⟩, ⟨40, 3⟩]).map (fun g => (g.offset, g.length, g.blobs.length))
    = [(0, 17, 2), (40, 3, 1)] := by decide

/-! non-vacuity of the composition: a toy instance of every structure, and a concrete run evaluated -/

/-- identity "encryption" with a constant tag, identity "compression": the structure hypotheses are satisfiable -/
def toyAE : Rustic.Codec.AE :=
  { Key := Unit, enc := fun _ _ m => m, dec := fun _ _ m => m, tag := fun _ _ _ => List.replicate 16 0
    enc_len := fun _ _ _ => rfl, dec_enc := fun _ _ _ => rfl, enc_dec := fun _ _ _ => rfl
    tag_len := fun _ _ _ => by simp }
def toyZ : Rustic.Codec.Zstd := { compress := id, decompress := some, round := fun _ => rfl }
def toyCfg : Rustic.Store.Cfg :=
  { ae := toyAE, z := toyZ, key := (), zstdOn := true, hash := fun b => b.foldl (fun a x => a * 257 + x.toNat + 1) 0 }
def toyConc (blobs : List (Rustic.Archive.BT × Bytes)) : Rustic.Store.Conc :=
  concOf toyCfg.hash blobs (fun _ => List.replicate 16 7) (fun _ => List.replicate 16 9)
    (fun p => p.2.foldl (fun a x => a * 1000003 + x + 1) (if p.1 = .data then 1 else 2))
def toyBlobs : List (Rustic.Archive.BT × Bytes) := [(.data, [1, 2, 3]), (.tree, [1, 2, 3]), (.data, [9])]
/-- a schedule with a duplicate add, a tree with the id of a chunk, an early flush, delayed indexing -/
def toyEvs : List Rustic.Archive.Ev :=
  [.enter .data 132873, .commit .data, .flush .data, .enter .tree 132873, .write .data, .enter .data 132873, .enter .data 10,
   .commit .tree, .idx .data, .commit .data]

example : toyBlobs.map (fun b => toyCfg.hash b.2) = [132873, 132873, 10] := by decide

open Rustic.Store Rustic.Archive in
example :
    let st := finalizeAll (runEvs Rustic.Props.C07.init toyEvs)
    let files : List Rustic.Index.IndexFile := [{ packs := indexedOf toyCfg (toyConc toyBlobs) st, packsToDelete := [] }]
    st.packs = [(.data, [132873]), (.data, [10]), (.tree, [132873])] ∧
    toyBlobs.map (fun b => readBlob toyCfg (Rustic.Index.load .full files) (backendGet toyCfg (packsOf (toyConc toyBlobs) st))
      (toBlobType b.1) (toyCfg.hash b.2)) = toyBlobs.map (fun b => some b.2) := by
  decide

/-- `StrOK` is satisfiable (every byte cut as "invalid" is a legal cutting for the theorem; ASCII-preserving encoder) -/
example : Rustic.Snapshot.StrOK
    { cut := fun b => b.map Item.bad
      lossy := fun _ => []
      enc := fun c => if c.toNat < 128 then [UInt8.ofNat c.toNat] else [0xc3, 0xa9] } :=
  ⟨⟨fun c h => by simp [h]⟩, fun b => by induction b <;> simp_all [itemBytes]⟩

open Rustic.Snapshot Rustic.Tree in
/-- a forest with a file, a directory holding a symlink with a non-UTF-8 target and an empty directory: the iterator's
items, and what the archiver computes for it -/
def toySrc : List STree :=
  [.leaf { name := [97], kind := .file, md := { size := 3, mtime := some 5, ctime := none, inode := 1 } } [1, 2, 3],
   .dir { name := [98], kind := .dir, md := { size := 0, mtime := some 6, ctime := none, inode := 2 } }
     [.leaf { name := [0xff], kind := .symlink [0xfe, 0x2f], md := { size := 0, mtime := none, ctime := none, inode := 3 } } [],
      .dir { name := [99], kind := .dir, md := { size := 0, mtime := some 7, ctime := none, inode := 4 } } []]]

open Rustic.Snapshot Rustic.Tree in
example : WFL toySrc ∧ WalkableL toySrc ∧ depthL toySrc = 2 ∧ (treeItems (entriesL [] toySrc)).length = 6 ∧
    (saveL (fun ns => ns.length) (fun b => b.length) (fun d => [d]) noTree toySrc).trees.map (·.2.length) = [0, 2] := by
  refine ⟨by simp [toySrc, WFL, STree.WF], by simp [toySrc, WalkableL, STree.Walkable, Node.isDir], by decide, by decide, by decide⟩

open Rustic.Snapshot Rustic.Tree in
/-- the toy forest has pairwise different sibling names; its listing has four paths, each resolved to its own entry -/
example : DistinctL toySrc ∧ (pathsL toySrc).map (·.1) = [[[97]], [[98]], [[98], [0xff]], [[98], [99]]] ∧
    (pathsL toySrc).all (fun pt => (findL toySrc pt.1).map (·.node.name) == some pt.2.node.name) = true := by
  refine ⟨by simp [toySrc, DistinctL, STree.Distinct, STree.node], by decide, by decide⟩

open Rustic.Snapshot Rustic.Tree Rustic.Archive in
/-- (17) **The size a node records is not a hypothesis of the round trip.**  The well-formedness that (9)–(11), (15) ask of a source
forest does not look at `md.size`: a file leaf stays well-formed under ANY recorded size (0 = a stdin-style node — `backup -`,
`--stdin-command`, block device saved as file —, smaller = grown after `stat`, larger = shrunk), so `archive_restore` restores such a
leaf to the same node (the recorded size included) and to the bytes that were READ.  (Restoring over an EXISTING destination is not part
of the model: there the empty-file shortcut of `RestorePlan::add_file` trusted `meta.size == 0` — defect 74f8f4f, found by the
`S:` entries of `c01 e2e`.) -/
theorem leaf_wf_any_recorded_size (n : Node) (d : RoundTrip.Bytes) (sz : Nat) (h : (STree.leaf n d).WF) :
    (STree.leaf (withSize n sz) d).WF := by
  simpa [STree.WF, withSize] using h

open Rustic.Snapshot Rustic.Tree Rustic.Archive in
/-- a stdin-style leaf: 3 bytes behind a node recording size 0 is a well-formed, walkable source forest; what the archiver saves for
it refers to the chunk of its 3 bytes -/
example :
    let n : Node := { name := [115], kind := .file, md := { size := 0, mtime := none, ctime := none, inode := 0 } }
    WFL [.leaf n [1, 2, 3]] ∧ WalkableL [.leaf n [1, 2, 3]] ∧
    (saveL (fun ns => ns.length) (fun b => b.length) (fun d => [d]) noTree [.leaf n [1, 2, 3]]).chunks = [[1, 2, 3]] := by
  refine ⟨by simp [WFL, STree.WF], by simp [WalkableL, STree.Walkable], by decide⟩

/-- the indexer flushing after every 3 blobs and once by age: three index files, every pack listed once -/
example :
    let p (i n : Nat) : Rustic.Index.IndexPack :=
      { id := i, size := none, blobs := (List.range n).map fun b => { id := 10 * i + b, tpe := .data, loc := ⟨0, 1, none⟩ } }
    let r := Rustic.Store.Ixr.run 3 [(p 1 2, false), (p 2 2, false), (p 3 1, true), (p 4 1, false)]
    r.saved.map (fun f => f.packs.map (·.id)) = [[1, 2], [3], [4]] := by decide

/-- −1.25 s is (−1, −250 000 000) for jiff and (−2, 750 000 000) as a `timespec` -/
example : Rustic.Times.toFileTime ⟨-1, -250000000⟩ = (-2, 750000000) ∧ (⟨-1, -250000000⟩ : Rustic.Times.JTime).WF := by
  refine ⟨by decide, by unfold Rustic.Times.JTime.WF Rustic.Times.NS; simp⟩

end Rustic.Props.C01
