/-
C01 — Backup followed by restore reproduces the source exactly (compositional).

Component models: `Rustic/Model/RoundTrip.lean` (file-name escaping `backend/node.rs`, ranged reads `vfs.rs`,
coalesced pack reads `blob.rs`, positional restore writes `commands/restore.rs`, the content path of a file) and
the chunker `Rustic/Model/Chunker.lean` (C06).  Every statement is for all inputs: all names (every cutting into
valid characters and invalid bytes), all blob lists, offsets and lengths (also past the end), all sorted location
lists, all write orders, all byte streams and chunker parameters, all read-fragmentation schedules.

FULL STATEMENT (whole pipeline incl. the packer / indexer / codecs): restore (archive cfg store src sched) = src.
Proved here (`backup_restore_file_partial`): the composition for the name and the content of an entry, *given*
that every chunk the archiver hands to the packer can be read back from the repository by its id
(`StoreFaithful`).  That hypothesis is where the unmodelled parts live: blob/file codecs (AES, zstd, serde —
trusted), pack/index formats (C08, C17) and the packer's dedup filters, whose untyped `Indexer.indexed` set loses
a tree blob equal to an already indexed data chunk (DESIGN §7 #7; witness replayed on the real code in C12,
corpus/C12/copy_collision.ops; being repaired by another builder).  The end-to-end oracle of the correspondence
run exercises the whole real pipeline.
-/
import Rustic.Lemmas.RoundTrip
import Rustic.Props.C06
namespace Rustic.Props.C01
open Rustic.RoundTrip

/-- (1) File names: `unescape (escape n) = n` for every name, whatever bytes it has. -/
theorem unescape_escape (enc : Char → Bytes) (he : EncAscii enc) (items : List Item) :
    unescape enc (escape items) = some (items.flatMap (itemBytes enc)) :=
  unescape_escape' enc he items

/-- (2) `OpenFile::read_at` with `ContentStartpoints`: exactly the requested range of the concatenation of the
file's blobs — for every offset and length, also reaching or lying past the end. -/
theorem readAt_spec (maxv : Nat) (blobs : List Bytes) (offset len : Nat) (hm : offset < maxv) :
    readAt maxv (blobs.map List.length) blobs offset len = (blobs.flatten.drop offset).take len :=
  readAt_eq maxv blobs offset len hm

/-- (3) Coalesced pack reads (restore, copy, prune repack): every location lands in exactly one group, in
order, and the sub-slice taken for it out of the group's single read is the blob's own byte range of the pack. -/
theorem coalesce_slice_ok (hole limit : Nat) (locs : List Loc) (pack : Bytes) :
    (coalesceAll hole limit locs).flatMap (·.blobs) = locs ∧
    ∀ g ∈ coalesceAll hole limit locs, ∀ bl ∈ g.blobs,
      sliceOf pack g bl = (pack.drop bl.offset).take bl.length := by
  cases locs with
  | nil => simp [coalesceAll]
  | cons o l =>
    refine ⟨by simp [coalesceAll, coalesceFrom_blobs, Group.single], fun g hg bl hbl => ?_⟩
    have := coalesceFrom_inv hole limit l (Group.single o) (inv_single o) g hg bl hbl
    exact slice_eq this.1 this.2

/-- (4) Restore writes in any order: performing the positional writes of a file's blobs in any order (even
repeatedly) on the zero-filled file yields the concatenation of the blobs. -/
theorem restore_writes_any_order (cs : List Bytes) (ws : List Write) (h : ∀ w, w ∈ ws ↔ w ∈ positions 0 cs) :
    (applyWrites (zeros (totalLen cs)) ws).bytes = cs.flatten :=
  writes_any_order cs ws h

/-- every chunk handed to the packer can be read back by its id (codecs, pack and index formats, dedup filters) -/
def StoreFaithful (hash : Bytes → Nat) (chunks : List Bytes) (store : Nat → Option Bytes) : Prop :=
  ∀ c ∈ chunks, store (hash c) = some c

/-- (5) Composition for one entry: the name is escaped into the tree and un-escaped on the way back; the content
is chunked (rabin, any parameters accepted by `WFp`, any reader fragmentation), the ids go into the node, restore
looks them up and writes them at the running positions in any order — and the entry comes back exactly. -/
theorem backup_restore_file_partial {σ : Type} (enc : Char → Bytes) (he : EncAscii enc) (name : List Item)
    (r : Rustic.Chunker.Roll σ) (p : Rustic.Chunker.Params) (hp : Rustic.Props.C06.WFp p) (bufSize : Nat)
    (hb : 0 < bufSize) (input : Bytes) (sched : List Rustic.Chunker.Ev)
    (hash : Bytes → Nat) (store : Nat → Option Bytes)
    (hs : StoreFaithful hash (Rustic.Props.C06.chunksOf r p bufSize input sched) store)
    (order : List Write → List Write) (ho : ∀ l w, w ∈ order l ↔ w ∈ l) :
    unescape enc (escape name) = some (name.flatMap (itemBytes enc)) ∧
    (restoreFile store ((Rustic.Props.C06.chunksOf r p bufSize input sched).map hash) order).map File.bytes
      = some input := by
  refine ⟨unescape_escape' enc he name, ?_⟩
  unfold restoreFile
  rw [mapM_store _ hs]
  simp only [Option.map_some]
  congr 1
  have := writes_any_order (Rustic.Props.C06.chunksOf r p bufSize input sched)
    (order (positions 0 (Rustic.Props.C06.chunksOf r p bufSize input sched))) (ho _)
  rw [show (List.map List.length (Rustic.Props.C06.chunksOf r p bufSize input sched)).sum
      = totalLen (Rustic.Props.C06.chunksOf r p bufSize input sched) from rfl, this]
  exact Rustic.Props.C06.lossless r p hp bufSize hb input sched

/-- (5') the store the archiver builds is faithful when distinct chunks have distinct ids -/
theorem archive_store_faithful (hash : Bytes → Nat) (chunks : List Bytes) (store : Nat → Option Bytes)
    (hinj : ∀ a ∈ chunks, ∀ b ∈ chunks, hash a = hash b → a = b) :
    StoreFaithful hash chunks (archiveFile hash chunks store).2 :=
  archive_store_get hinj

/-! non-vacuity -/

example : EncAscii (fun c => if c.toNat < 128 then [UInt8.ofNat c.toNat] else [0xc3, 0xa9]) :=
  ⟨fun c h => by simp [h]⟩

example : escape [.ch 'a', .ch '"', .bad 0xff, .ch '\\'] = ['a', '\\', '"', '\\', 'x', 'f', 'f', '\\', '\\'] := by
  decide

example : readAt 1000 [2, 3] [[1, 2], [3, 4, 5]] 1 3 = [2, 3, 4] := by decide

example : (coalesceAll 4 100 [⟨0, 10⟩, ⟨12, 5⟩, ⟨40, 3⟩]).map (fun g => (g.offset, g.length, g.blobs.length))
    = [(0, 17, 2), (40, 3, 1)] := by decide

end Rustic.Props.C01
