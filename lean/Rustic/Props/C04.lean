/-
C04 — Stored data is authenticated ciphertext; tampering is always detected.

Property theorems only (lemmas: `Rustic/Lemmas/Codec.lean`; model: `Rustic/Model/Codec.lean`).  All statements
quantify over every `AE` (any key type, any keystream, any tag function with the functional laws of
AES-CTR + Poly1305), every key, nonce, plaintext, every byte string offered to `decrypt`, every history of key
commands and every password.  Cryptographic strength is NOT assumed: the tamper theorem is a reduction — an accepted
message the writer never produced IS a forgery (a valid tag on a (nonce, ciphertext) pair the writer never tagged) —
and key separation is the explicit hypothesis of the password theorems (built into `tryKey`, see `KeySeparated`).

Partial by nature (DESIGN §6 C04): nonce freshness and unforgeability are statistical / cryptographic; the
correspondence check exercises them on the real code (every single-bit flip, every truncation, extensions,
nonce collection).  `substitution_is_not_detected` states what the read path does NOT do (known finding).
-/
import Rustic.Lemmas.Codec
import Rustic.Lemmas.Pack
import Rustic.Model.WriteSites
namespace Rustic.Props.C04
open Rustic.Codec

/-- (1) Round trip, and the framing is `16 + n + 16` bytes. -/
theorem decrypt_encrypt (ae : AE) (k : ae.Key) (nonce m : Bytes) (hn : nonce.length = 16) :
    decrypt ae k (encrypt ae k nonce m) = .ok m ∧ (encrypt ae k nonce m).length = 16 + m.length + 16 := by
  refine ⟨Rustic.Codec.decrypt_encrypt ae k nonce m hn, ?_⟩
  rw [encrypt_length, hn]

/-- (2) Nothing shorter than nonce + tag is accepted: below 16 bytes the length guard answers, from 16 to 31 the
missing tag does. -/
theorem decrypt_rejects_shorter_than_32 (ae : AE) (k : ae.Key) (data : Bytes) (h : data.length < 32) :
    decrypt ae k data = .error (if data.length < 16 then .tooShort else .mac) := by
  rw [decrypt_eq]
  by_cases h1 : data.length < 16
  · simp [h1]
  · simp [h1, h]

/-- (3) `decrypt` accepts exactly when the tag of (nonce, ciphertext) equals the last 16 bytes, and then returns the
keystream-decryption of the ciphertext. -/
theorem accepts_iff_tag_matches (ae : AE) (k : ae.Key) (data m : Bytes) :
    decrypt ae k data = .ok m ↔
      32 ≤ data.length ∧ ae.tag k (nonceOf data) (ctOf data) = tagOf data ∧ m = ae.dec k (nonceOf data) (ctOf data) := by
  rw [decrypt_eq]
  constructor
  · intro h
    split at h
    · cases h
    · split at h
      · cases h
      · split at h
        · rename_i ht; cases h; exact ⟨by omega, ht, rfl⟩
        · cases h
  · rintro ⟨hl, ht, rfl⟩
    rw [if_neg (by omega), if_neg (by omega), if_pos ht]

/-- A (nonce, ciphertext, tag) triple that verifies under `k` although the writer never tagged that
(nonce, ciphertext) pair — what an attacker without the key must produce. -/
def Forgery (ae : AE) (k : ae.Key) (written : List (Bytes × Bytes)) (c : Bytes) : Prop :=
  32 ≤ c.length ∧ ae.tag k (nonceOf c) (ctOf c) = tagOf c ∧
    ∀ w ∈ written, ¬ (nonceOf c = w.1 ∧ ctOf c = ae.enc k w.1 w.2)

/-- (4) Tampering is detected unless it is a forgery: let `written` be all (nonce, plaintext) pairs ever encrypted
under `k`.  If `decrypt` accepts a byte string that is none of the written messages — a flipped bit, a truncation,
an extension, a splice of two messages, anything — then that byte string is a forgery. -/
theorem tamper_accept_is_forgery (ae : AE) (k : ae.Key) (written : List (Bytes × Bytes))
    (c' m' : Bytes)
    (hne : ∀ w ∈ written, c' ≠ encrypt ae k w.1 w.2) (hacc : decrypt ae k c' = .ok m') :
    Forgery ae k written c' := by
  obtain ⟨hl, ht, _⟩ := (accepts_iff_tag_matches ae k c' m').mp hacc
  refine ⟨hl, ht, ?_⟩
  intro w hw ⟨h1, h2⟩
  apply hne w hw
  have hp := (parts_append c' hl).1
  rw [hp, h1, h2, ← ht, h1, h2]
  rfl

/-- (4') An accepted message determines its plaintext and is exactly the encryption of that plaintext under its own
nonce: two different accepted byte strings with the same nonce carry different plaintexts, and no accepted byte
string is "almost" a written one. -/
theorem accepted_is_encryption (ae : AE) (k : ae.Key) (data m : Bytes) (h : decrypt ae k data = .ok m) :
    data = encrypt ae k (nonceOf data) m := (encrypt_of_decrypt ae k data m h).2

/-- (5) File codec round trip, with its real precondition: without compression the plaintext must start with `{` or
`[` (all repository files are JSON objects/arrays); with compression there is none. -/
theorem file_codec_roundtrip (ae : AE) (z : Zstd) (zstdOn : Bool) (k : ae.Key) (nonce data : Bytes)
    (hn : nonce.length = 16)
    (hpre : zstdOn = false → ∃ b rest, data = b :: rest ∧ (b = 123 ∨ b = 91)) :
    decodeFile ae z k (encodeFile ae z zstdOn k nonce data) = .ok data := by
  unfold decodeFile encodeFile
  cases zstdOn with
  | true =>
    simp only [if_true, Rustic.Codec.decrypt_encrypt ae k nonce _ hn]
    simp [z.round]
  | false =>
    obtain ⟨b, rest, rfl, hb⟩ := hpre rfl
    simp only [Bool.false_eq_true, if_false, Rustic.Codec.decrypt_encrypt ae k nonce _ hn]
    simp [hb]

/-- (5') Outside the precondition the uncompressed file codec does not round-trip: plain text is refused as
"unsupported" (replayed on the real code: corpus/C04, `file - 68656c6c6f`). -/
theorem file_codec_needs_json_start (ae : AE) (z : Zstd) (k : ae.Key) (nonce : Bytes) (hn : nonce.length = 16) :
    decodeFile ae z k (encodeFile ae z false k nonce [104, 105]) = .error .unsupported := by
  unfold decodeFile encodeFile
  simp only [Bool.false_eq_true, if_false, Rustic.Codec.decrypt_encrypt ae k nonce _ hn]
  simp

/-- (6) Blob codec round trip.  Full statement `∀ data` is FALSE for the code: with compression on, an empty blob gets
`uncompressed_length = NonZeroU32::new(0) = None` and is read back as its (non-empty) compressed frame.  Missing
hypothesis: `data ≠ [] ∨ zstdOn = false` (the chunker never yields empty chunks, serialised trees are never empty).
Witness: `blob_codec_empty_compressed_witness`, replayed on the real code (corpus/C04 `blob z -`). -/
theorem blob_codec_roundtrip_partial (ae : AE) (z : Zstd) (zstdOn : Bool) (k : ae.Key) (nonce data : Bytes)
    (hn : nonce.length = 16) (hpre : data ≠ [] ∨ zstdOn = false) :
    decodeBlob ae z k (encodeBlob ae z zstdOn k nonce data).1 (encodeBlob ae z zstdOn k nonce data).2.2 = .ok data ∧
    (encodeBlob ae z zstdOn k nonce data).2.1 = data.length := by
  unfold decodeBlob encodeBlob
  cases zstdOn with
  | false => simp [Rustic.Codec.decrypt_encrypt ae k nonce _ hn]
  | true =>
    have hd : data.length ≠ 0 := by
      rcases hpre with h | h
      · intro h0; exact h (List.eq_nil_of_length_eq_zero h0)
      · cases h
    simp [Rustic.Codec.decrypt_encrypt ae k nonce _ hn, nonZero, hd, z.round]

theorem blob_codec_empty_compressed_witness (ae : AE) (z : Zstd) (k : ae.Key) (nonce : Bytes) (hn : nonce.length = 16) :
    decodeBlob ae z k (encodeBlob ae z true k nonce []).1 (encodeBlob ae z true k nonce []).2.2 = .ok (z.compress []) := by
  unfold decodeBlob encodeBlob
  simp [Rustic.Codec.decrypt_encrypt ae k nonce _ hn, nonZero]

/-- (6') A recorded uncompressed length that does not match what decompression yields is rejected (never returned). -/
theorem length_mismatch_rejected (ae : AE) (z : Zstd) (k : ae.Key) (nonce data : Bytes) (hn : nonce.length = 16)
    (n : Nat) (hne : n ≠ data.length) :
    decodeBlob ae z k (encrypt ae k nonce (z.compress data)) (some n) = .error .length := by
  unfold decodeBlob
  simp [Rustic.Codec.decrypt_encrypt ae k nonce _ hn, z.round, Ne.symm hne]

/-- (7) Every file stored through `hash_write_full` is one `encrypt` message (so, by (4), any modification of the
stored bytes that is still accepted is a forgery), its id is the hash of the stored bytes, and reading it back
returns the content. -/
theorem stored_file_is_ciphertext (ae : AE) (z : Zstd) (hash : Bytes → Nat) (zstdOn : Bool) (k : ae.Key)
    (nonce data : Bytes) (s : Store) (hn : nonce.length = 16)
    (hpre : zstdOn = false → ∃ b rest, data = b :: rest ∧ (b = 123 ∨ b = 91)) :
    let (id, s') := hashWriteFull ae z hash zstdOn k nonce s data
    (∃ payload, s'.get id = some (encrypt ae k nonce payload) ∧ id = hash (encrypt ae k nonce payload)) ∧
    readEncryptedFull ae z k s' id = .ok data := by
  simp only [hashWriteFull]
  refine ⟨?_, ?_⟩
  · cases zstdOn <;> simp [Store.get, encodeFile] <;> exact ⟨_, rfl, rfl⟩
  · unfold readEncryptedFull
    simp only [Store.get, List.find?_cons, beq_self_eq_true, Option.map_some]
    rw [file_codec_roundtrip ae z zstdOn k nonce data hn hpre]

/-- (7') A pack file is ciphertext end to end, except for the four bytes of the (public) header length: when every blob
handed to the packer is the output of the blob codec (`process_data`) and the header is encrypted (`RawPacker::save`),
the file is a concatenation of `encrypt` messages followed by the `u32` length of the last one. -/
theorem pack_file_is_ciphertexts (ae : AE) (z : Zstd) (zstdOn : Bool) (k : ae.Key) (hdrNonce : Bytes)
    (t : Rustic.Pack.BlobType) (blobs : List (Bytes × Bytes × Nat)) :
    let adds : List (Bytes × Nat × Option Nat) := blobs.map fun b =>
      ((encodeBlob ae z zstdOn k b.1 b.2.1).1, b.2.2, (encodeBlob ae z zstdOn k b.1 b.2.1).2.2)
    let p := (Rustic.Pack.Packer.new t).run adds
    ∃ chunks : List Bytes,
      (p.finish (encrypt ae k hdrNonce)).1 =
        chunks.flatten ++ (encrypt ae k hdrNonce p.headerBytes ++ Rustic.Pack.le32 (encrypt ae k hdrNonce p.headerBytes).length) ∧
      ∀ c ∈ chunks, ∃ nonce payload, c = encrypt ae k nonce payload := by
  intro adds p
  refine ⟨p.file, Rustic.Pack.finish_file _ p, ?_⟩
  intro c hc
  rcases Rustic.Pack.Packer.run_file_subset (Rustic.Pack.Packer.new t) adds c hc with h | ⟨a, ha, rfl⟩
  · simp [Rustic.Pack.Packer.new] at h
  · obtain ⟨b, _, rfl⟩ := List.mem_map.mp ha
    cases zstdOn
    · exact ⟨b.1, b.2.1, by simp [encodeBlob]⟩
    · exact ⟨b.1, z.compress b.2.1, by simp [encodeBlob]⟩

/-- (8) Substitution: what a verifying read path would guarantee … -/
theorem verified_read_detects_substitution (ae : AE) (z : Zstd) (hash : Bytes → Nat) (k : ae.Key)
    (ida idb : Nat) (a b : Bytes) (hab : hash b ≠ ida) (rest : Store) :
    readVerified ae z hash k ((ida, b) :: (idb, a) :: rest) ida = .error .missing := by
  simp [readVerified, Store.get, hab]

/-- (8') … and what the code's read path does: after exchanging the stored bytes of two files, reading the first id
returns the second file's content without any error (no id comparison in `read_encrypted_full`).  Confirmed on the
real code (swap of two snapshot files; known finding, DESIGN §7 #12). -/
theorem substitution_is_not_detected (ae : AE) (z : Zstd) (k : ae.Key) (ida idb : Nat) (a b : Bytes) (rest : Store)
    (contentB : Bytes) (hb : decodeFile ae z k b = .ok contentB) :
    readEncryptedFull ae z k ((ida, b) :: (idb, a) :: rest) ida = .ok contentB := by
  simp [readEncryptedFull, Store.get, hb]

/-! ### passwords -/

/-- Key separation, the hypothesis under which `tryKey` is the behaviour of `key_from_backend`: unwrapping with a key
derived from a different password fails the MAC.  (For the real primitives: scrypt collision resistance and
Poly1305-AES unforgeability.) -/
def KeySeparated (ae : AE) (kdf : Nat → Nat → ae.Key) : Prop :=
  ∀ salt pw pw' nonce m, pw ≠ pw' → decrypt ae (kdf salt pw') (encrypt ae (kdf salt pw) nonce m) = .error .mac

/-- the model's `tryKey` is what the wrapped-key layout does under `KeySeparated` -/
theorem tryKey_justified (ae : AE) (kdf : Nat → Nat → ae.Key) (hsep : KeySeparated ae kdf)
    (salt pw pw' : Nat) (nonce mk : Bytes) (hn : nonce.length = 16) :
    decrypt ae (kdf salt pw') (encrypt ae (kdf salt pw) nonce mk) = if pw = pw' then .ok mk else .error .mac := by
  by_cases h : pw = pw'
  · subst h; simp [Rustic.Codec.decrypt_encrypt ae _ nonce mk hn]
  · simp [h, hsep salt pw pw' nonce mk h]

def AllGood {Pw MK : Type} (keys : List (KeyEntry Pw MK)) : Prop := ∀ e ∈ keys, e ≠ .malformed

/-- (9) Only a correct password opens: with well-formed key files, `find_key_in_backend` returns a master key exactly
when some key file was generated with that password (and then it is that file's master key); otherwise the
answer is "wrong password" (C002). -/
theorem open_iff_some_key_has_password {Pw MK : Type} [DecidableEq Pw] (keys : List (KeyEntry Pw MK))
    (hg : AllGood keys) (pw : Pw) :
    (∀ m, findKey keys pw = .ok m → ∃ salt, .good salt pw m ∈ keys) ∧
    ((∃ salt m, .good salt pw m ∈ keys) → ∃ m, findKey keys pw = .ok m) ∧
    ((¬ ∃ salt m, KeyEntry.good salt pw m ∈ keys) → findKey keys pw = .wrongPassword) := by
  induction keys with
  | nil => simp [findKey]
  | cons e es ih =>
    have hg' : AllGood es := fun x hx => hg x (List.mem_cons_of_mem _ hx)
    obtain ⟨ih1, ih2, ih3⟩ := ih hg'
    cases e with
    | malformed => exact absurd rfl (hg _ (List.mem_cons_self ..))
    | good salt p m0 =>
      by_cases hp : p = pw
      · subst hp
        refine ⟨?_, ?_, ?_⟩
        · intro m hm
          simp [findKey, tryKey] at hm
          subst hm
          exact ⟨salt, List.mem_cons_self ..⟩
        · intro _; exact ⟨m0, by simp [findKey, tryKey]⟩
        · intro hno; exact absurd ⟨salt, m0, List.mem_cons_self ..⟩ hno
      · have hf : findKey (KeyEntry.good salt p m0 :: es) pw = findKey es pw := by simp [findKey, tryKey, hp]
        rw [hf]
        refine ⟨?_, ?_, ?_⟩
        · intro m hm
          obtain ⟨s, hs⟩ := ih1 m hm
          exact ⟨s, List.mem_cons_of_mem _ hs⟩
        · rintro ⟨s, m, hm⟩
          rcases List.mem_cons.mp hm with h | h
          · cases h; exact absurd rfl hp
          · exact ih2 ⟨s, m, h⟩
        · intro hno
          apply ih3
          rintro ⟨s, m, hm⟩
          exact hno ⟨s, m, List.mem_cons_of_mem _ hm⟩

/-- (9, position) The search has no bound on the number of key files and does not depend on where the matching file is
listed: whatever well-formed key files are listed BEFORE it (any number — 20, 21, 10 000) and whatever comes after it,
the password of a key file opens, and what opens wraps a master key of a file with that password.  (Seed C04-4 —
`find_key_in_backend` tries only the first 20 listed files — contradicts this for `before.length ≥ 20`; the `keys`
channel plants 21–40 key files and opens with every one of the passwords.) -/
theorem password_opens_at_any_listing_position {Pw MK : Type} [DecidableEq Pw] (before after : List (KeyEntry Pw MK))
    (hb : AllGood before) (salt : Nat) (pw : Pw) (m : MK) :
    ∃ m' salt', findKey (before ++ .good salt pw m :: after) pw = .ok m' ∧
      .good salt' pw m' ∈ before ++ [.good salt pw m] := by
  induction before with
  | nil => exact ⟨m, salt, by simp [findKey, tryKey], by simp⟩
  | cons e es ih =>
    have hg' : AllGood es := fun x hx => hb x (List.mem_cons_of_mem _ hx)
    obtain ⟨m', s', h1, h2⟩ := ih hg'
    cases e with
    | malformed => exact absurd rfl (hb _ (List.mem_cons_self ..))
    | good s p m0 =>
      by_cases hp : p = pw
      · subst hp
        exact ⟨m0, s, by simp [findKey, tryKey], by simp⟩
      · refine ⟨m', s', ?_, ?_⟩
        · simpa [findKey, tryKey, hp] using h1
        · exact List.mem_cons_of_mem _ h2

/-- (9') For all sequences of key add / remove starting from the initial key: every key file wraps the one master key
(so any password that opens, opens the same repository), and the key table stays well-formed. -/
theorem key_history_wraps_master {Pw MK : Type} (master : MK) (keys : List (KeyEntry Pw MK))
    (h0 : ∀ e ∈ keys, ∃ s p, e = .good s p master) (cmds : List (KeyCmd Pw)) :
    ∀ e ∈ cmds.foldl (applyKeyCmd master) keys, ∃ s p, e = .good s p master := by
  induction cmds generalizing keys with
  | nil => exact h0
  | cons c cs ih =>
    apply ih
    intro e he
    cases c with
    | add s p =>
      rcases List.mem_append.mp he with h | h
      · exact h0 e h
      · simp at h; exact ⟨s, p, h⟩
    | remove i => exact h0 e (List.mem_of_mem_eraseIdx he)

/-- (9+9') After ANY history of key add / remove commands on a repository with master key `master`: a password opens
iff a key file generated with it is still present, and what it opens is `master`. -/
theorem open_after_history {Pw MK : Type} [DecidableEq Pw] (master : MK) (cmds : List (KeyCmd Pw)) (pw : Pw) :
    let keys := cmds.foldl (applyKeyCmd master) ([] : List (KeyEntry Pw MK))
    ((∃ m, findKey keys pw = .ok m) ↔ ∃ salt, KeyEntry.good salt pw master ∈ keys) ∧
    (∀ m, findKey keys pw = .ok m → ∃ salt, KeyEntry.good salt pw master ∈ keys ∧
      ∀ s' m', KeyEntry.good s' pw m' ∈ keys → m' = master) := by
  intro keys
  have hall : ∀ e ∈ keys, ∃ s p, e = KeyEntry.good s p master :=
    key_history_wraps_master master [] (by intro e he; cases he) cmds
  have hgood : AllGood keys := by
    intro e he hm
    obtain ⟨s, p, rfl⟩ := hall e he
    cases hm
  obtain ⟨h1, h2, _⟩ := open_iff_some_key_has_password keys hgood pw
  have hmaster : ∀ s' m', KeyEntry.good s' pw m' ∈ keys → m' = master := by
    intro s' m' hm
    obtain ⟨s, p, heq⟩ := hall _ hm
    cases heq; rfl
  refine ⟨⟨?_, ?_⟩, ?_⟩
  · rintro ⟨m, hm⟩
    obtain ⟨s, hs⟩ := h1 m hm
    exact ⟨s, hmaster s m hs ▸ hs⟩
  · rintro ⟨s, hs⟩
    exact h2 ⟨s, master, hs⟩
  · intro m hm
    obtain ⟨s, hs⟩ := h1 m hm
    exact ⟨s, hmaster s m hs ▸ hs, hmaster⟩

/-- (7'') Every write that does not store a key file stores ciphertext — over the write sites the code ACTUALLY has
(`Model/WriteSites.lean`; the table is compared with the call sites of `write_bytes` found in the current source by
`tools/c04_write_sites.py`, channel `c04 sites`): every site that originates content (i.e. does not merely forward what a
wrapper backend was given), for every file type it can be reached with other than `Key`, writes bytes produced by
`encrypt_data`/`encrypt_file` in the same function, a pack built by the packer (`pack_file_is_ciphertexts`), or bytes just
read from storage.  The only plaintext branch (`save_file` for `RepoFile`s with `ENCRYPTED = false`) is reachable for key
files only, and the only `RepoFile` switching encryption off is the key file. -/
theorem every_non_key_write_is_encrypted :
    (∀ s ∈ Rustic.WriteSites.sites, s.cls ≠ .forwards → ∀ t ∈ s.flows, t ≠ .key → s.cls.ciphertext = true) ∧
    (∀ s ∈ Rustic.WriteSites.sites, s.cls = .plainIfUnencryptedRepoFile → s.flows = [.key]) ∧
    Rustic.WriteSites.plainFiles.map (·.2) = [.key] := by decide

/-- (9'') A damaged or foreign key file is not skipped: any error other than a MAC failure aborts the search, so a
malformed file listed before the matching one blocks the correct password (observation replayed on the real code,
corpus/C04 `keys`; the statement's "only the correct password opens" is unaffected). -/
theorem malformed_key_file_blocks_search :
    findKey ([.malformed, .good 1 7 42] : List (KeyEntry Nat Nat)) 7 = .otherErr ∧
    findKey ([.good 1 7 42, .malformed] : List (KeyEntry Nat Nat)) 7 = .ok 42 := by
  constructor <;> rfl

/-! ### non-vacuity: a concrete `AE` and `Zstd` -/

deriving instance DecidableEq for Except

def xorWith (k : UInt8) (m : Bytes) : Bytes := m.map (· ^^^ k)

theorem xorWith_invol (k : UInt8) (m : Bytes) : xorWith k (xorWith k m) = m := by
  induction m with
  | nil => rfl
  | cons b bs ih =>
    simp only [xorWith, List.map_cons, List.map_map] at *
    rw [ih]
    congr 1
    rw [UInt8.xor_assoc, UInt8.xor_self, UInt8.xor_zero]

def toyAE : AE where
  Key := UInt8
  enc k _ m := xorWith k m
  dec k _ c := xorWith k c
  tag k n c := List.replicate 16 (c.foldl (· + ·) (n.foldl (· + ·) k))
  enc_len _ _ m := by simp [xorWith]
  dec_enc k _ m := xorWith_invol k m
  enc_dec k _ c := xorWith_invol k c
  tag_len _ _ _ := by simp

def toyZstd : Zstd where
  compress x := 40 :: x
  decompress x := x.tail?
  round _ := rfl

example : decrypt toyAE (7 : UInt8) (encrypt toyAE (7 : UInt8) (List.replicate 16 1) [1, 2, 3]) = .ok [1, 2, 3] := by decide
example : (encrypt toyAE (7 : UInt8) (List.replicate 16 1) [1, 2, 3]).length = 35 := by decide
/-- a flipped bit, a truncation and an extension of that message are rejected by the toy instance -/
example : decrypt toyAE (7 : UInt8) ((encrypt toyAE (7 : UInt8) (List.replicate 16 1) [1, 2, 3]).set 17 0) = .error .mac ∧
    decrypt toyAE (7 : UInt8) ((encrypt toyAE (7 : UInt8) (List.replicate 16 1) [1, 2, 3]).take 34) = .error .mac ∧
    decrypt toyAE (7 : UInt8) (encrypt toyAE (7 : UInt8) (List.replicate 16 1) [1, 2, 3] ++ [0]) = .error .mac := by decide
example : decodeFile toyAE toyZstd (7 : UInt8) (encodeFile toyAE toyZstd true (7 : UInt8) (List.replicate 16 1) [104, 105]) = .ok [104, 105] := by
  decide

/-! ### copy between repositories: "encrypted and authenticated with THE REPOSITORY's master key" -/

/-- (10) Every blob stored in a repository decrypts under THAT repository's key — for every history of commands on two
repositories `a`, `b` with their own keys (any keys, equal or not; any compression settings, changed at any time): commands
that store new blobs (`Packer::add` → `process_data` under the repository's key), `copy` of any list of blob ids in either
direction (`BlobCopier::copy`: decode with the SOURCE key, re-encode with the DESTINATION key; blobs already present are
skipped, a decode error aborts the command with what was packed so far left in place), compression changes; any stream of
16-byte nonces.  The keys never change.  Tied to the real `copy` by the `hist` / `scan` oracles of harness/src/c04.rs: after a
copy into a repository with another master key (and the source's chunker parameters) every blob the destination's index lists
must decode with the destination's key and must NOT decode with the source's; every file reads back; `check --read-data`. -/
theorem stored_blob_decrypts_under_own_key (ae : AE) (z : Zstd) (nonce : Nat → Bytes) (hn : ∀ i, (nonce i).length = 16)
    (s : TwoRepos ae) (h : s.OwnKey) (cmds : List CopyCmd) :
    (∀ b ∈ (runCopy ae z nonce s cmds).a.blobs, ∃ p, decrypt ae s.a.key b.bytes = .ok p) ∧
    (∀ b ∈ (runCopy ae z nonce s cmds).b.blobs, ∃ p, decrypt ae s.b.key b.bytes = .ok p) := by
  obtain ⟨⟨ha, hb⟩, ka, kb⟩ := runCopy_own ae z nonce hn cmds s h
  exact ⟨fun b hb' => ka ▸ ha b hb', fun b hb' => kb ▸ hb b hb'⟩

/-- (10, from scratch) … in particular for two freshly initialised repositories (no blobs) with keys `ka`, `kb`. -/
theorem stored_blob_decrypts_under_own_key_from_init (ae : AE) (z : Zstd) (nonce : Nat → Bytes)
    (hn : ∀ i, (nonce i).length = 16) (ka kb : ae.Key) (za zb : Bool) (cmds : List CopyCmd) :
    let s := runCopy ae z nonce ⟨⟨ka, za, []⟩, ⟨kb, zb, []⟩, 0⟩ cmds
    (∀ b ∈ s.a.blobs, ∃ p, decrypt ae ka b.bytes = .ok p) ∧ (∀ b ∈ s.b.blobs, ∃ p, decrypt ae kb b.bytes = .ok p) :=
  stored_blob_decrypts_under_own_key ae z nonce hn ⟨⟨ka, za, []⟩, ⟨kb, zb, []⟩, 0⟩
    ⟨fun _ h => (nomatch h), fun _ h => (nomatch h)⟩ cmds

/-- (10') … and the copy keeps the content: a blob that decodes to `data` in the source decodes to `data` in the destination,
under the destination's key and whatever the two compression settings are (hypothesis of `blob_codec_roundtrip_partial`:
not the empty blob under compression). -/
theorem copied_blob_keeps_content (ae : AE) (z : Zstd) (src dst : BlobRepo ae) (nonce : Bytes) (hn : nonce.length = 16)
    (id : Nat) (b : StoredBlob) (data : Bytes) (hget : src.get id = some b) (hnew : dst.has id = false)
    (hdec : decodeBlob ae z src.key b.bytes b.ulen = .ok data) (hpre : data ≠ [] ∨ dst.zstdOn = false) :
    ∃ dst', copyOne ae z src dst nonce id = .ok dst' ∧ ∃ b', dst'.blobs = dst.blobs ++ [b'] ∧ b'.id = id ∧
      decodeBlob ae z dst.key b'.bytes b'.ulen = .ok data := by
  refine ⟨dst.store ae z nonce id data, ?_, ?_⟩
  · simp [copyOne, hnew, hget, hdec]
  · refine ⟨⟨id, (encodeBlob ae z dst.zstdOn dst.key nonce data).1, (encodeBlob ae z dst.zstdOn dst.key nonce data).2.2⟩, ?_, rfl, ?_⟩
    · simp [BlobRepo.store, hnew]
    · exact (blob_codec_roundtrip_partial ae z dst.zstdOn dst.key nonce data hn hpre).1

/-- (10'') The re-encryption is what makes it true (seed C04-6: data blobs transferred raw, `copy_fast`, when the chunker
parameters match): with the toy instance, a blob stored under key 7 and transferred AS IT IS into a repository with key 9 does
not decrypt there — while the real `copyOne` yields one that does. -/
theorem raw_copy_breaks_it :
    let src : BlobRepo toyAE := (BlobRepo.store toyAE toyZstd ⟨(7 : UInt8), false, []⟩ (List.replicate 16 1) 5 [1, 2, 3])
    let dst : BlobRepo toyAE := ⟨(9 : UInt8), false, []⟩
    ((copyOneRaw src dst 5).blobs.map fun b => decrypt toyAE (9 : UInt8) b.bytes) = [.error .mac] ∧
    ((copyOne toyAE toyZstd src dst (List.replicate 16 2) 5).toOption.map fun d =>
        d.blobs.map fun b => decrypt toyAE (9 : UInt8) b.bytes) = some [.ok [1, 2, 3]] := by
  decide

end Rustic.Props.C04
