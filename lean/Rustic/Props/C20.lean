/-
C20 — Local storage backends are exact maps and publish files atomically.

Property theorems only (helper lemmas: `Rustic/Lemmas/Backends.lean`).  All statements quantify over every
file-system state `fs` (any foreign / temporary / left-over files), every key, every content, every
history — no size bounds.  `L` (hex characters per id) is arbitrary; the code's value is the regenerated
constant `Rustic.Gen.ID_HEX_LEN`, for which the concrete examples are stated.

What "the directory backend is an exact map" means here: `abs fs k = fget fs (path k)` reads the map off
the directory; every operation of the backend commutes with `abs` (`exact_map`), every observation (full
read, ranged read, listing) is a function of `abs fs` alone (`read_full_is_abs`, `ranged_read_is_drop_take`,
`listing_exact`) provided the strays are foreign (`Clean`), and `Clean` is an invariant of every history
including interrupted writes (`clean_invariant`).
-/
import Rustic.Lemmas.Backends
import Rustic.Gen.Constants
namespace Rustic.Props.C20
open Rustic.Backends

variable {L : Nat}

/-! ### (1) read-after-write / remove laws -/

theorem read_full_is_abs (fs : FS) (k : Key) :
    readFull fs k.1 k.2 = match abs fs k with | some c => .ok c | none => .err := rfl

/-- A completed write is read back exactly, whatever was in the directory before (including a left-over
temp file of an earlier interrupted write of the same key). -/
theorem read_after_write {k : Key} (hk : WFKey L k) (fs : FS) (c : Bytes) :
    readFull (writeBytes fs k.1 k.2 c) k.1 k.2 = .ok c := by
  rw [read_full_is_abs, abs_writeBytes hk hk]; simp

/-- … and changes no other key. -/
theorem write_frame {k k' : Key} (hk : WFKey L k) (hk' : WFKey L k') (hne : k' ≠ k) (fs : FS) (c : Bytes) :
    readFull (writeBytes fs k.1 k.2 c) k'.1 k'.2 = readFull fs k'.1 k'.2 := by
  rw [read_full_is_abs, read_full_is_abs, abs_writeBytes hk hk']; simp [hne]

theorem read_after_remove {k : Key} (hk : WFKey L k) (fl : Flavor) (fs : FS) :
    readFull (remove fl fs k.1 k.2).2 k.1 k.2 = .err := by
  rw [read_full_is_abs, abs_remove hk hk]; simp

theorem remove_frame {k k' : Key} (hk : WFKey L k) (hk' : WFKey L k') (hne : k' ≠ k) (fl : Flavor) (fs : FS) :
    readFull (remove fl fs k.1 k.2).2 k'.1 k'.2 = readFull fs k'.1 k'.2 := by
  rw [read_full_is_abs, read_full_is_abs, abs_remove hk hk']; simp [hne]

/-- The directory backend reports `Ok` for a removal iff the file existed; a failed removal changes nothing. -/
theorem remove_result_local (fs : FS) (t : FileType) (id : Name) :
    ((remove Flavor.local fs t id).1 = .ok () ↔ ∃ c, readFull fs t id = .ok c) ∧
    ((remove Flavor.local fs t id).1 = .err → (remove Flavor.local fs t id).2 = fs) := by
  unfold remove readFull
  cases fget fs (path t id) <;> simp [Flavor.local]

/-! ### (2) ranged reads -/

/-- Every in-range `(offset, length)` returns exactly that slice of what was written. -/
theorem ranged_read_is_drop_take (fl : Flavor) (fs : FS) (t : FileType) (id : Name) (c : Bytes) (off len : Nat)
    (h : readFull fs t id = .ok c) (hr : off + len ≤ c.length) :
    readPartial fl fs t id off len = .ok ((c.drop off).take len) := by
  unfold readFull at h
  unfold readPartial
  cases hg : fget fs (path t id) with
  | none => simp [hg] at h
  | some c' =>
    simp [hg] at h
    subst h
    simp [hr]

theorem ranged_read_length (fl : Flavor) (fs : FS) (t : FileType) (id : Name) (c r : Bytes) (off len : Nat)
    (h : readFull fs t id = .ok c) (hr : off + len ≤ c.length) (hp : readPartial fl fs t id off len = .ok r) :
    r.length = len := by
  rw [ranged_read_is_drop_take fl fs t id c off len h hr] at hp
  cases hp
  simp; omega

theorem ranged_read_whole (fl : Flavor) (fs : FS) (t : FileType) (id : Name) (c : Bytes)
    (h : readFull fs t id = .ok c) : readPartial fl fs t id 0 c.length = .ok c := by
  rw [ranged_read_is_drop_take fl fs t id c 0 c.length h (by omega)]; simp

/-- A non-empty range reaching past the end is an error, never a short or padded answer. -/
theorem ranged_read_past_end_fails (fl : Flavor) (fs : FS) (t : FileType) (id : Name) (c : Bytes) (off len : Nat)
    (h : readFull fs t id = .ok c) (hl : 0 < len) (hr : c.length < off + len) :
    readPartial fl fs t id off len = .err := by
  unfold readFull at h
  unfold readPartial
  cases hg : fget fs (path t id) with
  | none => simp [hg] at h
  | some c' =>
    simp [hg] at h
    subst h
    have h1 : ¬ (len = 0 ∨ off + len ≤ c'.length) := by omega
    simp [h1]

/-! ### (3) listings -/

/-- With only foreign strays around, `list_with_size` reports exactly the keys of the map with their true sizes. -/
theorem listing_exact {fs : FS} (hc : Clean L fs) {t : FileType} (ht : t ≠ .config) {id : Name}
    (hid : CanonId L id) (n : Nat) :
    (id, n) ∈ listWithSize L fs t ↔ ∃ c, readFull fs t id = .ok c ∧ n = c.length := by
  rw [listing_exact_aux hc ht hid n]
  constructor
  · rintro ⟨c, h1, h2⟩; exact ⟨c, by rw [read_full_is_abs (k := (t, id)), h1], h2⟩
  · rintro ⟨c, h1, h2⟩
    rw [read_full_is_abs (k := (t, id))] at h1
    cases ha : abs fs (t, id) with
    | none => simp [ha] at h1
    | some c' => simp [ha] at h1; subst h1; exact ⟨c', rfl, h2⟩

/-- Everything a listing reports is a canonical id (so it can be handed back to the API). -/
theorem listing_ids_canonical (fs : FS) {t : FileType} (ht : t ≠ .config) {id : Name} {n : Nat}
    (h : (id, n) ∈ listWithSize L fs t) : CanonId L id := by
  have hl : listWithSize L fs t = fs.filterMap (listEntry L t) := by cases t <;> simp [listWithSize] at ht ⊢
  rw [hl, List.mem_filterMap] at h
  obtain ⟨e, _, he⟩ := h
  unfold listEntry at he
  split at he
  · split at he
    · rename_i id' hp
      split at he
      · cases he; exact parseSome_canon hp
      · cases he
    · cases he
  · cases he

/-- The config file is listed (under the null id) iff it exists. -/
theorem listing_config (fs : FS) :
    listWithSize L fs .config =
      match abs fs (.config, zeroId L) with
      | some c => [(zeroId L, if c.length < u32Bound then c.length else 0)]
      | none => [] := rfl

/-! ### (4) atomic publish: the crash point -/

/-- `<id>-tmp-` is not an id: its length is `L + 5`. -/
theorem tmp_name_never_listed {id : Name} (hid : id.length = L) : parseSome L (id ++ tmpSuffix) = none :=
  parseSome_wrong_length (by simp [tmpSuffix]; omega)

/-- At the crash point (temp file complete, not yet renamed) every listing of every type is *identical* to the
listing before the write began — for every directory state, clean or not. -/
theorem crash_point_listing_unchanged (fs : FS) (t : FileType) {id : Name} (hid : id.length = L) (c : Bytes)
    (t' : FileType) :
    listWithSize L (writeTmp fs t id c) t' = listWithSize L fs t' ∧
    list L (writeTmp fs t id c) t' = list L fs t' := by
  unfold writeTmp
  have hcfg : fget (fput fs (tmpPath t id) c) [nConfig] = fget fs [nConfig] :=
    fget_fput_ne fs c (fun e => tmpPath_ne_config t id e.symm)
  cases t' <;> simp only [listWithSize, list, hcfg, true_and]
  all_goals
    simp only [fput, List.filterMap_cons, listEntry_tmpPath t _ hid c, listIdEntry_tmpPath t _ hid c]
    exact ⟨filterMap_fdel_of_none _ fs _ (fun b => listEntry_tmpPath t _ hid b),
           filterMap_fdel_of_none _ fs _ (fun b => listIdEntry_tmpPath t _ hid b)⟩

/-- … and every key reads exactly as before (the old content stays visible until the rename). -/
theorem crash_point_reads_unchanged {k k' : Key} (hk : WFKey L k) (hk' : WFKey L k') (fs : FS) (c : Bytes) :
    readFull (writeTmp fs k.1 k.2 c) k'.1 k'.2 = readFull fs k'.1 k'.2 := by
  rw [read_full_is_abs, read_full_is_abs, abs_writeTmp hk hk']

/-! ### (5) histories -/

/-- A stray file: foreign to every listing and not the config file. -/
def Stray (L : Nat) (p : Path) : Prop := ForeignPath L p ∧ p ≠ [nConfig]

def WFOp (L : Nat) : Op → Prop
  | .write k c => WFKey L k ∧ c.length < u32Bound
  | .crashWrite k c => WFKey L k ∧ c.length < u32Bound
  | .remove k => WFKey L k
  | .plant p c => Stray L p ∧ c.length < u32Bound

theorem stray_ne_path {p : Path} (hs : Stray L p) {k : Key} (hk : WFKey L k) : path k.1 k.2 ≠ p := by
  intro e
  subst e
  obtain ⟨t, id⟩ := k
  by_cases ht : t = .config
  · subst ht; exact hs.2 (by simp [path, baseDir, fileName])
  · have h1 := hs.1 t ht ((underDir_path t t id ht).2 rfl)
    rw [last_path t id ht] at h1
    have h2 : parseSome L id = some id := hk.1
    rw [h2] at h1; cases h1

theorem step_abs {op : Op} (hop : WFOp L op) (fs : FS) (m : SpecMap)
    (hm : ∀ k, WFKey L k → abs fs k = m k) : ∀ k, WFKey L k → abs (step fs op) k = specStep m op k := by
  intro k' hk'
  cases op with
  | write k c =>
    simp only [step, specStep, SpecMap.write]
    rw [abs_writeBytes hop.1 hk', hm k' hk']
  | crashWrite k c =>
    simp only [step, specStep]
    rw [abs_writeTmp hop.1 hk', hm k' hk']
  | remove k =>
    simp only [step, specStep, SpecMap.remove]
    rw [abs_remove hop hk', hm k' hk']
  | plant p c =>
    simp only [step, specStep]
    unfold abs
    rw [fget_fput_ne fs c (stray_ne_path hop.1 hk')]
    exact hm k' hk'

/-- **Exact map.** For every history of writes, interrupted writes, removals and stray files appearing, starting
from any directory, the directory read through `abs` is the map specification run on the same history:
interrupted writes and strays are invisible, writes and removals act on exactly one key. -/
theorem exact_map (ops : List Op) (hops : ∀ op ∈ ops, WFOp L op) (fs : FS) :
    ∀ k, WFKey L k → abs (run fs ops) k = specRun (abs fs) ops k := by
  suffices h : ∀ (ops : List Op) (fs : FS) (m : SpecMap), (∀ op ∈ ops, WFOp L op) →
      (∀ k, WFKey L k → abs fs k = m k) → ∀ k, WFKey L k → abs (run fs ops) k = specRun m ops k from
    h ops fs (abs fs) hops (fun _ _ => rfl)
  intro ops
  induction ops with
  | nil => intro fs m _ hm k hk; exact hm k hk
  | cons op rest ih =>
    intro fs m hops hm k hk
    simp only [run, specRun, List.foldl_cons]
    exact ih (step fs op) (specStep m op) (fun o ho => hops o (List.mem_cons_of_mem _ ho))
      (step_abs (hops op List.mem_cons_self) fs m hm) k hk

/-- `Clean` (only repository files and foreign strays, sizes fit) holds after every history — in particular at
every crash point — so `listing_exact` applies to every reachable state. -/
theorem clean_invariant (ops : List Op) (hops : ∀ op ∈ ops, WFOp L op) (fs : FS) (hc : Clean L fs) :
    Clean L (run fs ops) := by
  induction ops generalizing fs with
  | nil => exact hc
  | cons op rest ih =>
    simp only [run, List.foldl_cons]
    apply ih (fun o ho => hops o (List.mem_cons_of_mem _ ho))
    have hop := hops op List.mem_cons_self
    cases op with
    | write k c => exact clean_writeBytes hc hop.1 c hop.2
    | crashWrite k c => exact clean_writeTmp hc hop.1 c hop.2
    | remove k => exact clean_remove hc _ _ _
    | plant p c => exact clean_fput hc p c hop.2 (Or.inl hop.1.1)

/-- Hence: after any history from the empty directory, the listing of a type is exactly the specification map. -/
theorem listing_is_spec_map (ops : List Op) (hops : ∀ op ∈ ops, WFOp L op) {t : FileType} (ht : t ≠ .config)
    {id : Name} (hid : CanonId L id) (n : Nat) :
    (id, n) ∈ listWithSize L (run [] ops) t ↔
      ∃ c, specRun (fun _ => none) ops (t, id) = some c ∧ n = c.length := by
  have hk : WFKey L (t, id) := ⟨hid, fun h => absurd h ht⟩
  rw [listing_exact_aux (clean_invariant ops hops [] (clean_nil L)) ht hid n, exact_map ops hops [] (t, id) hk]
  rfl

/-! ### (6) `Id::parse_some` -/

/-- `parse_some` accepts exactly the names of `L` hex digits (the `hex` crate takes both cases). -/
theorem parse_some_accepts_iff (s : Name) :
    (parseSome L s).isSome = true ↔ s.length = L ∧ ∀ c ∈ s, isHexChar c = true :=
  parseSome_isSome_iff L s

/-- What it returns is the lower-cased name, which parses to itself (ids printed by `to_hex` round-trip). -/
theorem parse_some_canonical {s id : Name} (h : parseSome L s = some id) :
    id = s.map lowerHex ∧ parseSome L id = some id :=
  ⟨(parseSome_eq_some h).2.2, parseSome_canon h⟩

/-! ### non-vacuity / witnesses (closed, `decide`d) -/

def idA : Name := List.replicate 64 'a'
def idB : Name := List.replicate 63 'a' ++ ['b']

example : Rustic.Gen.ID_HEX_LEN = 64 := by decide
example : WFKey 64 (.pack, idA) ∧ WFKey 64 (.config, zeroId 64) := by decide
/-- an interrupted write over an existing file leaves old content readable, nothing new listed -/
example :
    let fs := writeBytes [] .snapshot idA [1, 2, 3]
    let fs' := writeTmp fs .snapshot idA [9, 9]
    readFull fs' .snapshot idA = .ok [1, 2, 3] ∧ listWithSize 64 fs' .snapshot = [(idA, 3)] ∧
    fget fs' [nSnapshots, idA ++ tmpSuffix] = some [9, 9] := by decide
example : readPartial Flavor.local (writeBytes [] .pack idB [1, 2, 3, 4, 5]) .pack idB 1 3 = .ok [2, 3, 4] := by decide
example : readPartial Flavor.local (writeBytes [] .pack idB [1, 2, 3, 4, 5]) .pack idB 3 3 = .err := by decide
/-- quirk kept from the code: an UPPER-case 64-hex stray below a type directory *is* listed (lower-cased);
such names are excluded from `Stray`/`Clean`. -/
example : listWithSize 64 (fput [] [nIndex, List.replicate 64 'A'] [7]) .index = [(idA, 1)] := by decide
/-- quirk kept from the code: the listing is recursive, an id-like name in a nested directory is listed -/
example : listWithSize 64 (fput [] [nKeys, ['s', 'u', 'b'], idA] [7]) .key = [(idA, 1)] := by decide
example : Stray 64 [nSnapshots, idA ++ tmpSuffix] := by
  refine ⟨?_, by decide⟩
  intro t _ _
  decide

end Rustic.Props.C20
