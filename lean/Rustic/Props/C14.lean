/-
C14 — Restore yields exactly the snapshot and never writes outside the target.

Model: `Rustic/Model/Restore.lean` (one file's contents: `add_file` matching, `set_length`, per-blob writes, the sparse
rule; destination path joining and the path check of the repaired `collect_and_prepare`).  All statements are for every
pre-existing file content (identical, modified, truncated, longer, anything), every blob list, every option set.

* `restore_exact_partial` — with verification on, or size/mtime differing, the file ends as the snapshot's content,
   **provided** `sparse` is off or the destination file did not exist.  The excluded point is real (DESIGN §7 #13, known
   finding): `sparse_over_existing_data_witness`.  The full statement (any prior content with `sparse`) is false of the code.
* `accepted_by_size_and_mtime_witness` — the clause "(with verification … or their size/mtime differing)" is needed.
* `path_confined` — every snapshot path the repaired code accepts (`refused = false`) stays below the destination, for
   every base; `hostile_names_refused` / the `decide`d witnesses show `..`, absolute names and `a/../..` are refused
   and would have left the destination (unrepaired code: DESIGN §7 #14, fixed by 9ba0b0c).
The merge-walk (extra entries / `delete`) has no theorem yet; it is covered by the `tree` oracle of the harness.
-/
import Rustic.Model.Restore
namespace Rustic.Props.C14
open Rustic.Restore

/-! ### contents -/

theorem seg_nonsparse {o : Opts} (h : o.sparse = false) (base : Bytes) (m : Option Bytes) (pos : Nat) (b : Bytes) :
    seg o base m pos b = b := by
  unfold seg; simp [h]

theorem segs_nonsparse {o : Opts} (h : o.sparse = false) (base : Bytes) (m : Option Bytes) (pos : Nat)
    (blobs : List Bytes) : (segs o base m pos blobs).flatten = blobs.flatten := by
  induction blobs generalizing pos with
  | nil => rfl
  | cons b rest ih => simp [segs, seg_nonsparse h, ih]

theorem allZero_eq_replicate {b : Bytes} (h : allZero b = true) : b = List.replicate b.length 0 := by
  induction b with
  | nil => rfl
  | cons x rest ih =>
    simp only [allZero, List.all_cons, Bool.and_eq_true, beq_iff_eq] at h
    have hr : allZero rest = true := h.2
    rw [List.length_cons, List.replicate_succ, h.1, ← ih hr]

theorem seg_zero_base (o : Opts) (n pos : Nat) (b : Bytes) (hfit : pos + b.length ≤ n) :
    seg o (List.replicate n 0) none pos b = b := by
  unfold seg
  simp only [blobMatches]
  by_cases hz : (o.sparse && allZero b) = true
  · simp only [hz, if_true]
    have hb : allZero b = true := by simp at hz; exact hz.2
    rw [List.drop_replicate, List.take_replicate]
    have : min b.length (n - pos) = b.length := by omega
    rw [this]; exact (allZero_eq_replicate hb).symm
  · simp [hz]

theorem segs_zero_base (o : Opts) (n pos : Nat) (blobs : List Bytes) (hfit : pos + blobs.flatten.length ≤ n) :
    (segs o (List.replicate n 0) none pos blobs).flatten = blobs.flatten := by
  induction blobs generalizing pos with
  | nil => rfl
  | cons b rest ih =>
    simp only [List.flatten_cons, List.length_append] at hfit
    simp only [segs, List.flatten_cons]
    rw [seg_zero_base o n pos b (by omega), ih (pos + b.length) (by omega)]

/-- **restore_exact_partial.**  Missing hypothesis for the full statement: with `sparse`, a destination file that
already exists (see the witness below). -/
theorem restore_exact_partial (o : Opts) (old : Option Bytes) (mtimeEq : Bool) (blobs : List Bytes)
    (hcheck : o.verify = true ∨ mtimeEq = false ∨ (matchingFile old blobs.flatten.length).isSome = false)
    (hsparse : o.sparse = false ∨ old = none) :
    restoreFile o old mtimeEq blobs = some blobs.flatten := by
  unfold restoreFile
  simp only
  by_cases h0 : blobs.flatten.length = 0 ∧ (matchingFile old blobs.flatten.length).isSome = true
  · -- an empty file that exists: it *is* the content
    simp only [h0, and_self, if_true]
    obtain ⟨hl, hm⟩ := h0
    cases old with
    | none => simp [matchingFile] at hm
    | some f =>
      have hf : f.length = 0 := by
        simp only [matchingFile] at hm
        split at hm
        · rename_i h; rw [h, hl]
        · simp at hm
      have h1 : f = [] := List.eq_nil_of_length_eq_zero hf
      have h2 : blobs.flatten = [] := List.eq_nil_of_length_eq_zero hl
      subst h1
      simp [h2, matchingFile]
  · simp only [h0, if_false]
    have h1 : ¬ (o.verify = false ∧ (matchingFile old blobs.flatten.length).isSome = true ∧ mtimeEq = true) := by
      rintro ⟨a, b, c⟩
      rcases hcheck with h | h | h
      · rw [h] at a; cases a
      · rw [h] at c; cases c
      · rw [h] at b; cases b
    simp only [h1, if_false]
    rcases hsparse with hs | hs
    · rw [segs_nonsparse hs]
    · subst hs
      simp only [Option.getD_none, setLength, List.take_nil, List.nil_append, List.length_nil, Nat.sub_zero, matchingFile]
      rw [segs_zero_base o _ 0 blobs (by omega)]

/-- a fresh destination is always restored exactly, for every option set -/
theorem restore_fresh_exact (o : Opts) (mtimeEq : Bool) (blobs : List Bytes) :
    restoreFile o none mtimeEq blobs = some blobs.flatten :=
  restore_exact_partial o none mtimeEq blobs (Or.inr (Or.inr (by simp [matchingFile]))) (Or.inr rfl)

/-- DESIGN §7 #13 (open): `--sparse` over a file holding non-zero bytes — the all-zero blob is skipped, the old bytes
stay; verification does not help.  Replayed on the real code: `corpus/C14/witnesses.ops`. -/
theorem sparse_over_existing_data_witness :
    restoreFile { verify := true, sparse := true } (some [0xff, 0xff, 0xff, 0xff]) false [[0, 0, 0, 0]] =
      some [0xff, 0xff, 0xff, 0xff] := by decide

/-- without verification a file of the right size and mtime is accepted unread (hence the clause in the statement) -/
theorem accepted_by_size_and_mtime_witness :
    restoreFile { verify := false, sparse := false } (some [9, 9]) true [[1, 2]] = some [9, 9] := by decide

example : restoreFile { verify := false, sparse := false } (some [9, 9, 9]) true [[1], [2]] = some [1, 2] := by decide
example : restoreFile { verify := true, sparse := true } (some [1, 7, 7, 7]) false [[1, 2], [0, 0]] = some [1, 2, 7, 7] := by decide

/-! ### confinement -/

theorem refused_false_iff (p : List Comp) : refused p = false ↔ ∀ c ∈ p, isNormal c = true := by
  simp [refused, List.any_eq_false]

def stepC (st : List (List Char)) (c : Comp) : List (List Char) :=
  match c with
  | .root => []
  | .parent => st.drop 1
  | .cur => st
  | .normal n => n :: st

theorem resolve_eq (p : List Comp) : resolve p = (p.foldl stepC []).reverse := rfl

theorem foldl_normals (item : List Comp) (h : ∀ c ∈ item, isNormal c = true) (st : List (List Char)) :
    ∃ names : List (List Char), item.foldl stepC st = names ++ st := by
  induction item generalizing st with
  | nil => exact ⟨[], rfl⟩
  | cons c rest ih =>
    have hc := h c List.mem_cons_self
    cases c with
    | normal n =>
      obtain ⟨names, hn⟩ := ih (fun x hx => h x (List.mem_cons_of_mem _ hx)) (n :: st)
      exact ⟨names ++ [n], by simp [List.foldl_cons, stepC, hn]⟩
    | root => simp [isNormal] at hc
    | parent => simp [isNormal] at hc
    | cur => simp [isNormal] at hc

theorem isPrefix_append (a b : List (List Char)) : isPrefix a (a ++ b) = true := by
  induction a with
  | nil => rfl
  | cons x rest ih => simp [isPrefix, ih]

/-- **path_confined**: whatever the destination, a snapshot path made of plain names only — the only paths the repaired
restore accepts — resolves to a location below the destination. -/
theorem path_confined (base item : List Comp) (h : refused item = false) : confined base item = true := by
  have hn := (refused_false_iff item).1 h
  have hj : joinPath base item = base ++ item := by
    unfold joinPath
    cases item with
    | nil => simp
    | cons c rest =>
      have := hn c List.mem_cons_self
      cases c <;> simp [isNormal] at this ⊢
  unfold confined
  rw [hj, resolve_eq, resolve_eq, List.foldl_append]
  obtain ⟨names, hnames⟩ := foldl_normals item hn (base.foldl stepC [])
  rw [hnames, List.reverse_append]
  exact isPrefix_append _ _

/-- names that are `..`, absolute, or climb out through `a/../..` are refused … -/
theorem hostile_names_refused :
    refused (comps ['.', '.']) = true ∧ refused (comps ['.', '.', '/', 'e']) = true ∧
    refused (comps ['/', 'e', 't', 'c']) = true ∧ refused (comps ['a', '/', '.', '.', '/', '.', '.']) = true ∧
    refused (comps ['.']) = true := by decide

/-- … and each of them would have left the destination `/t/dest` (the behaviour of the unrepaired code) -/
theorem hostile_names_escape :
    let base := comps ['/', 't', '/', 'd', 'e', 's', 't']
    confined base (comps ['.', '.']) = false ∧ confined base (comps ['.', '.', '/', 'e']) = false ∧
    confined base (comps ['/', 'e', 't', 'c']) = false ∧
    confined base (comps ['a', '/', '.', '.', '/', '.', '.']) = false := by decide

/-- a name containing a separator is accepted and stays inside (it is restored as a nested path) -/
example : refused (comps ['a', '/', 'b']) = false ∧
    confined (comps ['/', 't', '/', 'd', 'e', 's', 't']) (comps ['a', '/', 'b']) = true := by decide

end Rustic.Props.C14
