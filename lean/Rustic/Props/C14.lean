/-
C14 — Restore yields exactly the snapshot and never writes outside the target.

Model: `Rustic/Model/Restore.lean` (one file's contents: `add_file` matching, `set_length`, per-blob writes, the sparse
rule; destination path joining and the path check of the repaired `collect_and_prepare`).  All statements are for every
pre-existing file content (identical, modified, truncated, longer, anything), every blob list, every option set.

* `restore_exact` — with verification on, or size/mtime differing, the file ends as the snapshot's content, for every
   prior content and every option set.  (Was `restore_exact_partial` with the hypothesis "sparse is off or the file did
   not exist": DESIGN §7 #13 was a genuine defect and is repaired — `sparse_over_existing_data_repaired`.)
* `restore_exact_size_or_mtime_differs` — the same spelled out on timestamps: the model's `add_file` compares seconds AND
   nanoseconds (`MTime`, `mtimeEq`); a destination file whose mtime differs from the node's only in the nanosecond part is
   rewritten.  `existing_file_trusted` is the converse (equal size and mtime to the nanosecond, no verification ⇒ kept unread).
* `accepted_by_size_and_mtime_witness` — the clause "(with verification … or their size/mtime differing)" is needed.
* `path_confined` — every snapshot path the repaired code accepts (`refused = false`) stays below the destination, for
   every base; `hostile_names_refused` / the `decide`d witnesses show `..`, absolute names and `a/../..` are refused
   and would have left the destination (unrepaired code: DESIGN §7 #14, fixed by a7b2d5a).
* `mergewalk_actions` — the merge-walk of `collect_and_prepare` (`Model/RestoreWalk.lean`), for EVERY destination listing, node
   stream, comparison function and option set: every destination entry is disposed of exactly once (matched / additional /
   hidden below an additional directory) and `process_node` runs exactly once per node, both in stream order; an additional
   entry is removed iff `delete ∧ ¬dry_run` (`mergewalk_removes_iff_delete`).  `mergewalk_classes` — with both streams sorted
   by the comparison (what WalkDir's `sort_by_file_name` and the tree order give): `additional` ⇒ no node has that path or
   the node there has another type; `exists = false` ⇒ every destination entry at that path is hidden or was disposed of as
   additional (type mismatch — as repaired, see known_findings.d/C14.json); `exists = true` / `matched` ⇒ an entry with an
   equal path (and, for `matched`, a compatible type) exists.
* `to_packs_covers_reads` — for every `RestorePlan` (every sequence of `add_file` calls, every matching pattern, every
   coalescing limits) each pack the reader threads of `restore_contents` read is in `to_packs()`, the list handed to
   `warm_up_wait`; `to_packs_only_reads` is the converse.  Reused by C16 (`warmup_before_read`).
-/
import Rustic.Model.Restore
import Rustic.Lemmas.RestoreWalk
import Rustic.Lemmas.RestoreTasks
namespace Rustic.Props.C14
open Rustic.Restore

/-! ### contents -/

theorem seg_written {o : Opts} {fresh : Bool} (h : (o.sparse && fresh) = false) (base : Bytes) (m : Option Bytes)
    (pos : Nat) (b : Bytes) : seg o fresh base m pos b = b := by
  unfold seg; simp [h]

theorem segs_written {o : Opts} {fresh : Bool} (h : (o.sparse && fresh) = false) (base : Bytes) (m : Option Bytes)
    (pos : Nat) (blobs : List Bytes) : (segs o fresh base m pos blobs).flatten = blobs.flatten := by
  induction blobs generalizing pos with
  | nil => rfl
  | cons b rest ih => simp [segs, seg_written h, ih]

theorem allZero_eq_replicate {b : Bytes} (h : allZero b = true) : b = List.replicate b.length 0 := by
  induction b with
  | nil => rfl
  | cons x rest ih =>
    simp only [allZero, List.all_cons, Bool.and_eq_true, beq_iff_eq] at h
    have hr : allZero rest = true := h.2
    rw [List.length_cons, List.replicate_succ, h.1, ← ih hr]

theorem seg_zero_base (o : Opts) (fresh : Bool) (n pos : Nat) (b : Bytes) (hfit : pos + b.length ≤ n) :
    seg o fresh (List.replicate n 0) none pos b = b := by
  unfold seg
  simp only [blobMatches]
  by_cases hz : (o.sparse && fresh && allZero b) = true
  · simp only [hz, if_true]
    have hb : allZero b = true := by simp at hz; exact hz.2
    rw [List.drop_replicate, List.take_replicate]
    have : min b.length (n - pos) = b.length := by omega
    rw [this]; exact (allZero_eq_replicate hb).symm
  · simp [hz]

theorem segs_zero_base (o : Opts) (fresh : Bool) (n pos : Nat) (blobs : List Bytes)
    (hfit : pos + blobs.flatten.length ≤ n) :
    (segs o fresh (List.replicate n 0) none pos blobs).flatten = blobs.flatten := by
  induction blobs generalizing pos with
  | nil => rfl
  | cons b rest ih =>
    simp only [List.flatten_cons, List.length_append] at hfit
    simp only [segs, List.flatten_cons]
    rw [seg_zero_base o fresh n pos b (by omega), ih (pos + b.length) (by omega)]

/-- truncate-then-extend leaves zeros only, whatever the file held -/
theorem allocate_fresh (old : Bytes) (n : Nat) : allocate old true n = List.replicate n 0 := by
  simp [allocate, setLength]

/-- **restore_exact** (no longer `_partial`: the sparse rule was repaired, see known_findings.d/C14.json).  For every
prior content of the destination file, every blob list and every option set — `sparse` included — the file ends as the
snapshot's content, when verification is on or the file's size or mtime differs from the node's. -/
theorem restore_exact (o : Opts) (old : Option Bytes) (dm nm : Option MTime) (blobs : List Bytes)
    (hcheck : o.verify = true ∨ mtimeEq dm nm = false ∨ (matchingFile old blobs.flatten.length).isSome = false) :
    restoreFile o old dm nm blobs = some blobs.flatten := by
  unfold restoreFile
  simp only
  by_cases h0 : blobs.flatten.length = 0 ∧ (matchingFile old blobs.flatten.length).isSome = true
  · -- an empty file that exists: it *is* the content
    simp only [h0, and_self, if_true]
    obtain ⟨hl, hm⟩ := h0
    cases old with
    | none => simp [matchingFile] at hm
    | some f =>
      have hf : f.length = 0 := by
        simp only [matchingFile] at hm
        split at hm
        · rename_i h; rw [h, hl]
        · simp at hm
      have h1 : f = [] := List.eq_nil_of_length_eq_zero hf
      have h2 : blobs.flatten = [] := List.eq_nil_of_length_eq_zero hl
      subst h1
      simp [h2, matchingFile]
  · simp only [h0, if_false]
    have h1 : ¬ (o.verify = false ∧ (matchingFile old blobs.flatten.length).isSome = true ∧ mtimeEq dm nm = true) := by
      rintro ⟨a, b, c⟩
      rcases hcheck with h | h | h
      · rw [h] at a; cases a
      · rw [h] at c; cases c
      · rw [h] at b; cases b
    simp only [h1, if_false]
    cases hm : matchingFile old blobs.flatten.length with
    | none =>
      simp only [Option.isNone_none, allocate_fresh]
      rw [segs_zero_base o true _ 0 blobs (by omega)]
    | some f =>
      simp only [Option.isNone_some]
      rw [segs_written (by simp)]

/-- a fresh destination is always restored exactly, for every option set -/
theorem restore_fresh_exact (o : Opts) (dm nm : Option MTime) (blobs : List Bytes) :
    restoreFile o none dm nm blobs = some blobs.flatten :=
  restore_exact o none dm nm blobs (Or.inr (Or.inr (by simp [matchingFile])))

/-- DESIGN §7 #13, **repaired**: `--sparse` over a file holding non-zero bytes.  The unrepaired rule skipped the write
of every all-zero blob, so the old bytes stayed (`ffffffff` on the first input); the repaired code writes zeros into a
reused file and truncates a file of another size first.  Replayed on the real code: `corpus/C14/witnesses.ops`. -/
theorem sparse_over_existing_data_repaired :
    restoreFile { verify := true, sparse := true } (some [0xff, 0xff, 0xff, 0xff]) (some ⟨5, 7⟩) (some ⟨6, 7⟩) [[0, 0, 0, 0]] = some [0, 0, 0, 0] ∧
    restoreFile { verify := true, sparse := true } (some [0xff, 0xff, 0xff, 0xff, 0xff, 0xff]) (some ⟨5, 7⟩) (some ⟨6, 7⟩) [[0, 0, 0, 0]] =
      some [0, 0, 0, 0] ∧
    restoreFile { verify := true, sparse := true } (some [0xff]) (some ⟨5, 7⟩) (some ⟨6, 7⟩) [[0, 0], [1, 2]] = some [0, 0, 1, 2] := by decide

/-- without verification a file of the right size and mtime is accepted unread (hence the clause in the statement) -/
theorem accepted_by_size_and_mtime_witness :
    restoreFile { verify := false, sparse := false } (some [9, 9]) (some ⟨5, 7⟩) (some ⟨5, 7⟩) [[1, 2]] = some [9, 9] := by decide

example : restoreFile { verify := false, sparse := false } (some [9, 9, 9]) (some ⟨5, 7⟩) (some ⟨5, 7⟩) [[1], [2]] = some [1, 2] := by decide
example : restoreFile { verify := true, sparse := true } (some [1, 7, 7, 7]) (some ⟨5, 7⟩) (some ⟨6, 7⟩) [[1, 2], [0, 0]] = some [1, 2, 0, 0] := by decide

/-! ### the "trust the existing file" shortcut of `add_file` compares FULL timestamps -/

/-- two readable timestamps are equal for `add_file` iff the seconds AND the nanoseconds are -/
theorem mtimeEq_some_iff (d n : MTime) : mtimeEq (some d) (some n) = true ↔ d.secs = n.secs ∧ d.nanos = n.nanos := by
  cases d; cases n; simp [mtimeEq]

theorem mtimeEq_false_of_differs {d n : MTime} (h : d.secs ≠ n.secs ∨ d.nanos ≠ n.nanos) :
    mtimeEq (some d) (some n) = false := by
  cases hb : mtimeEq (some d) (some n) with
  | false => rfl
  | true => have := (mtimeEq_some_iff d n).1 hb; omega

/-- a node without mtime never equals the mtime of an existing file -/
theorem mtimeEq_node_none (d : MTime) : mtimeEq (some d) none = false := by simp [mtimeEq]

theorem matchingFile_none_of_size_differs {old : Option Bytes} {size : Nat} (h : old.map List.length ≠ some size) :
    (matchingFile old size).isSome = false := by
  cases old with
  | none => simp [matchingFile]
  | some f =>
    have : f.length ≠ size := by simpa using h
    simp [matchingFile, this]

-- (the two theorems using these lemmas follow `restore_exact_tasks` below)

/-! ### contents, writer task by writer task (`Model/RestoreTasks.lean`) -/

/-- **restore_tasks_eq_segments.**  `restore_contents` as it is written — writer tasks only for the blobs NOT found in the
existing file, the file created / truncated / sized inside the first task, holes skipped by the task — produces, for every
prior content, blob list and option set, exactly the file of the segment model (tasks run in blob order). -/
theorem restore_tasks_eq_segments (o : Opts) (old : Option Bytes) (dm nm : Option MTime) (blobs : List Bytes) :
    restoreFileTasks o old dm nm blobs = restoreFile o old dm nm blobs :=
  restoreFileTasks_eq o old dm nm blobs

/-- `restore_exact` for the task-level model -/
theorem restore_exact_tasks (o : Opts) (old : Option Bytes) (dm nm : Option MTime) (blobs : List Bytes)
    (hcheck : o.verify = true ∨ mtimeEq dm nm = false ∨ (matchingFile old blobs.flatten.length).isSome = false) :
    restoreFileTasks o old dm nm blobs = some blobs.flatten := by
  rw [restore_tasks_eq_segments]; exact restore_exact o old dm nm blobs hcheck

/-- **restore_exact_size_or_mtime_differs.**  For ALL destination states — no file, or a file of any content `old` with any
mtime `d` — every node mtime `n`, blob list and option set: if verification of existing files is on, or the existing file's
size differs from the node's, or its mtime differs from the node's **in the seconds or only in the nanoseconds**, the
restored path holds exactly the snapshot's content (writer-task model = what the driver runs).  A comparison by whole
seconds (seeded change C14-5) breaks it at `d.secs = n.secs ∧ d.nanos ≠ n.nanos`: the `example` below. -/
theorem restore_exact_size_or_mtime_differs (o : Opts) (old : Option Bytes) (d n : MTime) (blobs : List Bytes)
    (h : o.verify = true ∨ old.map List.length ≠ some blobs.flatten.length ∨ d.secs ≠ n.secs ∨ d.nanos ≠ n.nanos) :
    restoreFileTasks o old (some d) (some n) blobs = some blobs.flatten := by
  apply restore_exact_tasks
  rcases h with h | h | h
  · exact Or.inl h
  · exact Or.inr (Or.inr (matchingFile_none_of_size_differs h))
  · exact Or.inr (Or.inl (mtimeEq_false_of_differs h))

/-- the same for a node that carries no mtime: an existing file is never trusted unread -/
theorem restore_exact_node_without_mtime (o : Opts) (old : Option Bytes) (d : MTime) (blobs : List Bytes) :
    restoreFileTasks o old (some d) none blobs = some blobs.flatten :=
  restore_exact_tasks o old (some d) none blobs (Or.inr (Or.inl (mtimeEq_node_none d)))

/-- **existing_file_trusted.**  The converse, the code as it is: without verification an existing file of the node's size
whose mtime equals the node's to the nanosecond is kept unread, whatever it holds (hence the clause of the statement). -/
theorem existing_file_trusted (o : Opts) (f : Bytes) (d : MTime) (blobs : List Bytes)
    (hv : o.verify = false) (hs : f.length = blobs.flatten.length) :
    restoreFileTasks o (some f) (some d) (some d) blobs = some f := by
  unfold restoreFileTasks
  simp [matchingFile, hs, hv, mtimeEq]

/-- same size, other content, no verification: mtime equal to the nanosecond ⇒ trusted; the nanosecond part differing within
the same second (either direction) or whole seconds differing ⇒ rewritten.  Replayed on the real code
(`corpus/C14/witnesses.ops`, `c14 file … <dst-mtime> <node-mtime>`). -/
example :
    restoreFileTasks ⟨false, false⟩ (some [9, 9]) (some ⟨1600000000, 250000000⟩) (some ⟨1600000000, 250000000⟩) [[1, 2]] = some [9, 9] ∧
    restoreFileTasks ⟨false, false⟩ (some [9, 9]) (some ⟨1600000000, 750000000⟩) (some ⟨1600000000, 250000000⟩) [[1, 2]] = some [1, 2] ∧
    restoreFileTasks ⟨false, false⟩ (some [9, 9]) (some ⟨1600000000, 0⟩) (some ⟨1600000000, 1⟩) [[1, 2]] = some [1, 2] ∧
    restoreFileTasks ⟨false, false⟩ (some [9, 9]) (some ⟨1600000001, 250000000⟩) (some ⟨1600000000, 250000000⟩) [[1, 2]] = some [1, 2] ∧
    restoreFileTasks ⟨false, false⟩ (some [9, 9]) (some ⟨1600000000, 250000000⟩) none [[1, 2]] = some [1, 2] := by decide

/-- **allocating_task_exists.**  A non-empty file that has to be created or resized (no existing file of the snapshot's
size) gets at least one writer task — the one that creates and sizes it — whatever its blobs are, all-zero blobs under
`sparse` included: a hole is skipped INSIDE its task, after the allocation.  (The seeded change C14-2 skipped holes before
the task is spawned: an all-zero file then has no task and is never created.) -/
theorem allocating_task_exists (o : Opts) (blobs : List Bytes) (h : blobs.flatten.length ≠ 0) :
    tasks o true none 0 blobs ≠ [] :=
  tasks_ne_nil_of_fresh o true blobs 0 h

/-- **restore_any_task_order.**  The writer tasks of a file run on a thread pool; whichever order they run in (`ts` = any
permutation of the file's tasks; the first one to run allocates), a non-empty file ends as the snapshot's content — under
the statement's clause (verification on, or size/mtime differing).  With `restore_tasks_eq_segments` this discharges the
former assumption "writes go to disjoint ranges, so the result is the concatenation of the segments whatever the thread
order" (`tasks_pairwise`, `writeAt_comm`, `foldl_perm_comm`). -/
theorem restore_any_task_order (o : Opts) (old : Option Bytes) (dm nm : Option MTime) (blobs : List Bytes) (ts : List Task)
    (hp : ts.Perm (tasks o (matchingFile old blobs.flatten.length).isNone (matchingFile old blobs.flatten.length) 0 blobs))
    (h0 : blobs.flatten.length ≠ 0)
    (hcheck : o.verify = true ∨ mtimeEq dm nm = false ∨ (matchingFile old blobs.flatten.length).isSome = false) :
    runTasks old (matchingFile old blobs.flatten.length).isNone blobs.flatten.length ts = some blobs.flatten := by
  rw [runTasks_any_order o _ _ blobs old ts hp]
  have h := restore_exact_tasks o old dm nm blobs hcheck
  unfold restoreFileTasks at h
  simp only [h0, if_false] at h
  have h1 : ¬ (o.verify = false ∧ (matchingFile old blobs.flatten.length).isSome = true ∧ mtimeEq dm nm = true) := by
    rintro ⟨a, b, c⟩
    rcases hcheck with h | h | h
    · rw [h] at a; cases a
    · rw [h] at c; cases c
    · rw [h] at b; cases b
  simpa only [h1, if_false] using h

/-- an all-zero file, sparse restore, no destination file: one hole task per blob, nothing is written, the file exists with
the right length; without any task (`runTasks … []`) the destination would stay absent -/
example : (tasks { verify := true, sparse := true } true none 0 [[0, 0], [0]]).map (·.hole) = [true, true] ∧
    restoreFileTasks { verify := true, sparse := true } none none (some ⟨5, 7⟩) [[0, 0], [0]] = some [0, 0, 0] ∧
    runTasks none true 3 [] = none := by decide

/-! ### confinement -/

theorem refused_false_iff (p : List Comp) : refused p = false ↔ ∀ c ∈ p, isNormal c = true := by
  simp [refused, List.any_eq_false]

def stepC (st : List (List Char)) (c : Comp) : List (List Char) :=
  match c with
  | .root => []
  | .parent => st.drop 1
  | .cur => st
  | .normal n => n :: st

theorem resolve_eq (p : List Comp) : resolve p = (p.foldl stepC []).reverse := rfl

theorem foldl_normals (item : List Comp) (h : ∀ c ∈ item, isNormal c = true) (st : List (List Char)) :
    ∃ names : List (List Char), item.foldl stepC st = names ++ st := by
  induction item generalizing st with
  | nil => exact ⟨[], rfl⟩
  | cons c rest ih =>
    have hc := h c List.mem_cons_self
    cases c with
    | normal n =>
      obtain ⟨names, hn⟩ := ih (fun x hx => h x (List.mem_cons_of_mem _ hx)) (n :: st)
      exact ⟨names ++ [n], by simp [List.foldl_cons, stepC, hn]⟩
    | root => simp [isNormal] at hc
    | parent => simp [isNormal] at hc
    | cur => simp [isNormal] at hc

theorem isPrefix_append (a b : List (List Char)) : isPrefix a (a ++ b) = true := by
  induction a with
  | nil => rfl
  | cons x rest ih => simp [isPrefix, ih]

/-- **path_confined**: whatever the destination, a snapshot path made of plain names only — the only paths the repaired
restore accepts — resolves to a location below the destination. -/
theorem path_confined (base item : List Comp) (h : refused item = false) : confined base item = true := by
  have hn := (refused_false_iff item).1 h
  have hj : joinPath base item = base ++ item := by
    unfold joinPath
    cases item with
    | nil => simp
    | cons c rest =>
      have := hn c List.mem_cons_self
      cases c <;> simp [isNormal] at this ⊢
  unfold confined
  rw [hj, resolve_eq, resolve_eq, List.foldl_append]
  obtain ⟨names, hnames⟩ := foldl_normals item hn (base.foldl stepC [])
  rw [hnames, List.reverse_append]
  exact isPrefix_append _ _

/-- names that are `..`, absolute, or climb out through `a/../..` are refused … -/
theorem hostile_names_refused :
    refused (comps ['.', '.']) = true ∧ refused (comps ['.', '.', '/', 'e']) = true ∧
    refused (comps ['/', 'e', 't', 'c']) = true ∧ refused (comps ['a', '/', '.', '.', '/', '.', '.']) = true ∧
    refused (comps ['.']) = true := by decide

/-- … and each of them would have left the destination `/t/dest` (the behaviour of the unrepaired code) -/
theorem hostile_names_escape :
    let base := comps ['/', 't', '/', 'd', 'e', 's', 't']
    confined base (comps ['.', '.']) = false ∧ confined base (comps ['.', '.', '/', 'e']) = false ∧
    confined base (comps ['/', 'e', 't', 'c']) = false ∧
    confined base (comps ['a', '/', '.', '.', '/', '.', '.']) = false := by decide

/-- a name containing a separator is accepted and stays inside (it is restored as a nested path) -/
example : refused (comps ['a', '/', 'b']) = false ∧
    confined (comps ['/', 't', '/', 'd', 'e', 's', 't']) (comps ['a', '/', 'b']) = true := by decide

/-! ### merge-walk (`collect_and_prepare`) -/

section walk
open Rustic.RestoreWalk
variable {P : Type}

/-- **mergewalk_actions.**  For every destination listing, node stream, comparison function and option set: the walk
disposes of every destination entry exactly once (as `matched`, `additional` or `skipped` = below an additional directory,
which is never entered) in listing order, calls `process_node` exactly once per node in stream order, and hands to
`remove_dir`/`remove_file` exactly the additional entries if `delete ∧ ¬dry_run` and nothing otherwise. -/
theorem mergewalk_actions (c : Cfg P) (ds : List (DEnt P)) (ns : List (NEnt P)) :
    dstOf (walk c ds ns) = ds.map (·.path) ∧
    nodesOf (walk c ds ns) = ns.map (fun n => (n.path, n.kind)) ∧
    removedOf (walk c ds ns) = (if c.delete && !c.dryRun then additionalOf (walk c ds ns) else []) :=
  ⟨walk_dst c ds ns, walk_nodes c ds ns, removedOf_eq _ _ (walk_removed_flag c ds ns)⟩

/-- nothing is removed without `delete`, nor in a dry run -/
theorem mergewalk_removes_iff_delete (c : Cfg P) (ds : List (DEnt P)) (ns : List (NEnt P)) :
    (c.delete = false ∨ c.dryRun = true → removedOf (walk c ds ns) = []) ∧
    (c.delete = true ∧ c.dryRun = false → removedOf (walk c ds ns) = additionalOf (walk c ds ns)) := by
  have h := (mergewalk_actions c ds ns).2.2
  constructor
  · rintro (hd | hd) <;> simp [h, hd]
  · rintro ⟨h1, h2⟩; simp [h, h1, h2]

/-- **mergewalk_classes.**  What the classes mean when both streams are sorted by the walk's comparison (a strict total
order): (1) `additional p` ⇒ no node has path `p`, or the node at `p` has a type the entry does not fit; (2) a node
reported `exists = false` ⇒ every destination entry at its path is hidden below an additional directory or was itself
disposed of as additional (type mismatch); (3) `exists = true` ⇒ some destination entry has that path; (4) `matched p` ⇒
a node with that path and a fitting type. -/
theorem mergewalk_classes (c : Cfg P) (L : LawfulCmp c.cmp) (ds : List (DEnt P)) (ns : List (NEnt P))
    (hd : SortedD c ds) (hn : SortedN c ns) :
    (∀ p isDir r, Ev.additional p isDir r ∈ walk c ds ns →
      (∀ n ∈ ns, n.path ≠ p) ∨ (∃ n ∈ ns, ∃ d ∈ ds, n.path = p ∧ d.path = p ∧ mismatch n.kind d.kind = true)) ∧
    (∀ p k, Ev.node p k false ∈ walk c ds ns → ∀ e ∈ ds, e.path = p →
      Ev.skipped p ∈ walk c ds ns ∨ ∃ isDir r, Ev.additional p isDir r ∈ walk c ds ns) ∧
    (∀ p k, Ev.node p k true ∈ walk c ds ns → ∃ d ∈ ds, d.path = p) ∧
    (∀ p, Ev.matched p ∈ walk c ds ns → ∃ d ∈ ds, ∃ n ∈ ns, d.path = p ∧ n.path = p ∧ mismatch n.kind d.kind = false) := by
  refine ⟨walk_additional_sound c L ds ns hd hn, walk_tocreate_sound c L ds ns hd hn, ?_, ?_⟩
  · intro p k h
    obtain ⟨d, hd', hq⟩ := walk_exist_sound c ds ns p k h
    exact ⟨d, hd', (L.eq_iff _ _).1 hq⟩
  · intro p h
    obtain ⟨d, hd', n, hn', h1, h2, h3⟩ := walk_matched_sound c ds ns p h
    exact ⟨d, hd', n, hn', h1, by rw [← (L.eq_iff _ _).1 h2]; exact h1, h3⟩

theorem mem_removedOf {evs : List (Ev P)} {p : P} (h : p ∈ removedOf evs) : ∃ isDir, Ev.additional p isDir true ∈ evs := by
  induction evs with
  | nil => cases h
  | cons e rest ih =>
    cases e with
    | additional q d r =>
      cases r with
      | true =>
        rcases List.mem_cons.1 h with h | h
        · exact ⟨d, by rw [h]; exact List.mem_cons_self⟩
        · obtain ⟨d', hd'⟩ := ih h; exact ⟨d', List.mem_cons_of_mem _ hd'⟩
      | false => obtain ⟨d', hd'⟩ := ih h; exact ⟨d', List.mem_cons_of_mem _ hd'⟩
    | matched q => obtain ⟨d', hd'⟩ := ih h; exact ⟨d', List.mem_cons_of_mem _ hd'⟩
    | skipped q => obtain ⟨d', hd'⟩ := ih h; exact ⟨d', List.mem_cons_of_mem _ hd'⟩
    | node q k e => obtain ⟨d', hd'⟩ := ih h; exact ⟨d', List.mem_cons_of_mem _ hd'⟩

/-- **delete_spares_snapshot_paths.**  `--delete` never hands a snapshot path to `remove_dir` / `remove_file` unless the
entry there has a type the node does not fit (a file in place of a directory, …, which is then re-created): for every
destination listing and node stream sorted by the comparison the walk uses (a strict total order), every removed path has
no node, or a node of a mismatching type.  The hypothesis "sorted by the SAME comparison" is what the seeded change C14-3
breaks (byte-wise comparison of streams that are sorted component-wise) — witness below. -/
theorem delete_spares_snapshot_paths (c : Cfg P) (L : LawfulCmp c.cmp) (ds : List (DEnt P)) (ns : List (NEnt P))
    (hd : SortedD c ds) (hn : SortedN c ns) :
    ∀ p ∈ removedOf (walk c ds ns),
      (∀ n ∈ ns, n.path ≠ p) ∨ (∃ n ∈ ns, ∃ d ∈ ds, n.path = p ∧ d.path = p ∧ mismatch n.kind d.kind = true) := by
  intro p hp
  obtain ⟨isDir, h⟩ := mem_removedOf hp
  exact (mergewalk_classes c L ds ns hd hn).1 p isDir true h

/-- **delete_spares_hidden_snapshot_paths.**  The entries `--delete` removes *implicitly* — those below a removed directory,
which the walk never visits (`skip_current_dir`) — are no snapshot paths either, provided the node stream is a tree walk:
above every node lies a directory node (`hparent`: a node below the destination directory `d` ⇒ a directory node at `d`'s
path; `NodeStreamer` yields a directory before its content).  Together with `delete_spares_snapshot_paths`: with sorted
streams no snapshot path whose entry fits the node's type is removed, directly or with a directory above it. -/
theorem delete_spares_hidden_snapshot_paths (c : Cfg P) (L : LawfulCmp c.cmp) (ds : List (DEnt P)) (ns : List (NEnt P))
    (hd : SortedD c ds) (hn : SortedN c ns)
    (hparent : ∀ n ∈ ns, ∀ d ∈ ds, c.under d.path n.path = true → ∃ m ∈ ns, m.path = d.path ∧ m.kind = .dir) :
    ∀ q, Ev.skipped q ∈ walk c ds ns → ∀ n ∈ ns, n.path ≠ q := by
  intro q hq n hn' hnq
  obtain ⟨d, hdm, hk, hu, r, hadd⟩ := walk_skipped_origin c ds ns q hq
  obtain ⟨m, hm, hmp, hmk⟩ := hparent n hn' d hdm (by rw [hnq]; exact hu)
  rcases (mergewalk_classes c L ds ns hd hn).1 d.path true r hadd with h | ⟨n', hn'', d', hd', h1, h2, h3⟩
  · exact h m hm hmp
  · have e1 : n' = m := sorted_path_unique L (fun x : NEnt P => x.path) hn n' hn'' m hm (h1.trans hmp.symm)
    have e2 : d' = d := sorted_path_unique L (fun x : DEnt P => x.path) hd d' hd' d hdm h2
    subst e1; subst e2
    simp [mismatch, hmk, hk] at h3

/-- non-vacuity: paths are numbers, the children of directory `d` are `10·d … 10·d+9`.  Destination: dir 1 (with 10, 11),
file 2, file 3; snapshot: file 2, dir 3, file 4; `--delete`. -/
def exCfg (delete : Bool) : Cfg Nat :=
  { cmp := compare, under := fun d p => decide (10 * d ≤ p ∧ p < 10 * d + 10), delete := delete, dryRun := false }

example : walk (exCfg true) [⟨1, .dir⟩, ⟨10, .file⟩, ⟨11, .file⟩, ⟨2, .file⟩, ⟨3, .file⟩] [⟨2, .file⟩, ⟨3, .dir⟩, ⟨4, .file⟩] =
    [.additional 1 true true, .skipped 10, .skipped 11, .matched 2, .node 2 .file true,
     .additional 3 false true, .node 3 .dir false, .node 4 .file false] := by
  simp [walk, existingEvs, skipSplit, mismatch, exCfg, compare, compareOfLessAndEq]

/-- non-vacuity of the hypotheses of `mergewalk_classes`: the example comparison is lawful and both example streams are sorted -/
example : LawfulCmp (exCfg true).cmp :=
  { eq_iff := fun a b => by simp [exCfg, Nat.compare_eq_eq]
    lt_trans := fun a b c h1 h2 => by
      simp only [exCfg, Nat.compare_eq_lt] at h1 h2 ⊢; omega
    gt_iff := fun a b => by simp [exCfg, Nat.compare_eq_gt, Nat.compare_eq_lt] }

example : SortedD (exCfg true) [⟨1, .dir⟩, ⟨2, .file⟩, ⟨3, .file⟩] ∧ SortedN (exCfg true) [⟨2, .file⟩, ⟨3, .dir⟩, ⟨4, .file⟩] := by
  simp [SortedD, SortedN, exCfg, Nat.compare_eq_lt]

/-- non-vacuity of `delete_spares_hidden_snapshot_paths`: destination directory 1 (holding 10) is additional, 10 is never
visited; the tree-walk hypothesis holds for the stream [2] -/
example : Ev.skipped 10 ∈ walk (exCfg true) [⟨1, .dir⟩, ⟨10, .file⟩] [⟨2, .file⟩] ∧
    (∀ n ∈ [(⟨2, .file⟩ : NEnt Nat)], ∀ d ∈ [(⟨1, .dir⟩ : DEnt Nat), ⟨10, .file⟩], (exCfg true).under d.path n.path = true →
      ∃ m ∈ [(⟨2, .file⟩ : NEnt Nat)], m.path = d.path ∧ m.kind = .dir) := by
  constructor
  · simp [walk, existingEvs, skipSplit, exCfg, compare, compareOfLessAndEq]
  · simp [exCfg]

/-- Witness for the sortedness hypothesis of `delete_spares_snapshot_paths` (the seeded change C14-3): directory 1 holds
10 and 11, file 2 is its sibling; listing and stream are in walk order (1, 10, 11, 2 — "`a/keep`, `a/notes`, `a.txt`"), but
the walk compares with an order they are NOT sorted by (here numeric: 2 < 10).  Destination = snapshot + the extra entry
11: with `--delete` the walk removes 11 **and the snapshot file 2**. -/
example : removedOf (walk (exCfg true) [⟨1, .dir⟩, ⟨10, .file⟩, ⟨11, .file⟩, ⟨2, .file⟩] [⟨1, .dir⟩, ⟨10, .file⟩, ⟨2, .file⟩]) = [11, 2] ∧
    ¬ SortedD (exCfg true) [⟨1, .dir⟩, ⟨10, .file⟩, ⟨11, .file⟩, ⟨2, .file⟩] := by
  constructor
  · simp [walk, existingEvs, skipSplit, mismatch, exCfg, compare, compareOfLessAndEq, removedOf]
  · simp [SortedD, exCfg, Nat.compare_eq_lt]

end walk

/-! ### RestorePlan: the warm-up list -/

section plan
open Rustic.RestoreWalk

/-- **to_packs_covers_reads.**  Every pack the reader threads of `restore_contents` read from the repository is in
`RestorePlan::to_packs()` — the list `restore_repository` hands to `warm_up_wait` before reading — for every plan and all
coalescing limits. -/
theorem to_packs_covers_reads (hole limit : Nat) (r : RInfo) : ∀ p ∈ packReads hole limit r, p ∈ toPacks r :=
  packReads_subset_toPacks hole limit r

/-- … in particular for the plan built by any sequence of `add_file` calls -/
theorem to_packs_covers_reads_of_add_file (hole limit : Nat) (files : List (List Blob)) :
    ∀ p ∈ packReads hole limit (build files), p ∈ toPacks (build files) :=
  packReads_subset_toPacks hole limit (build files)

/-- the converse: only packs that are read are warmed up -/
theorem to_packs_only_reads (hole limit : Nat) (r : RInfo) : ∀ p ∈ toPacks r, p ∈ packReads hole limit r :=
  toPacks_subset_packReads hole limit r

/-- non-vacuity: file 0 = blobs (pack 7 @0, pack 7 @40 matching, pack 9 @0); file 1 = the pack-7 @40 blob not matching.
The blob at pack 7 @40 has a matching location ⇒ read from the existing file unless coalesced into the group of pack 7 @0. -/
def exFiles : List (List Blob) :=
  [[⟨7, ⟨0, 40, 8⟩, false⟩, ⟨7, ⟨40, 40, 8⟩, true⟩, ⟨9, ⟨0, 40, 8⟩, false⟩], [⟨7, ⟨40, 40, 8⟩, false⟩]]

example : toPacks (build exFiles) = [7, 9] ∧ packReads 0 1000 (build exFiles) = [7, 9] ∧
    readsOf (packInfos 0 10 (build exFiles)) = [.pack 7 0 40, .file 0 8 8, .pack 9 0 40] := by decide

/-- the first blob of pack 7 (lowest offset) is found in the existing file, a later blob of the same pack is not: the pack is
still read and therefore in `to_packs()` (the seeded change C16-3 looked at the first entry of each pack only) -/
example : toPacks (build [[⟨7, ⟨0, 40, 8⟩, true⟩, ⟨7, ⟨40, 40, 8⟩, false⟩, ⟨7, ⟨80, 40, 8⟩, true⟩]]) = [7] ∧
    packReads 0 1000 (build [[⟨7, ⟨0, 40, 8⟩, true⟩, ⟨7, ⟨40, 40, 8⟩, false⟩, ⟨7, ⟨80, 40, 8⟩, true⟩]]) = [7] := by decide

end plan

end Rustic.Props.C14
