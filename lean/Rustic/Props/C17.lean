/-
C17 — The in-memory index answers exactly what the index files say.

Property theorems only (helper lemmas: `Rustic/Lemmas/Index.lean`; model: `Rustic/Model/Index.lean`).
All statements quantify over every list of index files (any number of packs and blobs, duplicates, the same
id under both types, empty packs, marked packs), every id, every index mode — no size bound — and over EVERY
index value the code may produce: `into_index` sorts with an unstable sort, so the theorems are stated for any
`idx` with `Loaded m files idx` (= packs and totals of the collector, entries SOME id-sorted permutation of the
collected ones); `load_is_loaded` shows the executable model is one of them.

`WF files` (every pack lists blobs of one type) is the code's documented precondition
(`IndexPack::blob_type`: "Only packs with identical blob types are allowed"); packers write one type per
pack.  The theorems `*_filed` in Lemmas/Index state the exact behaviour without it, and
`mixed_pack_is_filed_under_first_blob_type` is the witness of what happens outside it.
-/
import Rustic.Lemmas.Index
import Rustic.Lemmas.PackU32
import Rustic.Lemmas.IndexLoad
namespace Rustic.Props.C17
open Rustic.Pack Rustic.Index

/-- `idx` is a possible outcome of `GlobalIndex::new_from_collector(IndexCollector::new(m))` on `files`. -/
def Loaded (m : IndexType) (files : List IndexFile) (idx : Index) : Prop :=
  idx.IsIndexOf ((Collector.new m).extend (unmarked files))

/-- every pack not marked for deletion lists blobs of a single type -/
def WF (files : List IndexFile) : Prop := ∀ p ∈ unmarked files, p.Homogeneous

/-- "some index file lists that blob in a pack that is not marked for deletion" -/
def ListedUnmarked (files : List IndexFile) (t : BlobType) (id : Nat) : Prop :=
  ∃ f ∈ files, ∃ p ∈ f.packs, ∃ b ∈ p.blobs, b.tpe = t ∧ b.id = id

theorem listedUnmarked_iff (files : List IndexFile) (t : BlobType) (id : Nat) :
    ListedUnmarked files t id ↔ ∃ p ∈ unmarked files, ∃ b ∈ p.blobs, b.tpe = t ∧ b.id = id := by
  simp only [ListedUnmarked, unmarked, List.mem_flatMap]
  constructor
  · rintro ⟨f, hf, p, hp, r⟩; exact ⟨p, ⟨f, hf, hp⟩, r⟩
  · rintro ⟨p, ⟨f, hf, hp⟩, r⟩; exact ⟨f, hf, p, hp, r⟩

/-- The executable model (`load`, run by the driver against the real code) is one possible outcome. -/
theorem load_is_loaded (m : IndexType) (files : List IndexFile) : Loaded m files (load m files) := by
  unfold Loaded load
  rw [collect_eq_extend]
  exact intoIndex_isIndexOf _

/-- (binary search, soundness — no sortedness needed) a reported position holds the key. -/
theorem binary_search_sound (keys : List Nat) (x i : Nat) (h : bsearch keys x = some i) :
    keys[i]? = some x := (bsearch_sound h).2

/-- (binary search, completeness) on ANY sorted list — whichever sorted permutation the unstable sort
produced — a present key is found. -/
theorem binary_search_complete (keys : List Nat) (hs : keys.Pairwise (· ≤ ·)) (x : Nat) :
    (bsearch keys x).isSome = true ↔ x ∈ keys := bsearch_isSome_iff hs x

/-- (1) Presence: `has(t, id)` succeeds exactly when the mode retains ids of type `t` and some index file
lists `(t, id)` in a pack that is not marked for deletion. -/
theorem has_iff (m : IndexType) (files : List IndexFile) (hwf : WF files) (idx : Index)
    (h : Loaded m files idx) (t : BlobType) (id : Nat) :
    idx.has t id = true ↔ retainsIds m t = true ∧ ListedUnmarked files t id := by
  rw [has_iff_filed h, filedUnder_iff_listed hwf, listedUnmarked_iff]

/-- (2a) Lookup soundness: the entry `get_id` returns is one of the listings of `(t, id)` in an unmarked
pack — its pack id, offset, length and uncompressed length are those of that listing. -/
theorem get_returns_a_listing (m : IndexType) (files : List IndexFile) (hwf : WF files) (idx : Index)
    (h : Loaded m files idx) (t : BlobType) (id : Nat) (e : IndexEntry) (hg : idx.getId t id = some e) :
    e ∈ listed (unmarked files) t id := by
  obtain ⟨_, p, hp, _, b, hb, hid, he⟩ := get_sound_filed h hg
  exact mem_listed.mpr ⟨p, hp, b, hb, hwf p hp b hb ▸ (by assumption), hid, he⟩

/-- (2b) Lookup completeness: with full entries for `t`, `get_id` succeeds exactly when `(t, id)` is listed
in an unmarked pack (and in particular never indexes out of range). -/
theorem get_succeeds_iff (m : IndexType) (files : List IndexFile) (hwf : WF files) (idx : Index)
    (h : Loaded m files idx) (t : BlobType) (id : Nat) :
    (idx.getId t id).isSome = true ↔ retainsFull m t = true ∧ ListedUnmarked files t id := by
  constructor
  · intro hs
    obtain ⟨e, he⟩ := Option.isSome_iff_exists.mp hs
    obtain ⟨hr, p, hp, ht, b, hb, hid, _⟩ := get_sound_filed h he
    exact ⟨hr, (listedUnmarked_iff ..).mpr ⟨p, hp, b, hb, by rw [hwf p hp b hb, ht], hid⟩⟩
  · rintro ⟨hr, hl⟩
    exact get_complete_filed h hr ((filedUnder_iff_listed hwf t id).mpr ((listedUnmarked_iff ..).mp hl))

/-- (3) Packs marked for deletion are invisible: index files that differ only in `packs_to_delete` load to
the same indexes (a blob listed only in marked packs is therefore not found, by `has_iff`). -/
theorem marked_packs_invisible (m : IndexType) (files files' : List IndexFile)
    (hp : files.map (·.packs) = files'.map (·.packs)) (idx : Index) :
    Loaded m files idx ↔ Loaded m files' idx := by
  have : unmarked files = unmarked files' := by
    have e : ∀ fs : List IndexFile, unmarked fs = (fs.map (·.packs)).flatten := by
      intro fs; simp [unmarked, List.flatMap_def]
    rw [e, e, hp]
  unfold Loaded; rw [this]

/-- (4) Size totals: per type the sum of the pack sizes filed under it; over both types the sum over all
unmarked packs (`pack_size` = the `size` field, else computed from the blobs). -/
theorem total_size_sum (m : IndexType) (files : List IndexFile) (idx : Index) (h : Loaded m files idx) :
    (∀ t, idx.totalSize t = (((unmarked files).filter (fun p => decide (p.blobType = t))).map (·.packSize)).sum) ∧
    idx.totalSize .tree + idx.totalSize .data = ((unmarked files).map (·.packSize)).sum := by
  refine ⟨fun t => totalSize_filed h t, ?_⟩
  rw [totalSize_filed h, totalSize_filed h, sum_filed]

/-- (5) The reduced modes agree with the full index on what they retain: presence of every `(t, id)` in
`DataIds` mode; presence and lookup success of trees in both reduced modes; all size totals.  What they do
not retain answers "absent": data lookups in `DataIds`, data presence and lookups in `OnlyTrees`. -/
theorem reduced_modes_agree (files : List IndexFile) (iF iI iT : Index)
    (hF : Loaded .full files iF) (hI : Loaded .dataIds files iI) (hT : Loaded .onlyTrees files iT)
    (t : BlobType) (id : Nat) :
    iI.has t id = iF.has t id ∧ iT.has .tree id = iF.has .tree id ∧
    (iI.getId .tree id).isSome = (iF.getId .tree id).isSome ∧
    (iT.getId .tree id).isSome = (iF.getId .tree id).isSome ∧
    iI.getId .data id = none ∧ iT.getId .data id = none ∧ iT.has .data id = false ∧
    iI.totalSize t = iF.totalSize t ∧ iT.totalSize t = iF.totalSize t := by
  have hasEq : ∀ {a b : Index} {t}, (a.has t id = true ↔ b.has t id = true) → a.has t id = b.has t id :=
    fun h => Bool.eq_iff_iff.mpr h
  have getIff : ∀ {m} {i : Index}, Loaded m files i → retainsFull m .tree = true →
      ((i.getId .tree id).isSome = true ↔ FiledUnder (unmarked files) .tree id) := by
    intro m i hi hr
    constructor
    · intro hs
      obtain ⟨e, he⟩ := Option.isSome_iff_exists.mp hs
      obtain ⟨_, p, hp, ht, b, hb, hid, _⟩ := get_sound_filed hi he
      exact ⟨p, hp, ht, b, hb, hid⟩
    · exact get_complete_filed hi hr
  refine ⟨hasEq ?_, hasEq ?_, Bool.eq_iff_iff.mpr ?_, Bool.eq_iff_iff.mpr ?_,
    getId_none_of_not_retained hI rfl id, getId_none_of_not_retained hT rfl id, ?_, ?_, ?_⟩
  · rw [has_iff_filed hI, has_iff_filed hF]; cases t <;> simp [retainsIds]
  · rw [has_iff_filed hT, has_iff_filed hF]; simp [retainsIds]
  · rw [getIff hI rfl, getIff hF rfl]
  · rw [getIff hT rfl, getIff hF rfl]
  · have := has_iff_filed hT .data id
    simp only [retainsIds, Bool.false_eq_true, false_and, iff_false] at this
    simpa using this
  · rw [totalSize_filed hI, totalSize_filed hF]
  · rw [totalSize_filed hT, totalSize_filed hF]

/-- (5') For the deterministic model the tree lookups of the reduced modes return the very same entry. -/
theorem reduced_modes_same_tree_entry (files : List IndexFile) (id : Nat) :
    (load .dataIds files).getId .tree id = (load .full files).getId .tree id ∧
    (load .onlyTrees files).getId .tree id = (load .full files).getId .tree id := by
  have key : ∀ m, (load m files).tree = (load .full files).tree := by
    intro m
    unfold load
    rw [collect_eq_extend, collect_eq_extend]
    have h1 := extend_get (Collector.new m) (unmarked files) .tree
    have h2 := extend_get (Collector.new .full) (unmarked files) .tree
    simp only [Collector.get] at h1 h2
    simp only [Collector.intoIndex]
    rw [h1, h2]
    cases m <;> rfl
  constructor <;> simp only [Index.getId, Index.get, key]

/-- (6) The order in which index files are streamed (parallel `stream_all`) does not matter for presence,
lookup success and totals. -/
theorem file_order_irrelevant (m : IndexType) (files files' : List IndexFile) (hperm : files.Perm files')
    (i i' : Index) (h : Loaded m files i) (h' : Loaded m files' i') (t : BlobType) (id : Nat) :
    i.has t id = i'.has t id ∧ (i.getId t id).isSome = (i'.getId t id).isSome ∧
    i.totalSize t = i'.totalSize t := by
  have hu : (unmarked files).Perm (unmarked files') := hperm.flatMap_right _
  have hf : FiledUnder (unmarked files) t id ↔ FiledUnder (unmarked files') t id := by
    simp only [FiledUnder, hu.mem_iff]
  refine ⟨Bool.eq_iff_iff.mpr ?_, Bool.eq_iff_iff.mpr ?_, ?_⟩
  · rw [has_iff_filed h, has_iff_filed h', hf]
  · cases hr : retainsFull m t
    · rw [getId_none_of_not_retained h hr, getId_none_of_not_retained h' hr]
    · constructor
      · intro hs
        obtain ⟨e, he⟩ := Option.isSome_iff_exists.mp hs
        obtain ⟨_, p, hp, ht, b, hb, hid, _⟩ := get_sound_filed h he
        exact get_complete_filed h' hr (hf.mp ⟨p, hp, ht, b, hb, hid⟩)
      · intro hs
        obtain ⟨e, he⟩ := Option.isSome_iff_exists.mp hs
        obtain ⟨_, p, hp, ht, b, hb, hid, _⟩ := get_sound_filed h' he
        exact get_complete_filed h hr (hf.mpr ⟨p, hp, ht, b, hb, hid⟩)
  · rw [totalSize_filed h, totalSize_filed h']
    exact ((hu.filter _).map _).sum_nat

/-- (7) `drop_data`: tree answers are untouched, data answers "absent" with total 0. -/
theorem drop_data_spec (idx : Index) (id : Nat) :
    idx.dropData.has .tree id = idx.has .tree id ∧ idx.dropData.getId .tree id = idx.getId .tree id ∧
    idx.dropData.totalSize .tree = idx.totalSize .tree ∧
    idx.dropData.has .data id = false ∧ idx.dropData.getId .data id = none ∧ idx.dropData.totalSize .data = 0 :=
  ⟨rfl, rfl, rfl, rfl, rfl, rfl⟩

/-- (8) Pack iteration (`PackIndexes`) of a full index — for ANY pack-index-sorted permutation `s` of the
collected entries of type `t` (the code sorts unstably): the packs of that type come out in the order they
were filed, the `i`-th with the `i`-th pack's id, no size, and a permutation of exactly its blobs. -/
theorem iter_type_roundtrip (files : List IndexFile) (hwf : WF files) (t : BlobType) (s : List SortedEntry)
    (hperm : s.Perm (entriesOf 0 (filed (unmarked files) t)))
    (hs : s.Pairwise (fun a b => a.packIdx ≤ b.packIdx)) :
    (iterPacks t 0 ((filed (unmarked files) t).map (·.id)) s).length = (filed (unmarked files) t).length ∧
    ∀ (i : Nat) (p : IndexPack), (filed (unmarked files) t)[i]? = some p →
      ∃ out : IndexPack, (iterPacks t 0 ((filed (unmarked files) t).map (·.id)) s)[i]? = some out ∧
        out.id = p.id ∧ out.size = none ∧ out.blobs.Perm p.blobs := by
  refine ⟨by rw [iterPacks_length, List.length_map], ?_⟩
  intro i p hp
  obtain ⟨bl, h1, h2⟩ := iter_getElem? t (filed (unmarked files) t) s hperm hs i
  rw [hp] at h1
  refine ⟨_, h1, rfl, rfl, ?_⟩
  have hpm : p ∈ filed (unmarked files) t := List.mem_of_getElem? hp
  simp only [filed, List.mem_filter, decide_eq_true_eq] at hpm
  have hid : p.blobs.map (fun b => { b with tpe := t }) = p.blobs := by
    rw [List.map_congr_left (g := id)]
    · simp
    · intro b hb
      have := hwf p hpm.1 b hb
      rw [hpm.2] at this
      cases b; simp_all
  simpa [hid] using h2 p hp

/-- (8') The model's `into_iter` (tree packs, then data packs) is an instance. -/
theorem model_iter_is_tree_then_data (files : List IndexFile) :
    (load .full files).intoIter =
      (load .full files).tree.iter .tree ++ (load .full files).data.iter .data := rfl

/-! ### the `u32` corner of `pack_size()` (sizes in index files are not bounded by what a pack can hold)

`Model/Index.lean` computes sizes in `Nat`; the code folds `acc + length + entry_len` on `u32` (`Model/PackU32.lean`:
`packSizeChecked` = builds with overflow checks, `none` = panic `attempt to add with overflow`; `packSizeWrapping` =
release builds).  `FitsU32 p` (the computed size is `< 2^32`) is exactly the condition under which the `Nat` model is the
code. -/
open Rustic.PackU32 in
/-- `IndexPack::pack_size` as the code computes it: with overflow checks it returns the `Nat` model's value if that fits
`u32` and panics otherwise; without, it returns the value modulo 2^32 (`hsz`: the `size` field is a `u32`). -/
theorem pack_size_u32 (p : IndexPack) (hsz : ∀ s, p.size = some s → s < U32) :
    IndexPack.packSizeChecked p = (if FitsU32 p then some p.packSize else none) ∧
      IndexPack.packSizeWrapping p = p.packSize % U32 := by
  obtain ⟨id, blobs, size⟩ := p
  cases size with
  | none =>
    refine ⟨?_, packSizeWrapping_eq blobs⟩
    simp only [IndexPack.packSizeChecked, FitsU32, IndexPack.packSize]
    exact packSizeChecked_eq blobs
  | some s =>
    have hs : s < U32 := hsz s rfl
    simp only [IndexPack.packSizeChecked, IndexPack.packSizeWrapping, FitsU32, IndexPack.packSize]
    exact ⟨by simp [hs], (Nat.mod_eq_of_lt hs).symm⟩

open Rustic.PackU32 in
/-- (4') `total_size_sum` in terms of the code's own `u32` computation — PARTIAL.
Full statement (false, see the witness below): for EVERY set of index files the totals equal the sum of the listed pack
sizes.  Missing hypothesis: `hfit` — every unmarked pack's computed size fits `u32`.  Under it the code's checked
computation succeeds for every listed pack, equals the `Nat` model's size, and the totals are the sums of those values. -/
theorem total_size_sum_u32_partial (m : IndexType) (files : List IndexFile) (idx : Index) (h : Loaded m files idx)
    (hsz : ∀ p ∈ unmarked files, ∀ s, p.size = some s → s < U32)
    (hfit : ∀ p ∈ unmarked files, FitsU32 p) :
    (∀ p ∈ unmarked files, IndexPack.packSizeChecked p = some p.packSize ∧ IndexPack.packSizeWrapping p = p.packSize) ∧
    idx.totalSize .tree + idx.totalSize .data = ((unmarked files).map (·.packSize)).sum := by
  refine ⟨fun p hp => ?_, (total_size_sum m files idx h).2⟩
  obtain ⟨h1, h2⟩ := pack_size_u32 p (hsz p hp)
  have hf := hfit p hp
  refine ⟨by rw [h1]; simp [hf], ?_⟩
  rw [h2]; exact Nat.mod_eq_of_lt hf

open Rustic.PackU32 in
/-- Witness outside `hfit` (replayed on the real code: corpus/C17/witnesses.ops, known finding): one pack listing two
blobs of 2^31 bytes.  The listed sizes add up to 2^32 + 110; a checked build panics when the index is loaded, a release
build records 110.  One byte less (2^32 − 1 in total) is still fine. -/
theorem pack_size_overflow_witness :
    let p : IndexPack := { id := 1, size := none, blobs := [⟨5, .data, ⟨0, 2147483648, none⟩⟩, ⟨7, .data, ⟨2147483648, 2147483648, none⟩⟩] }
    let q : IndexPack := { id := 1, size := none, blobs := [⟨5, .data, ⟨0, 2147483648, none⟩⟩, ⟨7, .data, ⟨2147483648, 2147483537, none⟩⟩] }
    ¬ FitsU32 p ∧ p.packSize = 4294967406 ∧ IndexPack.packSizeChecked p = none ∧ IndexPack.packSizeWrapping p = 110 ∧
      FitsU32 q ∧ IndexPack.packSizeChecked q = some 4294967295 := by decide

/-- Outside `WF`: a pack whose blobs have mixed types is filed — with ALL its blobs — under the type of its
first blob.  Here the data blob `7` of a tree-first pack is not found as data and is found as a tree.
(Replayed on the real code: corpus/C17/witnesses.ops, where model and code agree.) -/
theorem mixed_pack_is_filed_under_first_blob_type :
    let files : List IndexFile :=
      [{ packs := [{ id := 1, size := none,
                     blobs := [{ id := 5, tpe := .tree, loc := ⟨0, 40, none⟩ },
                               { id := 7, tpe := .data, loc := ⟨40, 50, none⟩ }] }],
         packsToDelete := [] }]
    ¬ WF files ∧ ListedUnmarked files .data 7 ∧ (load .full files).has .data 7 = false ∧
      (load .full files).has .tree 7 = true := by
  refine ⟨?_, ?_, by decide, by decide⟩
  · intro h
    have := h { id := 1, size := none,
                blobs := [{ id := 5, tpe := .tree, loc := ⟨0, 40, none⟩ }, { id := 7, tpe := .data, loc := ⟨40, 50, none⟩ }] }
      (by simp [unmarked]) { id := 7, tpe := .data, loc := ⟨40, 50, none⟩ } (by simp)
    simp [IndexPack.blobType] at this
  · exact ⟨_, List.mem_cons_self .., _, List.mem_cons_self .., _, List.mem_cons_of_mem _ (List.mem_cons_self ..), rfl, rfl⟩

/-! ### loading the index files a repository LISTS (`GlobalIndex::new_from_collector` over `stream_all`)

The theorems above are about "the index files" handed to the collector.  The repository lists index ids; each is fetched
(`get_file`: backend read, MAC check + decryption, JSON) and each fetch may fail (`Model/IndexLoad.lean`).  The loop
`for index in stream { collector.extend(index?.1.packs) }` returns the first error of the stream; so an `Ok` index was fed
with EVERY listed file, and `has_iff` & co. hold for "the index files the repository lists", not for "the files that
happened to load".  The stream order is arbitrary (parallel fetches): every permutation of the listing is covered. -/
section Loading
open Rustic.IndexLoad

/-- `out` is a possible outcome of `new_from_collector(IndexCollector::new(m))` on the stream of per-file results `rs`
(for `Ok`: ANY id-sorted permutation the unstable sort may produce, as in `Loaded`). -/
def LoadOutcome (m : IndexType) (rs : List (Except LoadErr IndexFile)) : Except LoadErr Index → Prop
  | .error e => firstError rs = some e
  | .ok idx => firstError rs = none ∧ Loaded m (oks rs) idx

/-- The executable model (`loadResults`, run by the driver against the real code) is one possible outcome. -/
theorem loadResults_is_outcome (m : IndexType) (rs : List (Except LoadErr IndexFile)) :
    LoadOutcome m rs (loadResults m rs) := by
  rw [loadResults_eq]
  cases h : firstError rs with
  | some e => exact h
  | none => exact ⟨h, load_is_loaded m _⟩

/-- If ANY file of the stream fails to load, the load fails — with the error of a file that failed (the first in stream
order); no index is handed out. -/
theorem load_fails_if_any_file_fails (m : IndexType) (rs : List (Except LoadErr IndexFile))
    (out : Except LoadErr Index) (h : LoadOutcome m rs out) (hf : ∃ e, Except.error e ∈ rs) :
    ∃ e, out = .error e ∧ Except.error e ∈ rs := by
  cases out with
  | error e => exact ⟨e, rfl, firstError_mem h⟩
  | ok idx =>
    have := firstError_isSome_iff.mpr hf
    rw [h.1] at this; cases this

/-- An `Ok` index means every file of the stream loaded, and the index is a `Loaded` outcome of exactly those files
(all of them, in stream order). -/
theorem load_ok_means_every_file_loaded (m : IndexType) (rs : List (Except LoadErr IndexFile)) (idx : Index)
    (h : LoadOutcome m rs (.ok idx)) :
    ∃ files, rs = files.map Except.ok ∧ Loaded m files idx :=
  ⟨oks rs, map_ok_oks h.1, h.2⟩

/-- The executable model succeeds exactly when every file loads, and then it is `load` of all files. -/
theorem load_ok_iff_all_files_load (m : IndexType) (rs : List (Except LoadErr IndexFile)) :
    ((∃ idx, loadResults m rs = .ok idx) ↔ ∀ r ∈ rs, ∃ f, r = Except.ok f) ∧
      ∀ files, loadResults m (files.map Except.ok) = .ok (load m files) := by
  refine ⟨?_, fun files => ?_⟩
  · rw [loadResults_eq, ← firstError_none_iff]
    cases firstError rs <;> simp
  · rw [loadResults_eq, firstError_map_ok, oks_map_ok]

/-- `out` is a possible outcome of loading the index of a repository that lists the index files `listed`
(streamed in any order). -/
def RepoOutcome (m : IndexType) (listed : List RepoFile) (out : Except LoadErr Index) : Prop :=
  ∃ stream : List RepoFile, stream.Perm listed ∧ LoadOutcome m (stream.map getFile) out

/-- The executable model on the listing order is one possible outcome. -/
theorem loadRepo_is_outcome (m : IndexType) (listed : List RepoFile) : RepoOutcome m listed (loadRepo m listed) :=
  ⟨listed, .refl _, loadResults_is_outcome m _⟩

/-- A repository with an index file that cannot be fetched (read error, damaged, not an index file) never yields an
index: every outcome is an error, namely the fetch error of some listed file. -/
theorem repo_load_fails_if_a_listed_file_fails (m : IndexType) (listed : List RepoFile) (out : Except LoadErr Index)
    (h : RepoOutcome m listed out) (hf : ∃ r ∈ listed, ∃ e, getFile r = .error e) :
    ∃ e, out = .error e ∧ ∃ r ∈ listed, getFile r = .error e := by
  obtain ⟨stream, hperm, ho⟩ := h
  obtain ⟨r, hr, e, he⟩ := hf
  have : ∃ e, Except.error e ∈ stream.map getFile :=
    ⟨e, List.mem_map.mpr ⟨r, hperm.mem_iff.mpr hr, he⟩⟩
  obtain ⟨e', rfl, hm⟩ := load_fails_if_any_file_fails m _ out ho this
  obtain ⟨r', hr', he'⟩ := List.mem_map.mp hm
  exact ⟨e', rfl, r', hperm.mem_iff.mp hr', he'⟩

/-- An `Ok` index of a repository: every LISTED index file was fetched, and the index is a `Loaded` outcome of a
permutation of all of them. -/
theorem repo_ok_means_every_listed_file_loaded (m : IndexType) (listed : List RepoFile) (idx : Index)
    (h : RepoOutcome m listed (.ok idx)) :
    (∀ r ∈ listed, ∃ f, getFile r = .ok f) ∧ ∃ files, files.Perm (readable listed) ∧ Loaded m files idx := by
  obtain ⟨stream, hperm, hnone, hl⟩ := h
  refine ⟨fun r hr => ?_, oks (stream.map getFile), oks_perm (hperm.map _), hl⟩
  exact firstError_none_iff.mp hnone _ (List.mem_map.mpr ⟨r, hperm.mem_iff.mpr hr, rfl⟩)

/-- "some index file THE REPOSITORY LISTS says `(t, id)` in a pack that is not marked for deletion" -/
def RepoListsUnmarked (listed : List RepoFile) (t : BlobType) (id : Nat) : Prop :=
  ∃ r ∈ listed, ∃ f, getFile r = .ok f ∧ ∃ p ∈ f.packs, ∃ b ∈ p.blobs, b.tpe = t ∧ b.id = id

theorem repoListsUnmarked_iff (listed : List RepoFile) (t : BlobType) (id : Nat) :
    RepoListsUnmarked listed t id ↔ ListedUnmarked (readable listed) t id := by
  simp only [RepoListsUnmarked, ListedUnmarked, readable, mem_oks, List.mem_map]
  constructor
  · rintro ⟨r, hr, f, hf, rest⟩; exact ⟨f, ⟨r, hr, hf⟩, rest⟩
  · rintro ⟨f, ⟨r, hr, hf⟩, rest⟩; exact ⟨r, hr, f, hf, rest⟩

theorem wf_of_perm {files files' : List IndexFile} (hp : files.Perm files') (h : WF files') : WF files :=
  fun p hp' => h p ((hp.flatMap_right _).mem_iff.mp hp')

theorem listedUnmarked_of_perm {files files' : List IndexFile} (hp : files.Perm files') (t : BlobType) (id : Nat) :
    ListedUnmarked files t id ↔ ListedUnmarked files' t id := by
  simp only [ListedUnmarked, hp.mem_iff]

/-- (1, for a repository) If loading returns an index, EVERY listed index file was loaded and `has(t, id)` succeeds
exactly when the mode retains ids of type `t` and some listed index file lists `(t, id)` in an unmarked pack.
(With a listed file that cannot be loaded there is no index: `repo_load_fails_if_a_listed_file_fails`.) -/
theorem repo_has_iff (m : IndexType) (listed : List RepoFile) (idx : Index) (h : RepoOutcome m listed (.ok idx))
    (hwf : WF (readable listed)) (t : BlobType) (id : Nat) :
    (∀ r ∈ listed, ∃ f, getFile r = .ok f) ∧
      (idx.has t id = true ↔ retainsIds m t = true ∧ RepoListsUnmarked listed t id) := by
  obtain ⟨hall, files, hperm, hl⟩ := repo_ok_means_every_listed_file_loaded m listed idx h
  refine ⟨hall, ?_⟩
  rw [has_iff m files (wf_of_perm hperm hwf) idx hl, listedUnmarked_of_perm hperm, repoListsUnmarked_iff]

/-- (2, for a repository) lookups: success iff listed by a listed file; the entry is a listing of a listed file. -/
theorem repo_get_spec (m : IndexType) (listed : List RepoFile) (idx : Index) (h : RepoOutcome m listed (.ok idx))
    (hwf : WF (readable listed)) (t : BlobType) (id : Nat) :
    ((idx.getId t id).isSome = true ↔ retainsFull m t = true ∧ RepoListsUnmarked listed t id) ∧
      ∀ e, idx.getId t id = some e → ∃ r ∈ listed, ∃ f, getFile r = .ok f ∧ e ∈ Rustic.Index.listed f.packs t id := by
  obtain ⟨_, files, hperm, hl⟩ := repo_ok_means_every_listed_file_loaded m listed idx h
  have hwf' := wf_of_perm hperm hwf
  refine ⟨?_, fun e he => ?_⟩
  · rw [get_succeeds_iff m files hwf' idx hl, listedUnmarked_of_perm hperm, repoListsUnmarked_iff]
  · have := get_returns_a_listing m files hwf' idx hl t id e he
    obtain ⟨p, hp, b, hb, ht, hid, hee⟩ := mem_listed.mp this
    simp only [unmarked, List.mem_flatMap] at hp
    obtain ⟨f, hf, hpf⟩ := hp
    have hf' : f ∈ readable listed := hperm.mem_iff.mp hf
    simp only [readable, mem_oks, List.mem_map] at hf'
    obtain ⟨r, hr, hrf⟩ := hf'
    exact ⟨r, hr, f, hrf, mem_listed.mpr ⟨p, hpf, b, hb, ht, hid, hee⟩⟩

/-- (4, for a repository) the size totals are the sums over the unmarked packs of ALL listed index files. -/
theorem repo_total_size_sum (m : IndexType) (listed : List RepoFile) (idx : Index) (h : RepoOutcome m listed (.ok idx)) :
    idx.totalSize .tree + idx.totalSize .data = ((unmarked (readable listed)).map (·.packSize)).sum ∧
      (readable listed).length = listed.length := by
  obtain ⟨hall, files, hperm, hl⟩ := repo_ok_means_every_listed_file_loaded m listed idx h
  refine ⟨?_, ?_⟩
  · rw [(total_size_sum m files idx hl).2]
    exact ((hperm.flatMap_right _).map _).sum_nat
  · have hn : firstError (listed.map getFile) = none :=
      firstError_none_iff.mpr fun r hr => by
        obtain ⟨x, hx, rfl⟩ := List.mem_map.mp hr
        exact hall x hx
    have := congrArg List.length (map_ok_oks hn)
    simp only [List.length_map] at this
    exact this.symm

/-- Witness: two listed files, the second unreadable in each of the four ways — no index in any mode and either stream
order, although the first file alone would load (and then lacks blob `3`, which only the second file lists). -/
theorem unreadable_file_witness :
    let f1 : IndexFile := { packs := [{ id := 10, size := none, blobs := [⟨5, .data, ⟨0, 40, none⟩⟩] }], packsToDelete := [] }
    let f2 : IndexFile := { packs := [{ id := 13, size := none, blobs := [⟨3, .data, ⟨0, 61, none⟩⟩] }], packsToDelete := [] }
    let a : RepoFile := { readFails := false, stored := .sealed (.file f1) }
    (∀ b ∈ [({ readFails := true, stored := .sealed (.file f2) } : RepoFile), { readFails := false, stored := .damaged },
             { readFails := false, stored := .sealed .unsupported }, { readFails := false, stored := .sealed .notIndexJson }],
        ∀ m ∈ [IndexType.full, .dataIds, .onlyTrees],
          (loadRepo m [a, b]).toOption.isNone = true ∧ (loadRepo m [b, a]).toOption.isNone = true) ∧
      (loadRepo .full [a, { readFails := true, stored := .sealed (.file f2) }]).toOption.isNone = true ∧
      ((loadRepo .full [a]).toOption.map (·.has .data 3)) = some false ∧
      ((loadRepo .full [a, { readFails := false, stored := .sealed (.file f2) }]).toOption.map (·.has .data 3)) = some true := by
  decide

/-! #### The `supersedes` field is ignored by loading

An index file may carry `supersedes`: ids of index files it claims to replace (rustic never writes the field; old restic
versions and other tools do).  `GlobalIndex::new_from_collector` hands `index.packs` of EVERY streamed file to the collector
and looks at nothing else, so a file stays loaded whether or not another file (or it itself) names it — e.g. after an index
rewrite that was interrupted before the old files were removed, the blobs the new files do not list again are still found.
Statements: two sets of index files that agree position by position on `packs` / `packs_to_delete` (`SameListing`: ANY
`supersedes` lists on either side — erased, replaced, naming present files, absent files, themselves, each other) give the
same index: as a value for the executable model, and the same set of possible outcomes (`Loaded` / `LoadOutcome` /
`RepoOutcome`) for every mode, every lookup, the totals, with load faults and in every stream order. -/

/-- For all sets of index files: the loaded index — lookups (`has`, `get_id` → pack, offset, length), size totals, in every
index mode (`m`; also after `drop_data`) — is that of the same files with every `supersedes` list erased or replaced by any
other list.  Also for every outcome the unstable sort allows (`Loaded`). -/
theorem supersedes_is_ignored (m : IndexType) (files files' : List IndexFile) (h : Pointwise SameListing files files') :
    load m files = load m files' ∧
      (∀ idx, Loaded m files idx ↔ Loaded m files' idx) ∧
      (∀ t id, (load m files).has t id = (load m files').has t id ∧ (load m files).getId t id = (load m files').getId t id) ∧
      (∀ t, (load m files).totalSize t = (load m files').totalSize t) ∧
      (load m files).dropData = (load m files').dropData := by
  have e := load_congr m h
  refine ⟨e, fun idx => ?_, fun t id => ?_, fun t => ?_, ?_⟩
  · unfold Loaded; rw [unmarked_congr h]
  · rw [e]; exact ⟨rfl, rfl⟩
  · rw [e]
  · rw [e]

/-- … in particular with every list set by an arbitrary function of the file (`fun _ => none`: erased). -/
theorem supersedes_replaced (m : IndexType) (files : List IndexFile) (g : IndexFile → Option (List Nat)) :
    load m (files.map fun f => { f with supersedes := g f }) = load m files := by
  refine load_congr m ?_
  induction files with
  | nil => exact .nil
  | cons f fs ih => exact .cons ⟨rfl, rfl⟩ ih

/-- The same over a stream of per-file fetch results (some of which may be errors): same first error or same index. -/
theorem supersedes_is_ignored_stream (m : IndexType) (rs rs' : List (Except LoadErr IndexFile))
    (h : Pointwise SameResult rs rs') :
    loadResults m rs = loadResults m rs' ∧ ∀ out, LoadOutcome m rs out ↔ LoadOutcome m rs' out := by
  refine ⟨loadResults_congr m h, fun out => ?_⟩
  cases out with
  | error e => simp only [LoadOutcome, firstError_congr h]
  | ok idx => simp only [LoadOutcome, Loaded, firstError_congr h, unmarked_congr (oks_congr h)]

/-- The same for a repository: two listings whose files fetch to the same thing up to `supersedes` lists have the same
executable result and the same set of possible outcomes over all stream orders. -/
theorem supersedes_is_ignored_repo (m : IndexType) (listed listed' : List RepoFile)
    (h : Pointwise (fun a b => SameResult (getFile a) (getFile b)) listed listed') :
    loadRepo m listed = loadRepo m listed' ∧ ∀ out, RepoOutcome m listed out ↔ RepoOutcome m listed' out := by
  refine ⟨loadResults_congr m (forall₂_map_getFile h), fun out => ?_⟩
  have key : ∀ {l l' : List RepoFile}, Pointwise (fun a b => SameResult (getFile a) (getFile b)) l l' →
      RepoOutcome m l out → RepoOutcome m l' out := by
    rintro l l' hl ⟨stream, hp, ho⟩
    obtain ⟨s', hp', hf⟩ := forall₂_of_perm hp hl
    exact ⟨s', hp', ((supersedes_is_ignored_stream m _ _ (forall₂_map_getFile hf)).2 out).mp ho⟩
  exact ⟨key h, key (forall₂_symm (fun _ _ hab => hab.symm) h)⟩

/-- what a loader that HONOURED the field would do (old restic): skip every file whose id some file names -/
def loadSkippingSuperseded (m : IndexType) (files : List (Nat × IndexFile)) : Index :=
  let named := files.flatMap fun f => f.2.supersedes.getD []
  load m ((files.filter fun f => !named.contains f.1).map (·.2))

/-- Witness (an index rewrite caught half-way): file 7 lists blob 1; file 8 names file 7 in `supersedes` and lists blob 3 only.
Loading finds both blobs and counts both packs in every mode, exactly as without the list; a loader honouring the list
would lose blob 1 and its pack's size — also when a file names itself, two files name each other, or the named file is absent
(then nothing is skipped either way). -/
theorem superseded_file_is_loaded_witness :
    let old : IndexFile := { packs := [{ id := 10, size := none, blobs := [⟨1, .data, ⟨0, 40, none⟩⟩] }], packsToDelete := [] }
    let new (s : List Nat) : IndexFile :=
      { supersedes := some s, packs := [{ id := 13, size := none, blobs := [⟨3, .data, ⟨0, 61, none⟩⟩] }], packsToDelete := [] }
    (∀ m ∈ [IndexType.full, .dataIds], ∀ s ∈ [[7], [8], [7, 8], [99], []],
        (load m [old, new s]).has .data 1 = true ∧ (load m [old, new s]).has .data 3 = true ∧
        (load m [old, new s]).totalSize .data = (36 + 40 + 37) + (36 + 61 + 37)) ∧
      (load .full [old, new [7]]).getId .data 1 = some ⟨.data, 10, ⟨0, 40, none⟩⟩ ∧
      (loadSkippingSuperseded .full [(7, old), (8, new [7])]).has .data 1 = false ∧
      (loadSkippingSuperseded .full [(7, old), (8, new [7])]).totalSize .data = 36 + 61 + 37 ∧
      (loadSkippingSuperseded .full [(7, { old with supersedes := some [8] }), (8, new [7])]).has .data 3 = false ∧
      (loadSkippingSuperseded .full [(7, old), (8, new [99])]).has .data 1 = true := by
  decide

end Loading

/-! ### non-vacuity -/

/-- duplicates across packs, the same id under both types, an empty pack, a marked pack -/
def exFiles : List IndexFile :=
  [{ packs := [{ id := 10, size := some 500,
                 blobs := [{ id := 5, tpe := .tree, loc := ⟨0, 40, none⟩ }, { id := 9, tpe := .tree, loc := ⟨40, 50, some 99⟩ }] },
               { id := 11, size := none, blobs := [] }],
     packsToDelete := [{ id := 12, size := none, blobs := [{ id := 77, tpe := .data, loc := ⟨0, 33, none⟩ }] }] },
   { packs := [{ id := 13, size := none,
                 blobs := [{ id := 5, tpe := .data, loc := ⟨0, 60, none⟩ }, { id := 3, tpe := .data, loc := ⟨60, 61, none⟩ }] },
               { id := 14, size := none, blobs := [{ id := 5, tpe := .tree, loc := ⟨7, 40, none⟩ }] }],
     packsToDelete := [] }]

example : WF exFiles := by
  intro p hp b hb
  simp only [exFiles, unmarked, List.flatMap_cons, List.flatMap_nil, List.append_nil, List.cons_append,
    List.nil_append, List.mem_cons, List.not_mem_nil, or_false] at hp
  rcases hp with rfl | rfl | rfl | rfl <;> simp [IndexPack.blobType] at hb ⊢ <;> rcases hb with rfl | rfl <;> rfl
example : (load .full exFiles).has .data 5 = true ∧ (load .full exFiles).has .data 77 = false ∧
    (load .full exFiles).getId .data 3 = some ⟨.data, 13, ⟨60, 61, none⟩⟩ ∧
    (load .dataIds exFiles).has .data 3 = true ∧ (load .dataIds exFiles).getId .data 3 = none ∧
    (load .onlyTrees exFiles).has .data 3 = false ∧
    (load .full exFiles).totalSize .tree = 500 + (36 + 40 + 37) ∧
    (load .full exFiles).totalSize .data = 36 + (36 + 60 + 37 + 61 + 37) := by decide
example : ((load .full exFiles).intoIter.map (·.id)) = [10, 14, 11, 13] := by decide
example : bsearch [1, 3, 3, 3, 8] 3 = some 3 ∧ bsearch [1, 3, 3, 3, 8] 4 = none := by decide

end Rustic.Props.C17
