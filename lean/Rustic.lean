import Rustic.Gen.Constants
import Rustic.Lemmas.Chunker
import Rustic.Model.Calendar
import Rustic.Model.Chunker
import Rustic.Model.Forget
import Rustic.Model.Rabin
import Rustic.Props.C06
import Rustic.Props.C09
