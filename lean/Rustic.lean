import Rustic.Model.Chunker
import Rustic.Model.Rabin
import Rustic.Lemmas.Chunker
import Rustic.Props.C06
