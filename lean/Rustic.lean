import Rustic.Gen.Constants
import Rustic.Lemmas.Chunker
import Rustic.Model.Chunker
import Rustic.Model.Prune
import Rustic.Model.Rabin
import Rustic.Model.Repo
import Rustic.Props.C06
