import Rustic.Gen.Constants
import Rustic.Lemmas.Chunker
import Rustic.Lemmas.ChunkerRabin
import Rustic.Lemmas.Rabin
import Rustic.Model.Chunker
import Rustic.Model.Rabin
import Rustic.Props.C06
