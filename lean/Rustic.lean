import Rustic.Gen.Constants
import Rustic.Lemmas.Check
import Rustic.Lemmas.Chunker
import Rustic.Model.Check
import Rustic.Model.Chunker
import Rustic.Model.Rabin
import Rustic.Props.C05
import Rustic.Props.C06
