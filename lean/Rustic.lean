import Rustic.Model.Chunker
