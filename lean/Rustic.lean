import Rustic.Gen.Constants
import Rustic.Lemmas.Backends
import Rustic.Lemmas.Chunker
import Rustic.Model.Backends
import Rustic.Model.Chunker
import Rustic.Model.Rabin
import Rustic.Props.C06
import Rustic.Props.C20
