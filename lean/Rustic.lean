import Rustic.Gen.Constants
import Rustic.Lemmas.Chunker
import Rustic.Model.Chunker
import Rustic.Model.Parent
import Rustic.Model.Rabin
import Rustic.Model.Tree
import Rustic.Props.C06
