//! C03 — crash / fault consistency.  For one command on one generated repository state:
//!  * `generate` runs the real command once on `MemBackend`, decodes the backend log into abstract operations
//!    (index and snapshot files decoded with the key, snapshot closures by walking the trees) and embeds that trace in
//!    the op line; the Lean driver evaluates `Consistent` after EVERY prefix and the phase order of the command.
//!  * `exec` runs the real command again: `crash_at = k` for every (quick: sampled) k — the stored state must pass
//!    `check(read_data)` and every visible snapshot must read back completely (pre-existing ones exactly);
//!    `fail_only = k` for every k — the command must return `Err`, and the same state oracles must hold.
//!
//!   c03 mon <cmd> <seed> <pre-ops> <run-ops> [<replacements>]
//!
//! Snapshot-REPLACING commands (rewrite --forget, repair snapshots --delete): "no previously existing snapshot has lost data" —
//! after every crash prefix / failed run every snapshot of the pre-state that the complete run keeps or replaces is still
//! there, as itself or as a snapshot with the content of its successor (`Succession`); the trace carries the replacement
//! table (`<old>><new>`) for the Lean loss monitor (`Repo.firstLost`).
use std::collections::{BTreeMap, BTreeSet};

use bytesize::ByteSize;
use rustic_core::repofile::{Chunker, FileType, IndexFile, KeyId, Metadata, Node, NodeType, SnapshotFile};
use rustic_core::{
    BackupOptions, ConfigOptions, Excludes, Id, KeyOptions, LsOptions, PruneOptions, RepairIndexOptions, RepairSnapshotsOptions, RewriteOptions,
    RewriteTreesOptions, RusticResult, last_modified_node,
};

use super::c02::hist::{check_errors_retry, source};
use super::c02::{decode_index_files, parse_opts};
use crate::repo::{self, LogOp, MemBackend, MemSource, RepoHandle, SrcEntry, Store};
use crate::util::{Rng, Stats, guarded};

/// `copy`: the repository under test is the DESTINATION (faults are injected there), the source is `Scn::aux`;
/// `rewrite`: exclude-glob rewrite of all snapshots with `forget` (new trees, new snapshots, old snapshots removed);
/// `config`: the scenario is built on `OneConfigBackend` (one config file whatever its id, like real backends), the command
/// runs through `RepoHandle::open_oc`; `key` adds a key, `keyrm` removes a key added in the pre-state.
/// `prune` / `prune-instant` / `prune-early`: `instant_delete` × `early_delete_index` = (0,0) / (1,0) / (0,1); (1,1) is the
/// documented-unsafe combination the property excludes.
/// `repairidx`: `repair index` WITHOUT `--read-all` on the state an interrupted prune leaves (cut off right after it wrote its new
/// index file: rebuilt packs are listed by the old AND the new index file, repacked blobs are stored twice) — a consistent state
/// in which repair index has index files to reduce, to save and to remove.
pub const CMDS: [&str; 14] = [
    "backup", "forget", "prune", "prune-instant", "prune-early", "merge", "repairsnap", "repairidx-readall", "repairidx", "key", "copy", "rewrite", "config", "keyrm",
];

pub struct Scn {
    pub h: RepoHandle,
    /// snapshots of the pre-state with their sources (`None` = damaged on purpose: content not comparable)
    pub live: Vec<(SnapshotFile, Option<MemSource>)>,
    /// `copy`: the source repository and the snapshots to copy
    pub aux: Option<(RepoHandle, Vec<SnapshotFile>)>,
    /// `keyrm`: the key to remove
    pub extra_key: Option<KeyId>,
}

pub fn cfg(seed: u64) -> ConfigOptions {
    ConfigOptions::default()
        .set_datapack_size(ByteSize(*Rng::new(seed).pick(&[3000u64, 6000])))
        .set_treepack_size(ByteSize(1500))
        .set_compression(if seed % 2 == 0 { 0 } else { 3 })
}

/// number of backups in the pre-state (an evolving source): 3 or 4 (2 to 4 where the command does not need three)
fn n_pre(cmd: &str, seed: u64) -> u64 {
    match cmd {
        "prune" | "prune-instant" | "prune-early" | "repairidx" => 3 + (seed / 7) % 2,
        _ => 2 + (seed / 7) % 3,
    }
}

/// prune options by seed: plain / repack-all / fast-repack, max-unused 0 % or unlimited
fn prune_opts_seed(instant: bool, early: bool, seed: u64) -> PruneOptions {
    assert!(!(instant && early), "instant-delete + early-delete-index is excluded by the property");
    let i = if instant { '1' } else { '0' };
    let e = if early { '1' } else { '0' };
    let (all, fast) = match (seed / 3) % 3 {
        0 => ('0', '0'),
        1 => ('1', '0'),
        _ => ('0', '1'),
    };
    let unused = if (seed / 11) % 3 == 0 { "u" } else { "p0" };
    // keep-delete: 0 (packs marked by the earlier prune are removed now) or one day (they stay marked; unused packs are only marked)
    let keep_delete = if (seed / 13) % 3 == 0 { 86_400 } else { 0 };
    parse_opts(&format!("0,0,{keep_delete},00{all}0{i}{e}{fast},u,{unused}")).unwrap().opts
}

fn prune_opts(instant: bool) -> PruneOptions {
    let flags = if instant { "0000100" } else { "0000000" };
    parse_opts(&format!("0,0,0,{flags},u,p0")).unwrap().opts
}

pub fn do_backup(h: &RepoHandle, src: &MemSource) -> RusticResult<SnapshotFile> {
    repo::backup(h, src, &BackupOptions::default(), SnapshotFile::default())
}

/// the state before the command
pub fn prestate(cmd: &str, seed: u64) -> Result<Scn, String> {
    let e = |x: Box<rustic_core::RusticError>| format!("oracle-fail:prestate-{}", crate::util::errkind(&x));
    let (h, _) = if cmd == "config" { RepoHandle::init_oc(MemBackend::new(), None, &cfg(seed)) } else { RepoHandle::init(MemBackend::new(), None, &cfg(seed)) }.map_err(e)?;
    let mut live = vec![];
    let mut aux = None;
    let mut extra_key = None;
    for k in 0..n_pre(cmd, seed) {
        let src = source(seed, k, None);
        let snap = do_backup(&h, &src).map_err(e)?;
        live.push((snap, Some(src)));
    }
    match cmd {
        "prune" | "prune-instant" | "prune-early" => {
            let (s, _) = live.remove(0);
            h.open().map_err(e)?.delete_snapshots(&[s.id]).map_err(e)?;
            let r = h.open().map_err(e)?;
            let o = prune_opts(false);
            let plan = r.prune_plan(&o).map_err(e)?;
            r.prune(&o, plan).map_err(e)?;
            let (s, _) = live.remove(0);
            h.open().map_err(e)?.delete_snapshots(&[s.id]).map_err(e)?;
        }
        "repairidx" => {
            // the pre-state of the prune commands …
            let (s, _) = live.remove(0);
            h.open().map_err(e)?.delete_snapshots(&[s.id]).map_err(e)?;
            let r = h.open().map_err(e)?;
            let o = prune_opts(false);
            let plan = r.prune_plan(&o).map_err(e)?;
            r.prune(&o, plan).map_err(e)?;
            let (s, _) = live.remove(0);
            h.open().map_err(e)?.delete_snapshots(&[s.id]).map_err(e)?;
            // … and a prune cut off right after the write of its (first) new index file
            let o = prune_opts_seed(false, false, seed);
            let probe = RepoHandle { be: MemBackend::from_store(h.be.store()), hot: None, key: h.key.clone() };
            let r = probe.open().map_err(e)?;
            let plan = r.prune_plan(&o).map_err(e)?;
            r.prune(&o, plan).map_err(e)?;
            let cut = probe.be.log().iter().position(|x| x.tpe == FileType::Index && x.write).map(|i| i + 1);
            if let Some(cut) = cut {
                h.be.clear_log();
                h.be.set_crash_at(Some(cut));
                let r = h.open().map_err(e)?;
                if let Ok(plan) = r.prune_plan(&o) {
                    _ = r.prune(&o, plan);
                }
                h.be.set_crash_at(None);
            }
        }
        "repairsnap" => {
            // lose one data pack, then drop it from the index: the snapshots that need it are damaged
            let idx = all_index(&h, &h.be.store())?;
            let victim = idx
                .iter()
                .flat_map(|(_, f)| f.packs.iter())
                .filter(|p| p.blobs.iter().any(|b| b.tpe == rustic_core::repofile::BlobType::Data))
                .map(|p| *p.id)
                .min();
            if let Some(v) = victim {
                h.be.del_raw(FileType::Pack, &v);
            }
            h.open().map_err(e)?.repair_index(&RepairIndexOptions::default(), false).map_err(e)?;
            for l in &mut live {
                l.1 = None;
            }
        }
        "copy" => {
            // the repository built so far becomes the source; the destination starts with one snapshot of a related source
            let (hd, _) = RepoHandle::init(MemBackend::new(), None, &cfg(seed ^ 1)).map_err(e)?;
            let src = source(seed, 1, None);
            let snap = do_backup(&hd, &src).map_err(e)?;
            let snaps: Vec<SnapshotFile> = live.iter().map(|l| l.0.clone()).collect();
            aux = Some((h, snaps));
            hd.be.clear_log();
            return Ok(Scn { h: hd, live: vec![(snap, Some(src))], aux, extra_key });
        }
        "keyrm" => {
            extra_key = Some(h.open().map_err(e)?.add_key("another-password", &KeyOptions::default()).map_err(e)?);
        }
        _ => {}
    }
    h.be.clear_log();
    Ok(Scn { h, live, aux, extra_key })
}

pub fn run_cmd(cmd: &str, seed: u64, h: &RepoHandle, scn: &Scn) -> RusticResult<()> {
    let live = &scn.live;
    match cmd {
        "backup" => do_backup(h, &source(seed, 3 + seed % 2, None)).map(|_| ()),
        "copy" => {
            let (hs, snaps) = scn.aux.as_ref().expect("copy scenario has a source");
            let src = hs.open()?.to_indexed()?;
            let dst = h.open()?.to_indexed_ids()?;
            src.copy(&dst, snaps.iter())
        }
        "rewrite" => {
            let r = h.open()?.to_indexed()?;
            // the snapshots as the repository holds them (like the CLI: loaded, so `original` is set), in the order of `live`
            let stored = r.get_all_snapshots()?;
            let snaps: Vec<SnapshotFile> = live.iter().filter_map(|l| stored.iter().find(|s| s.id == l.0.id).cloned()).collect();
            let glob = *Rng::new(seed ^ 0x7e).pick(&["!**/f1*", "!**/d1", "!**/sub", "!**/f2", "**/d0"]);
            let topts = RewriteTreesOptions::default().excludes(Excludes::default().globs(vec![glob.to_string()]));
            // with `forget` the rewritten snapshots replace the old ones (removals at the end), without they are added
            r.rewrite_snapshots_and_trees(snaps, &RewriteOptions::default().forget(seed % 3 != 0), &topts).map(|_| ())
        }
        "keyrm" => h.open()?.delete_key(&scn.extra_key.expect("keyrm scenario has a key")),
        "forget" => {
            let ids: Vec<_> = live.iter().take(2).map(|l| l.0.id).collect();
            h.open()?.delete_snapshots(&ids)
        }
        "prune" | "prune-instant" | "prune-early" => {
            let r = h.open()?;
            let o = prune_opts_seed(cmd == "prune-instant", cmd == "prune-early", seed);
            let plan = r.prune_plan(&o)?;
            r.prune(&o, plan)
        }
        "merge" => {
            let r = h.open()?.to_indexed()?;
            let snaps: Vec<SnapshotFile> = live.iter().map(|l| l.0.clone()).collect();
            r.merge_snapshots(&snaps, &last_modified_node, SnapshotFile::default()).map(|_| ())
        }
        "repairsnap" => {
            let r = h.open()?.to_indexed()?;
            let snaps = r.get_all_snapshots()?;
            let mut o = RepairSnapshotsOptions::default();
            o.delete = true;
            r.repair_snapshots(&o, snaps, false)
        }
        "repairidx-readall" | "repairidx" => {
            let mut o = RepairIndexOptions::default();
            o.read_all = cmd == "repairidx-readall";
            h.open()?.repair_index(&o, false)
        }
        "config" => {
            let mut r = h.open_oc()?;
            r.apply_config(&ConfigOptions::default().set_compression(7).set_treepack_size(ByteSize(2000 + seed % 100))).map(|_| ())
        }
        "key" => h.open()?.add_key("another-password", &KeyOptions::default()).map(|_| ()),
        _ => unreachable!(),
    }
}

pub fn all_index(h: &RepoHandle, store: &Store) -> Result<Vec<(Id, IndexFile)>, String> {
    let ids: Vec<Id> = store.keys().filter(|(t, _)| *t == repo::ft_idx(FileType::Index)).map(|(_, id)| *id).collect();
    Ok(decode_index_files(h, store, &ids).map_err(|e| format!("oracle-fail:index-undecodable:{e}"))?.into_iter().map(|(i, f)| (*i, f)).collect())
}

pub fn union(a: &Store, b: &Store) -> Store {
    let mut u = a.clone();
    for (k, v) in b {
        _ = u.insert(*k, v.clone());
    }
    u
}

/// closure (tree and data blob ids) of every snapshot file in `store`, walked on a repository that has everything
pub fn closures(h: &RepoHandle, everything: &Store) -> Result<BTreeMap<Id, Option<Vec<(bool, Id)>>>, String> {
    let h2 = RepoHandle { be: MemBackend::from_store(everything.clone()), hot: None, key: h.key.clone() };
    let r = h2.open().and_then(|r| r.to_indexed()).map_err(|e| format!("oracle-fail:closure-open-{}", crate::util::errkind(&e)))?;
    let mut out = BTreeMap::new();
    for snap in r.get_all_snapshots().map_err(|_| "oracle-fail:closure-snapshots".to_string())? {
        let mut keys: BTreeSet<(bool, Id)> = BTreeSet::new();
        _ = keys.insert((true, *snap.tree));
        let mut root = Node::new_node(std::ffi::OsStr::new(""), NodeType::Dir, Metadata::default());
        root.subtree = Some(snap.tree);
        let mut ok = true;
        match r.ls(&root, &LsOptions::default()) {
            Ok(it) => {
                for item in it {
                    match item {
                        Ok((_, node)) => {
                            if let Some(t) = node.subtree {
                                _ = keys.insert((true, *t));
                            }
                            if let Some(c) = &node.content {
                                for d in c {
                                    _ = keys.insert((false, **d));
                                }
                            }
                        }
                        Err(_) => ok = false,
                    }
                }
            }
            Err(_) => ok = false,
        }
        // a data blob that is in no index at all makes the snapshot damaged as well
        if ok {
            for (tree, id) in &keys {
                if !*tree && r.get_index_entry(&rustic_core::DataId::from(*id)).is_err() {
                    ok = false;
                }
            }
        }
        _ = out.insert(*snap.id, if ok { Some(keys.into_iter().collect()) } else { None });
    }
    Ok(out)
}

struct Namer {
    files: BTreeMap<Id, usize>,
    blobs: BTreeMap<Id, usize>,
    /// `Some`: name blobs by occurrence class (see `abstract_tokens_classes`)
    class_of: Option<BTreeMap<(bool, Id), Vec<(u8, Id, usize)>>>,
    classes: BTreeMap<(bool, Vec<(u8, Id, usize)>), usize>,
}
impl Namer {
    fn f(&mut self, id: &Id) -> usize {
        let n = self.files.len() + 1;
        *self.files.entry(*id).or_insert(n)
    }
    fn keys(&mut self, ks: &[(bool, Id)]) -> String {
        if ks.is_empty() {
            return "-".into();
        }
        if let Some(occ) = &self.class_of {
            let mut seen = BTreeSet::new();
            let mut v = vec![];
            for k in ks {
                let places = occ.get(k).cloned().unwrap_or_default();
                let n = self.classes.len() + 1;
                let c = *self.classes.entry((k.0, places)).or_insert(n);
                if seen.insert((k.0, c)) {
                    v.push(format!("{}{}", if k.0 { "t" } else { "d" }, c));
                }
            }
            return v.join(".");
        }
        let v: Vec<String> = ks
            .iter()
            .map(|(t, id)| {
                let n = self.blobs.len() + 1;
                format!("{}{}", if *t { "t" } else { "d" }, *self.blobs.entry(*id).or_insert(n))
            })
            .collect();
        v.join(".")
    }
}

/// Abstract the state before and the log of a run into the op tokens of the Lean monitor.
#[allow(dead_code)]
pub fn abstract_trace(h: &RepoHandle, before: &Store, after: &Store, log: &[LogOp]) -> Result<(String, String), String> {
    let (pre, run) = abstract_tokens(h, before, after, log)?;
    let j = |v: Vec<String>| if v.is_empty() { "-".to_string() } else { v.join(";") };
    Ok((j(pre), j(run)))
}

/// as `abstract_trace`, tokens not joined (one token per *applied* log entry)
pub fn abstract_tokens(h: &RepoHandle, before: &Store, after: &Store, log: &[LogOp]) -> Result<(Vec<String>, Vec<String>), String> {
    abstract_tokens_with(h, before, after, log, false)
}

/// as `abstract_tokens`, but blob keys are replaced by their *occurrence class*: two blobs of one type that occur in exactly
/// the same pack files, index entries and snapshot closures are the same abstract key.  `Repo.consistent` only asks, per
/// key, in which of these places it occurs, so the verdict of the monitor at every prefix is the same — and a trace over
/// 50 000 blobs stays a few hundred tokens long.
pub fn abstract_tokens_classes(h: &RepoHandle, before: &Store, after: &Store, log: &[LogOp]) -> Result<(Vec<String>, Vec<String>), String> {
    abstract_tokens_with(h, before, after, log, true)
}

fn abstract_tokens_with(h: &RepoHandle, before: &Store, after: &Store, log: &[LogOp], classes: bool) -> Result<(Vec<String>, Vec<String>), String> {
    abstract_tokens_numbered(h, before, after, log, classes).map(|(pre, run, _)| (pre, run))
}

/// as `abstract_tokens`, with the number every file got in the tokens
fn abstract_tokens_numbered(h: &RepoHandle, before: &Store, after: &Store, log: &[LogOp], classes: bool) -> Result<(Vec<String>, Vec<String>, BTreeMap<Id, usize>), String> {
    let everything = union(before, after);
    let mut packs: BTreeMap<Id, Vec<(bool, Id)>> = BTreeMap::new();
    let index_all: BTreeMap<Id, IndexFile> = all_index(h, &everything)?.into_iter().collect();
    for f in index_all.values() {
        for p in f.packs.iter().chain(f.packs_to_delete.iter()) {
            let e = packs.entry(*p.id).or_default();
            if e.is_empty() {
                *e = p.blobs.iter().map(|b| (b.tpe == rustic_core::repofile::BlobType::Tree, *b.id)).collect();
            }
        }
    }
    let clos = closures(h, &everything)?;
    let mut nm = Namer { files: BTreeMap::new(), blobs: BTreeMap::new(), class_of: None, classes: BTreeMap::new() };
    if classes {
        // occurrence places: pack files (as listed), index entries (file, section, position), snapshot closures
        let mut occ: BTreeMap<(bool, Id), Vec<(u8, Id, usize)>> = BTreeMap::new();
        for (pid, ks) in &packs {
            for k in ks {
                occ.entry(*k).or_default().push((0, *pid, 0));
            }
        }
        for (fid, f) in &index_all {
            for (n, p) in f.packs.iter().chain(f.packs_to_delete.iter()).enumerate() {
                for b in &p.blobs {
                    occ.entry((b.tpe == rustic_core::repofile::BlobType::Tree, *b.id)).or_default().push((1, *fid, n));
                }
            }
        }
        for (sid, c) in &clos {
            for k in c.iter().flatten() {
                occ.entry(*k).or_default().push((2, *sid, 0));
            }
        }
        nm.class_of = Some(occ);
    }
    let idx_tok = |nm: &mut Namer, id: &Id| -> Result<String, String> {
        let f = index_all.get(id).ok_or("oracle-fail:transient-index-file")?;
        let pk = |nm: &mut Namer, ps: &[rustic_core::repofile::IndexPack]| -> String {
            if ps.is_empty() {
                return "-".into();
            }
            ps.iter()
                .map(|p| {
                    let ks: Vec<(bool, Id)> = p.blobs.iter().map(|b| (b.tpe == rustic_core::repofile::BlobType::Tree, *b.id)).collect();
                    format!("{}={}", nm.f(&p.id), nm.keys(&ks))
                })
                .collect::<Vec<_>>()
                .join("+")
        };
        Ok(format!("I{}:{}|{}", nm.f(id), pk(nm, &f.packs), pk(nm, &f.packs_to_delete)))
    };
    let mut pre = vec![];
    for ((t, id), _) in before {
        if *t == repo::ft_idx(FileType::Pack) {
            let ks = packs.get(id).cloned().unwrap_or_default();
            pre.push(format!("P{}:{}", nm.f(id), nm.keys(&ks)));
        }
    }
    for ((t, id), _) in before {
        if *t == repo::ft_idx(FileType::Index) {
            pre.push(idx_tok(&mut nm, id)?);
        }
    }
    for ((t, id), _) in before {
        if *t == repo::ft_idx(FileType::Snapshot) {
            // of a damaged snapshot (closure not walkable) the protocol state requires nothing: a snapshot file that needs no blob
            match clos.get(id) {
                Some(Some(ks)) => pre.push(format!("S{}:{}", nm.f(id), nm.keys(ks))),
                _ => pre.push(format!("S{}:-", nm.f(id))),
            }
        }
    }
    let mut run = vec![];
    for o in log {
        if !o.applied {
            continue;
        }
        let tok = match (o.tpe, o.write) {
            (FileType::Pack, true) => {
                let ks = packs.get(&o.id).cloned().unwrap_or_default();
                format!("P{}:{}", nm.f(&o.id), nm.keys(&ks))
            }
            (FileType::Pack, false) => format!("p{}", nm.f(&o.id)),
            (FileType::Index, true) => idx_tok(&mut nm, &o.id)?,
            (FileType::Index, false) => format!("i{}", nm.f(&o.id)),
            (FileType::Snapshot, true) => match clos.get(&o.id) {
                Some(Some(ks)) => format!("S{}:{}", nm.f(&o.id), nm.keys(ks)),
                _ => return Err("oracle-fail:new-snapshot-not-walkable".into()),
            },
            (FileType::Snapshot, false) => format!("s{}", nm.f(&o.id)),
            _ => "O".to_string(),
        };
        run.push(tok);
    }
    Ok((pre, run, nm.files))
}

/// replacement table of a run for the Lean loss monitor: `<old>><new>` for every snapshot the run wrote whose `original` is
/// a snapshot of the state before (file numbers of the trace tokens)
fn replacement_token(h: &RepoHandle, before: &Store, after: &Store, log: &[LogOp], files: &BTreeMap<Id, usize>) -> Result<String, String> {
    let h2 = RepoHandle { be: MemBackend::from_store(union(before, after)), hot: None, key: h.key.clone() };
    let r = h2.open().map_err(|e| format!("oracle-fail:repl-open-{}", crate::util::errkind(&e)))?;
    let mut pairs = vec![];
    for snap in r.get_all_snapshots().map_err(|_| "oracle-fail:repl-snapshots".to_string())? {
        let written = log.iter().any(|o| o.applied && o.write && o.tpe == FileType::Snapshot && o.id == *snap.id);
        if let (true, Some(orig)) = (written, snap.original) {
            if *orig != *snap.id && before.contains_key(&(repo::ft_idx(FileType::Snapshot), *orig)) {
                if let (Some(a), Some(b)) = (files.get(&*orig), files.get(&*snap.id)) {
                    pairs.push((*a, *b));
                }
            }
        }
    }
    pairs.sort_unstable();
    Ok(if pairs.is_empty() { "-".into() } else { pairs.iter().map(|(a, b)| format!("{a}>{b}")).collect::<Vec<_>>().join(".") })
}

/// what a state holds per visible snapshot: id, `original` (the id a rewritten / repaired snapshot replaces), time, content
/// (`None`: snapshot damaged before the command, not read)
pub struct SnapView {
    pub id: Id,
    pub original: Option<Id>,
    pub time: String,
    pub content: Option<Vec<repo::ReadBack>>,
}

/// state oracles on what is stored after a crashed / failed / complete run; returns what every visible snapshot holds
fn state_ok(cmd: &str, h: &RepoHandle, live: &[(SnapshotFile, Option<MemSource>)], damaged_before: &BTreeSet<Id>) -> Result<Vec<SnapView>, String> {
    let check_applies = !damaged_before.iter().any(|d| h.be.get(FileType::Snapshot, d).is_some());
    if check_applies {
        match check_errors_retry(h, true) {
            Some(0) => {}
            Some(_) => return Err("check-errors".into()),
            None => return Err("check-failed".into()),
        }
    }
    let _ = cmd;
    let r = h.open().and_then(|r| r.to_indexed()).map_err(|_| "open-failed".to_string())?;
    let snaps = r.get_all_snapshots().map_err(|_| "snapshot-list-failed".to_string())?;
    let mut views = vec![];
    for s in &snaps {
        let mut view = SnapView { id: *s.id, original: s.original.map(|o| *o), time: format!("{:?}", s.time), content: None };
        if damaged_before.contains(&s.id) {
            views.push(view);
            continue;
        }
        let mut got = repo::read_back(&r, s).map_err(|_| "snapshot-unreadable".to_string())?;
        got.retain(|e| e.path != b"src");
        if let Some((_, Some(src))) = live.iter().find(|l| l.0.id == s.id) {
            if got != repo::expected(src) {
                return Err("old-snapshot-changed".into());
            }
        }
        view.content = Some(got);
        views.push(view);
    }
    Ok(views)
}

/// "No previously existing snapshot has lost data" for commands that REPLACE snapshots (rewrite --forget, repair snapshots
/// --delete, …): from the complete run, the successors of every snapshot of the pre-state (a snapshot of the final state that
/// is new and names it as `original`, or — should that field be missing — carries its time) and the snapshots the command
/// removes on purpose (gone at the end, no successor: forget, an unrepairable root tree).
pub struct Succession {
    /// snapshots of the pre-state that must survive every crash prefix / failed run, with the content of their successors
    must_keep: BTreeMap<Id, Vec<Vec<repo::ReadBack>>>,
}

impl Succession {
    pub fn new(pre: &[SnapView], fin: &[SnapView]) -> Self {
        let pre_ids: BTreeSet<Id> = pre.iter().map(|v| v.id).collect();
        let mut must_keep = BTreeMap::new();
        for s in pre {
            let news = || fin.iter().filter(|t| !pre_ids.contains(&t.id));
            let mut succ: Vec<&SnapView> = news().filter(|t| t.original == Some(s.id)).collect();
            if succ.is_empty() {
                succ = news().filter(|t| t.original.is_none_or(|o| !pre_ids.contains(&o)) && t.time == s.time).collect();
            }
            let stays = fin.iter().any(|t| t.id == s.id);
            if stays || !succ.is_empty() {
                _ = must_keep.insert(s.id, succ.iter().filter_map(|t| t.content.clone()).collect());
            }
        }
        Self { must_keep }
    }

    /// every snapshot to keep is in `state` as itself or as a snapshot with the content of one of its successors
    pub fn none_lost(&self, state: &[SnapView]) -> bool {
        self.must_keep.iter().all(|(id, succ)| state.iter().any(|t| t.id == *id || (t.content.is_some() && succ.iter().any(|c| Some(c) == t.content.as_ref()))))
    }
}

/// the snapshots of a store (no check, damaged ones without content)
fn views_of(h: &RepoHandle, damaged: &BTreeSet<Id>) -> Result<Vec<SnapView>, String> {
    let r = h.open().and_then(|r| r.to_indexed()).map_err(|_| "open-failed".to_string())?;
    let snaps = r.get_all_snapshots().map_err(|_| "snapshot-list-failed".to_string())?;
    Ok(snaps
        .iter()
        .map(|s| {
            let content = if damaged.contains(&s.id) {
                None
            } else {
                repo::read_back(&r, s).ok().map(|mut g| {
                    g.retain(|e| e.path != b"src");
                    g
                })
            };
            SnapView { id: *s.id, original: s.original.map(|o| *o), time: format!("{:?}", s.time), content }
        })
        .collect())
}

fn sample_ks(n: usize, thorough: bool, seed: u64) -> Vec<usize> {
    if thorough || n <= 10 {
        return (0..=n).collect();
    }
    let mut v: BTreeSet<usize> = [0, 1, 2, n / 4, n / 2, 3 * n / 4, n - 2, n - 1, n].into_iter().collect();
    let mut r = Rng::new(seed ^ 0xc3);
    for _ in 0..3 {
        _ = v.insert(r.below(n as u64 + 1) as usize);
    }
    v.into_iter().collect()
}

fn exec_mon(cmd: &str, seed: u64, thorough: bool) -> String {
    let scn = match prestate(cmd, seed) {
        Ok(s) => s,
        Err(e) => return e,
    };
    let before = scn.h.be.store();
    let damaged: BTreeSet<Id> = scn.live.iter().filter(|l| l.1.is_none()).map(|l| *l.0.id).collect();
    let pre_views = match views_of(&scn.h, &damaged) {
        Ok(v) => v,
        Err(e) => return format!("oracle-fail:{cmd}:prestate-{e}"),
    };
    // full run
    if let Err(e) = run_cmd(cmd, seed, &scn.h, &scn) {
        return format!("oracle-fail:{cmd}:full-run-{}", crate::util::errkind(&e));
    }
    let n = scn.h.be.log().len();
    let fin_views = match state_ok(cmd, &scn.h, &scn.live, &BTreeSet::new()) {
        Ok(v) => v,
        Err(e) => return format!("oracle-fail:{cmd}:final-{e}"),
    };
    // which snapshots the command keeps or replaces (and by what): none of them may be lost at any crash / fault point
    let succession = Succession::new(&pre_views, &fin_views);
    // prune: every operation is a crash / fault point also in quick (the windows between index and pack removals are short);
    // so is every operation from the first snapshot write / removal on (the window of a snapshot-replacing command)
    let all_k = thorough || (cmd.starts_with("prune") && n <= 48);
    let mut ks = sample_ks(n, all_k, seed);
    if let Some(first) = scn.h.be.log().iter().position(|o| o.tpe == FileType::Snapshot) {
        ks.extend(first..=n.min(first + 12));
        ks.sort_unstable();
        ks.dedup();
    }
    for k in ks {
        for crash in [true, false] {
            if !crash && k >= n {
                continue;
            }
            let h = RepoHandle { be: MemBackend::from_store(before.clone()), hot: None, key: scn.h.key.clone() };
            if crash { h.be.set_crash_at(Some(k)) } else { h.be.set_fail_only(Some(k)) }
            let res = run_cmd(cmd, seed, &h, &scn);
            let hit = h.be.log().iter().any(|o| !o.applied);
            h.be.set_crash_at(None);
            h.be.set_fail_only(None);
            if !crash && hit && res.is_ok() {
                return format!("oracle-fail:{cmd}:failure-not-reported@{k}/{n}");
            }
            let how = if crash { "crash" } else { "fail" };
            match state_ok(cmd, &h, &scn.live, &damaged) {
                Err(e) => return format!("oracle-fail:{cmd}:{how}-{e}@{k}/{n}"),
                Ok(views) => {
                    if !succession.none_lost(&views) {
                        return format!("oracle-fail:{cmd}:{how}-snapshot-lost@{k}/{n}");
                    }
                }
            }
        }
    }
    "ok".into()
}


// ---------------------------------------------------------------------------------------------------------
// `c03 big`: the indexer's auto-save.  `Indexer::add_with` (index/indexer.rs) writes an index file on its own
// as soon as it holds `MAX_COUNT` (50 000) blobs, i.e. in the MIDDLE of a command that adds many blobs; what
// that file lists must already be stored.  The scenario is a backup whose source chunks into more than 50 000
// tiny blobs, so at least one index file is written while pack writes are still going on.
//
//   c03 big <variant>,<seed>,<q|t> <pre-ops> <run-ops>
//     variant 0: one file, fixed-size chunker with 16-byte chunks, default pack sizes (packs close at 10 000 blobs)
//     variant 1: the same with small data packs (many packs before the auto-save)
//     variant 2: many tiny files (one blob each) in directories, default chunker

pub const BIG_VARIANTS: u64 = 3;

fn big_cfg(variant: u64, seed: u64) -> ConfigOptions {
    let c = ConfigOptions::default().set_compression(if seed % 2 == 0 { 0 } else { 3 });
    match variant {
        0 => c.set_chunker(Chunker::FixedSize).set_chunk_size(ByteSize(16)),
        1 => c.set_chunker(Chunker::FixedSize).set_chunk_size(ByteSize(16)).set_datapack_size(ByteSize(40_000 + (seed % 7) * 9_000)),
        _ => c,
    }
}

/// number of distinct blobs of the big source: a little more than the indexer's auto-save threshold, so that the index
/// file is written mid-run and some packs follow it
fn big_blobs(variant: u64, seed: u64) -> u64 {
    let max_count = rustic_core::verif::indexer::MAX_COUNT as u64;
    match variant {
        2 => max_count + 600 + seed % 400,
        _ => max_count + 2_000 + (seed % 5) * 2_500,
    }
}

fn big_source(variant: u64, seed: u64, k: u64) -> MemSource {
    let n = big_blobs(variant, seed);
    let chunk = |i: u64| -> [u8; 16] {
        let mut c = [0u8; 16];
        c[..8].copy_from_slice(&i.to_le_bytes());
        c[8..].copy_from_slice(&(seed.wrapping_mul(0x9e37_79b9_7f4a_7c15) ^ 0xb16).to_le_bytes());
        c
    };
    let mut v = vec![];
    if variant == 2 {
        for i in 0..n {
            let d = format!("d{:03}", i / 700);
            let f = format!("f{i:06}");
            v.push(SrcEntry::file(&[d.as_bytes(), f.as_bytes()], &chunk(i)));
        }
    } else {
        let mut data = Vec::with_capacity(n as usize * 16);
        for i in 0..n {
            data.extend_from_slice(&chunk(i));
        }
        v.push(SrcEntry::file(&[b"big"], &data));
    }
    // a small part that changes between the pre-state backup (k = 0) and the command (k = 1)
    // (visible in the metadata: the parent-based change detection relies on it)
    let mut e = SrcEntry::file(&[b"small"], &Rng::new(seed ^ k).bytes(40));
    e.mtime_s += 10 * (k as i64 + 1);
    e.ctime_s = e.mtime_s;
    v.push(e);
    MemSource::new(v)
}

/// the (small) state before the big backup: one snapshot of a small source
fn big_prestate(variant: u64, seed: u64) -> Result<Scn, String> {
    let e = |x: Box<rustic_core::RusticError>| format!("oracle-fail:prestate-{}", crate::util::errkind(&x));
    let (h, _) = RepoHandle::init(MemBackend::new(), None, &big_cfg(variant, seed)).map_err(e)?;
    let src = MemSource::new(vec![SrcEntry::file(&[b"small"], &Rng::new(seed).bytes(40)), SrcEntry::file(&[b"old"], &Rng::new(seed ^ 5).bytes(100))]);
    let snap = do_backup(&h, &src).map_err(e)?;
    h.be.clear_log();
    Ok(Scn { h, live: vec![(snap, Some(src))], aux: None, extra_key: None })
}

/// every pack an index file lists (unmarked or marked) exists with the size the index says
fn index_lists_stored_packs(h: &RepoHandle) -> Result<(), String> {
    let store = h.be.store();
    for (_, f) in all_index(h, &store)? {
        for p in f.packs.iter().chain(f.packs_to_delete.iter()) {
            match store.get(&(repo::ft_idx(FileType::Pack), *p.id)) {
                Some(b) if b.len() as u32 == p.pack_size() => {}
                Some(_) => return Err("index-lists-pack-of-other-size".into()),
                None => return Err("index-lists-missing-pack".into()),
            }
        }
    }
    Ok(())
}

/// state oracles after a crashed / failed big backup: a consistent prefix state, and a simple retry heals it
fn big_state_ok(variant: u64, seed: u64, h: &RepoHandle, live: &[(SnapshotFile, Option<MemSource>)]) -> Result<(), String> {
    index_lists_stored_packs(h)?;
    _ = state_ok("backup", h, live, &BTreeSet::new())?;
    // the retry: same source, no fault
    let src = big_source(variant, seed, 1);
    let snap = do_backup(h, &src).map_err(|e| format!("retry-{}", crate::util::errkind(&e)))?;
    index_lists_stored_packs(h).map_err(|e| format!("retry-{e}"))?;
    match check_errors_retry(h, true) {
        Some(0) => {}
        Some(_) => return Err("retry-check-errors".into()),
        None => return Err("retry-check-failed".into()),
    }
    let r = h.open().and_then(|r| r.to_indexed()).map_err(|_| "retry-open-failed".to_string())?;
    let mut got = repo::read_back(&r, &snap).map_err(|_| "retry-snapshot-unreadable".to_string())?;
    got.retain(|e| e.path != b"src");
    if got != repo::expected(&src) {
        return Err("retry-snapshot-differs".into());
    }
    Ok(())
}

/// fault positions around every index file written before the last pack write (= the indexer's auto-saves): the pack
/// write before it, the index write itself and the operation after it (quick); thorough: two on each side, the first and
/// the last operation and two random ones.  Returned with a flag: also run with `crash_at` (quick: never; thorough: the
/// three central positions).
fn big_ks(log: &[LogOp], thorough: bool, seed: u64) -> Vec<(usize, bool)> {
    let n = log.len();
    let last_pack = log.iter().rposition(|o| o.tpe == FileType::Pack && o.write).unwrap_or(0);
    let mut v: BTreeMap<usize, bool> = BTreeMap::new();
    let d = if thorough { 2 } else { 1 };
    for (i, o) in log.iter().enumerate() {
        if o.tpe == FileType::Index && o.write && i < last_pack {
            for k in i.saturating_sub(d)..=i + d {
                let central = thorough && k + 1 >= i && k <= i + 1;
                let e = v.entry(k).or_insert(false);
                *e = *e || central;
            }
        }
    }
    if thorough && !v.is_empty() {
        _ = v.entry(0).or_insert(false);
        _ = v.entry(n - 1).or_insert(false);
        let mut r = Rng::new(seed ^ 0xb16);
        for _ in 0..2 {
            _ = v.entry(r.below(n as u64) as usize).or_insert(false);
        }
    }
    v.into_iter().filter(|(k, _)| *k < n).collect()
}

fn exec_big(variant: u64, seed: u64, thorough: bool) -> String {
    let scn = match big_prestate(variant, seed) {
        Ok(s) => s,
        Err(e) => return e,
    };
    let before = scn.h.be.store();
    let src = big_source(variant, seed, 1);
    if let Err(e) = do_backup(&scn.h, &src) {
        return format!("oracle-fail:big:full-run-{}", crate::util::errkind(&e));
    }
    let log = scn.h.be.log();
    let n = log.len();
    if let Err(e) = index_lists_stored_packs(&scn.h).and_then(|()| state_ok("backup", &scn.h, &scn.live, &BTreeSet::new()).map(|_| ())) {
        return format!("oracle-fail:big:final-{e}");
    }
    let ks = big_ks(&log, thorough, seed);
    if ks.is_empty() {
        return "oracle-fail:big:no-auto-saved-index".into();
    }
    for (k, with_crash) in ks {
        for crash in if with_crash { vec![false, true] } else { vec![false] } {
            let h = RepoHandle { be: MemBackend::from_store(before.clone()), hot: None, key: scn.h.key.clone() };
            if crash { h.be.set_crash_at(Some(k)) } else { h.be.set_fail_only(Some(k)) }
            let res = do_backup(&h, &src);
            let hit = h.be.log().iter().any(|o| !o.applied);
            h.be.set_crash_at(None);
            h.be.set_fail_only(None);
            if hit && res.is_ok() {
                return format!("oracle-fail:big:failure-not-reported@{k}/{n}");
            }
            if let Err(e) = big_state_ok(variant, seed, &h, &scn.live) {
                return format!("oracle-fail:big:{}-{e}@{k}/{n}", if crash { "crash" } else { "fail" });
            }
        }
    }
    "ok".into()
}

fn parse_big_spec(s: &str) -> Option<(u64, u64, bool)> {
    let p: Vec<&str> = s.split(',').collect();
    if p.len() != 3 || !(p[2] == "q" || p[2] == "t") {
        return None;
    }
    let v = p[0].parse::<u64>().ok()?;
    if v >= BIG_VARIANTS {
        return None;
    }
    Some((v, p[1].parse().ok()?, p[2] == "t"))
}

pub fn gen_big(variant: u64, seed: u64, thorough: bool) -> String {
    let spec = format!("{variant},{seed},{}", if thorough { "t" } else { "q" });
    let fallback = |why: String| format!("c03 big {spec} - X{} -", why.split_whitespace().next().unwrap_or("?"));
    let scn = match big_prestate(variant, seed) {
        Ok(s) => s,
        Err(e) => return fallback(e),
    };
    let before = scn.h.be.store();
    if let Err(e) = do_backup(&scn.h, &big_source(variant, seed, 1)) {
        return fallback(crate::util::errkind(&e));
    }
    let log = scn.h.be.log();
    let after = scn.h.be.store();
    match abstract_tokens_classes(&scn.h, &before, &after, &log) {
        Ok((pre, run)) => {
            let j = |v: Vec<String>| if v.is_empty() { "-".to_string() } else { v.join(";") };
            // blob counts of the packs written by the run, under the file numbers of the trace (`P<n>:…`)
            let counts: BTreeMap<Id, usize> = match all_index(&scn.h, &after) {
                Ok(ix) => ix.iter().flat_map(|(_, f)| f.packs.iter()).map(|p| (*p.id, p.blobs.len())).collect(),
                Err(e) => return fallback(e),
            };
            let mut cs = vec![];
            for (o, tok) in log.iter().filter(|o| o.applied).zip(run.iter()) {
                if o.tpe == FileType::Pack && o.write {
                    let n = tok[1..].split(':').next().unwrap_or("0");
                    cs.push(format!("{n}={}", counts.get(&o.id).copied().unwrap_or(0)));
                }
            }
            format!("c03 big {spec} {} {} {}", j(pre), j(run), if cs.is_empty() { "-".into() } else { cs.join(".") })
        }
        Err(e) => fallback(e),
    }
}

pub fn exec(toks: &[&str]) -> String {
    let toks: Vec<String> = toks.iter().map(|s| (*s).to_string()).collect();
    guarded(move || {
        if toks.len() == 5 && toks[0] == "big" {
            return match parse_big_spec(&toks[1]) {
                Some((v, seed, th)) => exec_big(v, seed, th),
                None => "bad-op".into(),
            };
        }
        if !(toks.len() == 5 || toks.len() == 6) || toks[0] != "mon" || !CMDS.contains(&toks[1].as_str()) {
            return "bad-op".into();
        }
        let (seed, thorough) = match toks[2].split_once(',') {
            Some((s, t)) => (s.parse::<u64>(), t == "t"),
            None => (toks[2].parse::<u64>(), false),
        };
        let Ok(seed) = seed else { return "bad-op".into() };
        exec_mon(&toks[1], seed, thorough)
    })
}

pub fn gen_one(cmd: &str, seed: u64, thorough: bool) -> String {
    let spec = format!("{seed},{}", if thorough { "t" } else { "q" });
    let fallback = |why: String| format!("c03 mon {cmd} {spec} - X{}", why.split_whitespace().next().unwrap_or("?"));
    let scn = match prestate(cmd, seed) {
        Ok(s) => s,
        Err(e) => return fallback(e),
    };
    let before = scn.h.be.store();
    if let Err(e) = run_cmd(cmd, seed, &scn.h, &scn) {
        return fallback(crate::util::errkind(&e));
    }
    let log = scn.h.be.log();
    let after = scn.h.be.store();
    let j = |v: Vec<String>| if v.is_empty() { "-".to_string() } else { v.join(";") };
    match abstract_tokens_numbered(&scn.h, &before, &after, &log, false) {
        Ok((pre, run, files)) => match replacement_token(&scn.h, &before, &after, &log, &files) {
            Ok(repl) => format!("c03 mon {cmd} {spec} {} {} {repl}", j(pre), j(run)),
            Err(e) => fallback(e),
        },
        Err(e) => fallback(e),
    }
}

pub fn generate(thorough: bool, rng: &mut Rng, ops: &mut Vec<String>, stats: &mut Stats) {
    // the indexer's auto-save: quick one case (variant 0 or 1), thorough every variant and one more of variant 0 / 1
    let bigs: Vec<u64> = if thorough { vec![0, 1, 2, rng.below(2)] } else { vec![rng.below(2)] };
    for variant in bigs {
        let seed = rng.below(1_000_000);
        let line = guarded(move || gen_big(variant, seed, thorough));
        stats.hit(format!("cmd.big{variant}"));
        stats.add("trace.ops", line.split(' ').nth(4).map_or(0, |r| r.split(';').count() as u64));
        ops.push(line);
    }
    let rounds = if thorough { 14 } else { 3 };
    for _ in 0..rounds {
        for cmd in CMDS {
            let seed = rng.below(1_000_000);
            let line = guarded(move || gen_one(cmd, seed, thorough));
            stats.hit(format!("cmd.{cmd}"));
            stats.add("trace.ops", line.split(' ').nth(5).map_or(0, |r| r.split(';').count() as u64));
            ops.push(line);
        }
    }
}
