//! C01 — the `Indexer`'s index files (`index/indexer.rs`): one `add` per pack, then `finalize`.
//!
//!   c01 ixr <n1,n2,…>     a fresh repository; pack `i` (label = position) lists `n_i` blobs; real `Indexer` through the hook
//!                          `verif::indexer::run_indexer`; afterwards the index files on the backend are decoded →
//!                          `ok <labels of file>;<labels of file>;…` (labels in file order, files ordered by their first label,
//!                          `-` = no index file).  Oracle: every pack is listed in exactly one index file
//!                          (`oracle-fail:ixr-pack-lost:<label>` / `…-twice:<label>`): the index files are what a re-opened
//!                          repository knows.  The model (`Store.Ixr`, Props.C01 `indexer_files_list_every_pack`) predicts the
//!                          grouping with the regenerated `MAX_COUNT`.
use std::collections::BTreeMap;

use crate::repo::{MemBackend, RepoHandle};
use crate::util::{Rng, Stats, errkind, guarded};
use rustic_core::repofile::{BlobType, IndexBlob, IndexPack, PackId};
use rustic_core::verif::blob::BlobLocation;
use rustic_core::{BlobId, ConfigOptions, Id};

fn label_id(tag: u8, label: usize, k: usize) -> Id {
    let mut b = [0u8; 32];
    b[0] = tag;
    b[1..9].copy_from_slice(&(label as u64).to_be_bytes());
    b[9..17].copy_from_slice(&(k as u64).to_be_bytes());
    Id::new(b)
}

fn run(counts: &[usize]) -> String {
    let (h, repo) = match RepoHandle::init_nc(MemBackend::new(), None, &ConfigOptions::default()) {
        Ok(x) => x,
        Err(e) => return format!("init-{}", errkind(&e)),
    };
    let before: Vec<Id> = h.be.ids(rustic_core::repofile::FileType::Index);
    let packs: Vec<IndexPack> = counts
        .iter()
        .enumerate()
        .map(|(label, n)| IndexPack {
            id: PackId::from(label_id(1, label, 0)),
            blobs: (0..*n)
                .map(|k| IndexBlob {
                    id: BlobId::from(label_id(2, label, k)),
                    tpe: BlobType::Data,
                    location: BlobLocation { offset: (k as u32).wrapping_mul(40), length: 40, uncompressed_length: None },
                })
                .collect(),
            time: None,
            size: None,
        })
        .collect();
    let by_id: BTreeMap<Id, usize> = (0..counts.len()).map(|l| (label_id(1, l, 0), l)).collect();
    if let Err(e) = rustic_core::verif::indexer::run_indexer(&repo, packs) {
        return errkind(&e);
    }
    let store = h.be.store();
    let files = match crate::dispatch::c03::all_index(&h, &store) {
        Ok(f) => f,
        Err(e) => return e,
    };
    let mut seen = vec![0usize; counts.len()];
    let mut groups: Vec<Vec<usize>> = Vec::new();
    for (id, f) in files {
        if before.contains(&id) {
            continue;
        }
        if !f.packs_to_delete.is_empty() {
            return "oracle-fail:ixr-marked-pack".into();
        }
        let mut g = Vec::new();
        for p in &f.packs {
            let Some(l) = by_id.get(&*p.id) else { return "oracle-fail:ixr-unknown-pack".into() };
            if p.blobs.len() != counts[*l] {
                return format!("oracle-fail:ixr-blob-count:{l}");
            }
            seen[*l] += 1;
            g.push(*l);
        }
        if g.is_empty() {
            return "oracle-fail:ixr-empty-index-file".into();
        }
        groups.push(g);
    }
    for (l, n) in seen.iter().enumerate() {
        if *n == 0 {
            return format!("oracle-fail:ixr-pack-lost:{l}");
        }
        if *n > 1 {
            return format!("oracle-fail:ixr-pack-twice:{l}");
        }
    }
    groups.sort();
    if groups.is_empty() {
        return "ok -".into();
    }
    format!("ok {}", groups.iter().map(|g| g.iter().map(ToString::to_string).collect::<Vec<_>>().join(",")).collect::<Vec<_>>().join(";"))
}

pub fn exec(toks: &[&str]) -> String {
    let t: Vec<String> = toks.iter().map(|s| (*s).to_string()).collect();
    guarded(std::panic::AssertUnwindSafe(move || {
        let [counts] = t.as_slice() else { return "bad-op".into() };
        let counts: Option<Vec<usize>> = if counts == "-" { Some(vec![]) } else { counts.split(',').map(|x| x.parse().ok()).collect() };
        let Some(counts) = counts else { return "bad-op".into() };
        if counts.iter().sum::<usize>() > 400_000 {
            return "bad-op".into();
        }
        run(&counts)
    }))
}

pub fn generate(thorough: bool, rng: &mut Rng, ops: &mut Vec<String>, stats: &mut Stats) {
    let max = rustic_core::verif::indexer::MAX_COUNT;
    let show = |c: &[usize]| if c.is_empty() { "-".to_string() } else { c.iter().map(ToString::to_string).collect::<Vec<_>>().join(",") };
    // fixed shapes around the flush threshold
    let fixed: Vec<Vec<usize>> = vec![
        vec![],
        vec![0],
        vec![3, 0, 2],
        vec![max - 1],
        vec![max],
        vec![max + 1],
        vec![max - 1, 1],
        vec![max - 1, 1, 1],
        vec![max / 2, max / 2, 5, 7],
        vec![max, max, 1],
        vec![10, max + 5, 0, 3],
    ];
    let n_fixed = if thorough { fixed.len() } else { 7 };
    for c in fixed.iter().take(n_fixed) {
        stats.hit("ixr.fixed");
        ops.push(format!("c01 ixr {}", show(c)));
    }
    for _ in 0..(if thorough { 30 } else { 4 }) {
        let k = 1 + rng.below(7) as usize;
        let c: Vec<usize> = (0..k)
            .map(|_| match rng.below(6) {
                0 => 0,
                1 => 1 + rng.below(50) as usize,
                2 => max / 3 + rng.below(10) as usize,
                3 => max / 2,
                4 => max - 1 - rng.below(3) as usize,
                _ => rng.below(max as u64 + 10) as usize,
            })
            .collect();
        stats.hit(format!("ixr.flushes.{}", c.iter().sum::<usize>() / max));
        ops.push(format!("c01 ixr {}", show(&c)));
    }
}
