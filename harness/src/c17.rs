//! C17 — the in-memory index answers exactly what the index files say.
//!
//! Op line:  `c17 idx <mode> <src> <files> <queries>`
//!   mode  = full | ids | trees | dropdata        (IndexType::{Full, DataIds, OnlyTrees}; Full + drop_data)
//!   src   = direct  (hook: IndexCollector::new / extend(file.packs) per file / into_index; also iteration)
//!         | repo    (real repository on the in-memory backend: the crafted index files are saved with
//!                    `save_file`, the repository is re-opened and indexed with `to_indexed` / `to_indexed_ids`
//!                    (/ `drop_data_from_index`), i.e. through `GlobalIndex::new_from_collector`)
//!   files = index files joined by `/` (`-` = none); file = `<packs>|<packs_to_delete>[|s=<refs>][|<fault>]`; pack list = `-` or
//!           packs joined by `,`; pack = `<id64>:<size|->:<blobs>`; blobs = `-` or blobs joined by `+`;
//!           blob = `<id64>.<t|d>.<offset>.<length>.<ulen|->`
//!   refs  = the file's `supersedes` field (no `s=` part: the field is absent, as in every file rustic writes): `-` = the empty
//!           list, else refs joined by `,`; ref = `f<k>` = the id of the k-th index file of THIS op line (0-based; a PRESENT index
//!           file: an earlier one = "a rewritten index names the files it replaces, which are still there", a later one, or the
//!           file itself — chains and cycles) | `<id64>` = any other id (an ABSENT index file).
//!           `repo` source: a file that is referenced by itself or by an earlier file cannot have the hash of its (nonce-dependent)
//!           ciphertext as id before it is written, so it is stored under a chosen id (`planted_id(k)`; its JSON sealed with the
//!           repository key; reading does not compare ids with hashes); all other files are saved with `save_file` in op-line
//!           order and references to them are their real ids.  Loading must IGNORE the field (Props/C17 `supersedes_is_ignored`).
//!   fault (src = repo only; the file is saved like the others, then fetching it is made to fail):
//!           `read`      the backend's read of exactly this file returns an error             -> Backend
//!           `flip.<n>`  bit `n mod (8*len)` of the stored bytes flipped (MAC mismatch)        -> Cryptography
//!           `trunc.<n>` only the first `n mod len` stored bytes kept                           -> Cryptography
//!           `junk`      replaced by non-JSON plaintext sealed with the repository key          -> Cryptography (`decrypt_file`: unsupported)
//!           `badzstd`   … by `2` + bytes that are not a zstd frame, sealed                     -> Cryptography
//!           `notjson`   … by `{` + something that is not JSON, sealed                           -> Internal
//!           `notindex`  … by valid JSON that is not an index file (`[1,2,3]`), sealed          -> Internal
//!   Loading must then FAIL: observation `err:<Kind>` (several faulty files of different kinds: the parallel stream decides
//!   which error is met first — `err:one-of:<kinds>`, and the harness checks the real kind is one of them).
//!   Oracle whenever loading returns Ok (with or without faults): every blob that any saved index file lists in an unmarked
//!   pack is found (`oracle-fail:listed-blob-missing`) and the totals are the sums over all saved files' unmarked packs
//!   (`oracle-fail:total-size`) — an index that silently lacks a file can never pass.
//!   queries = `-` or 64-hex ids joined by `,`
//! Observation: `ok ts=<tree total>,<data total> q=<hasT><hasD>,<getT>,<getD>;… it=<packs in iteration order>`
//!   get = `n` | `s:<pack>:<off>:<len>:<ulen>` | `amb:<all distinct listings, sorted>` — the latter when more than one
//!   distinct listing exists (unstable sort + binary search may return any of them); the harness then checks
//!   itself that the returned entry is one of them (`oracle-fail:get-not-a-listing` otherwise).
//!
//! Op line:  `c17 psize <size|-> <blobs>`   the real `IndexPack::pack_size()` of one index entry (u32 arithmetic; the harness is
//!   built with overflow checks) vs `Model/PackU32.lean packSizeChecked` -> `ok <n>` | `ok overflow-panic`
use std::collections::BTreeSet;
use std::num::NonZeroU32;

use crate::repo::{MemBackend, RepoHandle};
use bytes::Bytes;
use rustic_core::repofile::FileType;
use rustic_core::verif::aespoly1305::CryptoKey;
use crate::util::{Rng, Stats, errkind, guarded};
use rustic_core::repofile::{BlobType, IndexBlob, IndexFile, IndexPack, PackId};
use rustic_core::verif::binarysorted as bs;
use rustic_core::verif::blob::BlobLocation;
use rustic_core::verif::decrypt::DecryptWriteBackend;
use rustic_core::verif::index::{IndexEntry, entry_blob_type};
use rustic_core::{BlobId, ConfigOptions, Id};

// ---------------------------------------------------------------- generator

fn hex_id(b: &[u8; 32]) -> String {
    hex::encode(b)
}

/// A pool of ids with structure: random ids, ids sharing long prefixes, the extreme ids, ids that differ from
/// another pool member in exactly one bit / by one in the last byte.
fn id_pool(rng: &mut Rng, n: usize) -> Vec<[u8; 32]> {
    let mut v: Vec<[u8; 32]> = Vec::new();
    while v.len() < n {
        let mut id = [0u8; 32];
        match rng.below(8) {
            0 if !v.is_empty() => {
                id = *rng.pick(&v);
                let bit = rng.below(256) as usize;
                id[bit / 8] ^= 1 << (bit % 8);
            }
            1 if !v.is_empty() => {
                id = *rng.pick(&v);
                id[31] = id[31].wrapping_add(1);
            }
            2 => {
                id = [if rng.chance(1, 2) { 0 } else { 0xff }; 32];
            }
            3 => {
                // few distinct values in the first byte only
                id[0] = rng.below(3) as u8;
            }
            4 => {
                // differ only in the last byte
                id = [0x55; 32];
                id[31] = rng.below(4) as u8;
            }
            _ => {
                let b = rng.bytes(32);
                id.copy_from_slice(&b);
            }
        }
        v.push(id);
    }
    v
}

fn near_miss(rng: &mut Rng, id: &[u8; 32]) -> [u8; 32] {
    let mut q = *id;
    match rng.below(5) {
        0 => q[31] = q[31].wrapping_add(1),
        1 => q[31] = q[31].wrapping_sub(1),
        2 => q[0] = q[0].wrapping_add(1),
        3 => {
            let bit = rng.below(256) as usize;
            q[bit / 8] ^= 1 << (bit % 8);
        }
        _ => {
            // carry into the byte before: …00ff -> …0100
            let k = 1 + rng.below(31) as usize;
            q[k] = 0xff;
            q[k - 1] = q[k - 1].wrapping_add(1);
        }
    }
    q
}

struct GenPack {
    tok: String,
    ids: Vec<[u8; 32]>,
}

fn gen_pack(rng: &mut Rng, pool: &[[u8; 32]], pack_ids: &mut Vec<[u8; 32]>, stats: &mut Stats, max_blobs: u64) -> GenPack {
    // pack id: mostly fresh, sometimes a repeat of an earlier pack id (the same pack listed twice)
    let pid = if !pack_ids.is_empty() && rng.chance(1, 10) {
        stats.hit("pack.id-repeated");
        *rng.pick(pack_ids)
    } else {
        let mut p = [0u8; 32];
        p.copy_from_slice(&rng.bytes(32));
        pack_ids.push(p);
        p
    };
    let tpe = if rng.chance(1, 2) { 't' } else { 'd' };
    let mixed = rng.chance(1, 25);
    let n = if rng.chance(1, 8) { 0 } else { 1 + rng.below(max_blobs) };
    if n == 0 {
        stats.hit("pack.empty");
    }
    if mixed && n > 1 {
        stats.hit("pack.mixed-types");
    }
    let mut blobs = Vec::new();
    let mut ids = Vec::new();
    let mut off = if rng.chance(1, 6) { rng.below(1000) } else { 0 };
    for _ in 0..n {
        let id = *rng.pick(pool);
        ids.push(id);
        let len = match rng.below(6) {
            0 => 32,
            1 => 33,
            2 => rng.below(1 << 20),
            _ => 32 + rng.below(5000),
        };
        let ulen = if rng.chance(1, 2) { "-".to_string() } else { (1 + rng.below(100_000)).to_string() };
        let t = if mixed && rng.chance(1, 2) { if tpe == 't' { 'd' } else { 't' } } else { tpe };
        blobs.push(format!("{}.{t}.{off}.{len}.{ulen}", hex_id(&id)));
        off += len;
    }
    let size = match rng.below(4) {
        0 => "-".to_string(),
        1 => rng.below(1 << 31).to_string(),
        _ => (off + 36 + 41 * n).to_string(),
    };
    if size == "-" {
        stats.hit("pack.size-none");
    }
    let btok = if blobs.is_empty() { "-".to_string() } else { blobs.join("+") };
    GenPack { tok: format!("{}:{size}:{btok}", hex_id(&pid)), ids }
}

/// index entries whose listed lengths add up to around 2^32 (the `u32` fold of `pack_size()`)
fn gen_psize(rng: &mut Rng, stats: &mut Stats) -> String {
    let n = 1 + rng.below(5);
    let comp: Vec<bool> = (0..n).map(|_| rng.chance(1, 2)).collect();
    let overhead: u64 = 36 + comp.iter().map(|c| if *c { 41u64 } else { 37 }).sum::<u64>();
    // total of the lengths: at / around the largest value that still fits, or anything
    let target_sum: u64 = match rng.below(6) {
        0 => (1u64 << 32) - 1 - overhead,
        1 => (1u64 << 32) - overhead,
        2 => (1u64 << 32) - 2 - overhead,
        3 => (1u64 << 32) + rng.below(1 << 20),
        4 => rng.below(1 << 33),
        _ => rng.below(1 << 20),
    };
    let mut rest = target_sum;
    let mut blobs = Vec::new();
    for (i, c) in comp.iter().enumerate() {
        let len = if i + 1 == comp.len() { rest.min(u64::from(u32::MAX)) } else { rng.below(rest.min(u64::from(u32::MAX)) + 1) };
        rest -= len;
        let mut id = [0u8; 32];
        id[31] = i as u8;
        blobs.push(format!("{}.d.{}.{len}.{}", hex_id(&id), rng.below(1 << 32), if *c { "7".to_string() } else { "-".to_string() }));
    }
    let size = if rng.chance(1, 6) { rng.below(1 << 32).to_string() } else { "-".to_string() };
    stats.hit(if target_sum + overhead >= (1 << 32) && size == "-" { "psize.overflow" } else { "psize.fits" });
    format!("c17 psize {size} {}", blobs.join("+"))
}

pub fn generate(thorough: bool, rng: &mut Rng, ops: &mut Vec<String>, stats: &mut Stats) {
    for _ in 0..(if thorough { 600 } else { 60 }) {
        let op = gen_psize(rng, stats);
        ops.push(op);
    }
    let n_cases = if thorough { 12_000 } else { 900 };
    for case in 0..n_cases {
        let big = thorough && case % 40 == 0;
        let pool_n = match rng.below(5) {
            0 => 1 + rng.below(3) as usize,
            1 => 4 + rng.below(6) as usize,
            _ => 6 + rng.below(if big { 400 } else { 40 }) as usize,
        };
        let pool = id_pool(rng, pool_n);
        let mode = *rng.pick(&["full", "full", "ids", "trees", "dropdata"]);
        let src = if mode != "trees" && rng.chance(1, 3) { "repo" } else { "direct" };
        stats.hit(format!("mode.{mode}"));
        stats.hit(format!("src.{src}"));
        let n_files = if rng.chance(1, 12) { 0 } else { 1 + rng.below(4) };
        let mut files: Vec<String> = Vec::new();
        let mut pack_ids = Vec::new();
        let mut unmarked_ids: Vec<[u8; 32]> = Vec::new();
        let mut marked_ids: Vec<[u8; 32]> = Vec::new();
        let mut all_packs: Vec<String> = Vec::new();
        let max_blobs = if big { 30 } else { 8 };
        for _ in 0..n_files {
            let np = if rng.chance(1, 10) { 0 } else { 1 + rng.below(if big { 20 } else { 6 }) };
            let nd = if rng.chance(1, 2) { 0 } else { 1 + rng.below(3) };
            let mut p = Vec::new();
            for _ in 0..np {
                // sometimes the very same pack listing again (as after an interrupted prune / duplicate index)
                if !all_packs.is_empty() && rng.chance(1, 12) {
                    stats.hit("pack.listing-duplicated");
                    p.push(rng.pick(&all_packs).clone());
                    continue;
                }
                let g = gen_pack(rng, &pool, &mut pack_ids, stats, max_blobs);
                unmarked_ids.extend(g.ids.iter());
                all_packs.push(g.tok.clone());
                p.push(g.tok);
            }
            let mut d = Vec::new();
            for _ in 0..nd {
                let g = gen_pack(rng, &pool, &mut pack_ids, stats, max_blobs);
                marked_ids.extend(g.ids.iter());
                stats.hit("pack.marked");
                d.push(g.tok);
            }
            let j = |v: Vec<String>| if v.is_empty() { "-".to_string() } else { v.join(",") };
            let tok = format!("{}|{}", j(p), j(d));
            if src == "repo" && files.contains(&tok) {
                continue; // identical index files have one id, i.e. are one file
            }
            files.push(tok);
        }
        stats.hit(format!("files.{}", files.len()));
        stats.add("packs", all_packs.len() as u64);
        // `supersedes` lists (mostly the repo source, where loading streams whole index files; a few direct cases for the
        // parsers): ids of present index files (earlier ones = a rewritten index next to the files it replaces, later ones,
        // the file itself; chains, cycles, everything names everything), ids of absent files, the empty list, repeats
        if !files.is_empty() && rng.chance(if src == "repo" { 3 } else { 1 }, if src == "repo" { 5 } else { 8 }) {
            let n = files.len();
            let absent = |rng: &mut Rng| hex::encode(rng.bytes(32));
            let mut sup: Vec<Option<Vec<String>>> = vec![None; n];
            let style = rng.below(8);
            stats.hit(format!("supersedes.style.{}", ["rewrite-last", "rewrite-last", "random", "random", "cycle", "chain", "absent-only", "all-name-all"][style as usize]));
            match style {
                // an index rewrite caught half-way: the last file(s) name earlier files (all, or some), which are still there
                0 | 1 => {
                    let first_new = if n > 1 { 1 + rng.below(n as u64 - 1) as usize } else { 0 };
                    for k in first_new..n {
                        let mut v: Vec<String> = (0..first_new).filter(|_| style == 0 || rng.chance(2, 3)).map(|j| format!("f{j}")).collect();
                        if rng.chance(1, 4) {
                            v.push(absent(rng));
                        }
                        sup[k] = Some(v);
                    }
                }
                2 | 3 => {
                    for item in sup.iter_mut() {
                        if rng.chance(2, 3) {
                            let m = rng.below(4);
                            let v = (0..m).map(|_| if rng.chance(3, 4) { format!("f{}", rng.below(n as u64)) } else { absent(rng) }).collect();
                            *item = Some(v);
                        }
                    }
                }
                // cycle f0 -> f1 -> … -> f0 (one file: names itself)
                4 => {
                    for (k, item) in sup.iter_mut().enumerate() {
                        *item = Some(vec![format!("f{}", (k + 1) % n)]);
                    }
                }
                // chain: every file names its predecessor (and sometimes the one before)
                5 => {
                    for (k, item) in sup.iter_mut().enumerate().skip(1) {
                        let mut v = vec![format!("f{}", k - 1)];
                        if k > 1 && rng.chance(1, 2) {
                            v.push(format!("f{}", k - 2));
                        }
                        *item = Some(v);
                    }
                    if n == 1 {
                        sup[0] = Some(vec!["f0".to_string()]);
                    }
                }
                6 => {
                    for item in sup.iter_mut() {
                        if rng.chance(2, 3) {
                            *item = Some((0..1 + rng.below(3)).map(|_| absent(rng)).collect());
                        }
                    }
                }
                _ => {
                    for item in sup.iter_mut() {
                        *item = Some((0..n).map(|j| format!("f{j}")).collect());
                    }
                }
            }
            let mut any = false;
            for (k, item) in sup.into_iter().enumerate() {
                let Some(v) = item else { continue };
                any = true;
                stats.hit("supersedes.files");
                if v.is_empty() {
                    stats.hit("supersedes.empty-list");
                }
                for r in &v {
                    match r.strip_prefix('f').filter(|_| r.len() < 64).and_then(|j| j.parse::<usize>().ok()) {
                        Some(j) if j < k => stats.hit("supersedes.ref.earlier-file"),
                        Some(j) if j == k => stats.hit("supersedes.ref.self"),
                        Some(_) => stats.hit("supersedes.ref.later-file"),
                        None => stats.hit("supersedes.ref.absent-id"),
                    }
                }
                files[k] = format!("{}|s={}", files[k], if v.is_empty() { "-".to_string() } else { v.join(",") });
            }
            if any {
                stats.hit(format!("supersedes.cases.{src}"));
            }
        }
        // load faults (repo source): fetching one (sometimes two, rarely every) of the saved index files fails
        if src == "repo" && !files.is_empty() && rng.chance(1, 2) {
            stats.hit("fault.cases");
            let n = files.len();
            let hit: Vec<usize> = match rng.below(20) {
                0 => (0..n).collect(),
                1..=4 if n > 1 => {
                    let a = rng.below(n as u64) as usize;
                    let b = (a + 1 + rng.below(n as u64 - 1) as usize) % n;
                    vec![a, b]
                }
                _ => vec![rng.below(n as u64) as usize],
            };
            if hit.len() > 1 {
                stats.hit("fault.multi");
            }
            if hit.len() < n {
                stats.hit("fault.some-files-load-fine");
            }
            for i in hit {
                let f = match rng.below(8) {
                    0 | 1 => "read".to_string(),
                    2 => format!("flip.{}", rng.below(1 << 20)),
                    3 => format!("trunc.{}", if rng.chance(1, 3) { rng.below(40) } else { rng.below(1 << 20) }),
                    4 => "junk".to_string(),
                    5 => "badzstd".to_string(),
                    6 => "notjson".to_string(),
                    _ => "notindex".to_string(),
                };
                stats.hit(format!("fault.{}", f.split('.').next().unwrap_or("?")));
                files[i] = format!("{}|{f}", files[i]);
            }
        }
        // queries: every listed id (marked or not), near misses, ids of the pool that are listed nowhere
        let mut qs: BTreeSet<[u8; 32]> = BTreeSet::new();
        let un: BTreeSet<[u8; 32]> = unmarked_ids.iter().copied().collect();
        for id in unmarked_ids.iter().chain(marked_ids.iter()) {
            _ = qs.insert(*id);
        }
        let only_marked = marked_ids.iter().filter(|i| !un.contains(*i)).count();
        stats.add("query.only-in-marked-pack", only_marked as u64);
        let listed: Vec<[u8; 32]> = qs.iter().copied().collect();
        for id in listed.iter().take(if big { 40 } else { 12 }) {
            _ = qs.insert(near_miss(rng, id));
            stats.hit("query.near-miss");
        }
        for id in pool.iter().take(6) {
            _ = qs.insert(*id);
        }
        let mut r = [0u8; 32];
        r.copy_from_slice(&rng.bytes(32));
        _ = qs.insert(r);
        let mut qv: Vec<[u8; 32]> = qs.into_iter().collect();
        if !big && qv.len() > 60 {
            qv.truncate(60);
        }
        // shuffle a little so that query order is not id order
        for i in (1..qv.len()).rev() {
            let j = rng.below(i as u64 + 1) as usize;
            qv.swap(i, j);
        }
        stats.add("queries", qv.len() as u64);
        let ftok = if files.is_empty() { "-".to_string() } else { files.join("/") };
        let qtok = if qv.is_empty() { "-".to_string() } else { qv.iter().map(hex_id).collect::<Vec<_>>().join(",") };
        ops.push(format!("c17 idx {mode} {src} {ftok} {qtok}"));
    }
}

// ---------------------------------------------------------------- parsing of an op line

fn parse_id(s: &str) -> Option<Id> {
    if s.len() != 64 {
        return None;
    }
    let b = hex::decode(s).ok()?;
    let mut a = [0u8; 32];
    a.copy_from_slice(&b);
    Some(Id::new(a))
}

fn parse_blob(s: &str) -> Option<IndexBlob> {
    let f: Vec<&str> = s.split('.').collect();
    if f.len() != 5 {
        return None;
    }
    let tpe = match f[1] {
        "t" => BlobType::Tree,
        "d" => BlobType::Data,
        _ => return None,
    };
    let uncompressed_length = if f[4] == "-" { None } else { Some(NonZeroU32::new(f[4].parse().ok()?)?) };
    Some(IndexBlob {
        id: BlobId::from(parse_id(f[0])?),
        tpe,
        location: BlobLocation { offset: f[2].parse().ok()?, length: f[3].parse().ok()?, uncompressed_length },
    })
}

fn parse_pack(s: &str) -> Option<IndexPack> {
    let f: Vec<&str> = s.split(':').collect();
    if f.len() != 3 {
        return None;
    }
    let size = if f[1] == "-" { None } else { Some(f[1].parse::<u32>().ok()?) };
    let blobs = if f[2] == "-" { vec![] } else { f[2].split('+').map(parse_blob).collect::<Option<Vec<_>>>()? };
    Some(IndexPack { id: PackId::from(parse_id(f[0])?), blobs, time: None, size })
}

fn parse_packs(s: &str) -> Option<Vec<IndexPack>> {
    if s == "-" { Some(vec![]) } else { s.split(',').map(parse_pack).collect() }
}

/// how fetching one saved index file is made to fail
#[derive(Clone, Copy, Debug, PartialEq, Eq)]
pub enum Fault {
    Read,
    Flip(u64),
    Trunc(u64),
    Junk,
    BadZstd,
    NotJson,
    NotIndex,
}

impl Fault {
    /// the `ErrorKind` `get_file` maps this failure to (Model/IndexLoad.lean `getFile`)
    fn kind(self) -> &'static str {
        match self {
            Self::Read => "Backend",
            Self::Flip(_) | Self::Trunc(_) | Self::Junk | Self::BadZstd => "Cryptography",
            Self::NotJson | Self::NotIndex => "Internal",
        }
    }
}

fn parse_fault(s: &str) -> Option<Fault> {
    let f: Vec<&str> = s.split('.').collect();
    Some(match f.as_slice() {
        ["read"] => Fault::Read,
        ["flip", n] => Fault::Flip(n.parse().ok()?),
        ["trunc", n] => Fault::Trunc(n.parse().ok()?),
        ["junk"] => Fault::Junk,
        ["badzstd"] => Fault::BadZstd,
        ["notjson"] => Fault::NotJson,
        ["notindex"] => Fault::NotIndex,
        _ => return None,
    })
}

/// one entry of a `supersedes` list as the op line writes it
#[derive(Clone, Copy, Debug, PartialEq, Eq)]
pub enum SupRef {
    /// the id of the k-th index file of the op line
    File(usize),
    /// any other id
    Id(Id),
}

pub struct ParsedFile {
    pub packs: Vec<IndexPack>,
    pub packs_to_delete: Vec<IndexPack>,
    pub supersedes: Option<Vec<SupRef>>,
    pub fault: Option<Fault>,
}

fn parse_refs(s: &str) -> Option<Vec<SupRef>> {
    if s == "-" {
        return Some(vec![]);
    }
    s.split(',')
        .map(|r| match r.strip_prefix('f') {
            Some(k) if r.len() < 64 => {
                if k.is_empty() || !k.bytes().all(|b| b.is_ascii_digit()) {
                    return None;
                }
                Some(SupRef::File(k.parse().ok()?))
            }
            _ => Some(SupRef::Id(parse_id(r)?)),
        })
        .collect()
}

pub fn parse_files(s: &str) -> Option<Vec<ParsedFile>> {
    if s == "-" {
        return Some(vec![]);
    }
    let files: Option<Vec<ParsedFile>> = s
        .split('/')
        .map(|f| {
            let parts: Vec<&str> = f.split('|').collect();
            if parts.len() < 2 {
                return None;
            }
            let (supersedes, fault) = match &parts[2..] {
                [] => (None, None),
                [x] => match x.strip_prefix("s=") {
                    Some(r) => (Some(parse_refs(r)?), None),
                    None => (None, Some(parse_fault(x)?)),
                },
                [x, y] => (Some(parse_refs(x.strip_prefix("s=")?)?), Some(parse_fault(y)?)),
                _ => return None,
            };
            Some(ParsedFile { packs: parse_packs(parts[0])?, packs_to_delete: parse_packs(parts[1])?, supersedes, fault })
        })
        .collect();
    let files = files?;
    // a reference names a file of this op line
    let n = files.len();
    if files.iter().any(|f| f.supersedes.iter().flatten().any(|r| matches!(r, SupRef::File(k) if *k >= n))) {
        return None;
    }
    Some(files)
}

/// the id under which the k-th index file is stored when it cannot be saved under the hash of its ciphertext (it is named by
/// its own or by an earlier file's `supersedes` list)
fn planted_id(k: usize) -> Id {
    let mut a = [0u8; 32];
    a.copy_from_slice(&Rng::new(0xc17_5eed_0000 + k as u64).bytes(32));
    Id::new(a)
}

// ---------------------------------------------------------------- observation

fn ulen_str(u: Option<NonZeroU32>) -> String {
    u.map_or("-".to_string(), |n| n.get().to_string())
}

type Listing = (String, u32, u32, String);

fn listing_str(l: &Listing) -> String {
    format!("{}:{}:{}:{}", l.0, l.1, l.2, l.3)
}

/// What the index files say (independently of the index code): distinct listings of `(t, id)` in packs that are
/// not marked for deletion.  `p.blob_type()` is the real (public) method.
fn listings(files: &[IndexFile], t: BlobType, id: &BlobId) -> Vec<Listing> {
    let mut s: BTreeSet<Listing> = BTreeSet::new();
    for f in files {
        for p in &f.packs {
            if p.blob_type() != t {
                continue;
            }
            for b in &p.blobs {
                if b.id == *id {
                    _ = s.insert((p.id.to_hex().to_string(), b.location.offset, b.location.length, ulen_str(b.location.uncompressed_length)));
                }
            }
        }
    }
    s.into_iter().collect()
}

fn get_obs(files: &[IndexFile], t: BlobType, id: &BlobId, got: Option<IndexEntry>) -> Result<String, String> {
    let Some(e) = got else { return Ok("n".into()) };
    if entry_blob_type(&e) != t {
        return Err("oracle-fail:get-wrong-type".into());
    }
    let me: Listing = (e.pack.to_hex().to_string(), e.location.offset, e.location.length, ulen_str(e.location.uncompressed_length));
    let cands = listings(files, t, id);
    if cands.len() > 1 {
        if !cands.contains(&me) {
            return Err("oracle-fail:get-not-a-listing".into());
        }
        return Ok(format!("amb:{}", cands.iter().map(listing_str).collect::<Vec<_>>().join("~")));
    }
    Ok(format!("s:{}", listing_str(&me)))
}

fn iter_obs(index: bs::Index) -> String {
    let mut packs = Vec::new();
    for p in index {
        let t = match p.blobs.first().map(|b| b.tpe) {
            Some(BlobType::Tree) => "t",
            Some(BlobType::Data) => "d",
            None => "e",
        };
        if p.size.is_some() || p.time.is_some() {
            return "oracle-fail:iter-size-or-time-set".into();
        }
        let mut bl: Vec<(String, u32, u32, String)> = p
            .blobs
            .iter()
            .map(|b| (b.id.to_hex().to_string(), b.location.offset, b.location.length, ulen_str(b.location.uncompressed_length)))
            .collect();
        bl.sort();
        if p.blobs.iter().any(|b| Some(b.tpe) != p.blobs.first().map(|b| b.tpe)) {
            return "oracle-fail:iter-mixed-pack".into();
        }
        let bstr = if bl.is_empty() { "-".to_string() } else { bl.iter().map(|b| format!("{}.{}.{}.{}", b.0, b.1, b.2, b.3)).collect::<Vec<_>>().join("~") };
        packs.push(format!("{t}:{}:{bstr}", p.id.to_hex().as_str()));
    }
    if packs.is_empty() { "-".to_string() } else { packs.join(",") }
}

/// Direct oracle on an index that loading handed out: every blob that a saved index file lists in an unmarked pack is found
/// (under the pack's type, for the types whose ids the mode retains), and the totals are the sums of `pack_size()` over ALL
/// saved files' unmarked packs.
fn complete_oracle(files: &[IndexFile], mode: &str, has: &dyn Fn(BlobType, &BlobId) -> bool, ts: (u64, u64)) -> Option<String> {
    let mut want = (0u64, 0u64);
    for f in files {
        for p in &f.packs {
            let t = p.blob_type();
            let retained = t == BlobType::Tree || mode != "dropdata";
            match t {
                BlobType::Tree => want.0 += u64::from(p.pack_size()),
                BlobType::Data if retained => want.1 += u64::from(p.pack_size()),
                BlobType::Data => {}
            }
            if retained && p.blobs.iter().any(|b| !has(t, &b.id)) {
                return Some("oracle-fail:listed-blob-missing".into());
            }
        }
    }
    if want != ts {
        return Some("oracle-fail:total-size".into());
    }
    None
}

fn run(mode: &str, src: &str, parsed: Vec<ParsedFile>, queries: &[BlobId]) -> String {
    let faults: Vec<Option<Fault>> = parsed.iter().map(|f| f.fault).collect();
    let sups: Vec<Option<Vec<SupRef>>> = parsed.iter().map(|f| f.supersedes.clone()).collect();
    // `planted[k]`: file k is named by its own or an earlier file's list -> stored under `planted_id(k)` (repo source)
    let planted: Vec<bool> =
        (0..parsed.len()).map(|k| sups[..=k].iter().flatten().flatten().any(|r| *r == SupRef::File(k))).collect();
    // the index files; the `supersedes` lists are resolved below for the repo source (real ids), here with the chosen ids
    // (the direct source hands `file.packs` to the collector hook, nothing else of the file)
    let mut files: Vec<IndexFile> = parsed
        .into_iter()
        .map(|f| IndexFile {
            supersedes: f.supersedes.map(|v| {
                v.iter()
                    .map(|r| match r {
                        SupRef::File(k) => planted_id(*k).into(),
                        SupRef::Id(id) => (*id).into(),
                    })
                    .collect()
            }),
            packs: f.packs,
            packs_to_delete: f.packs_to_delete,
        })
        .collect();
    if src != "repo" && faults.iter().any(Option::is_some) {
        return "bad-op".into();
    }
    let types = [BlobType::Tree, BlobType::Data];
    let mut qobs = Vec::new();
    let ts;
    let it;
    match src {
        "direct" => {
            let tpe = match mode {
                "full" | "dropdata" => bs::IndexType::Full,
                "ids" => bs::IndexType::DataIds,
                "trees" => bs::IndexType::OnlyTrees,
                _ => return "bad-op".into(),
            };
            let mut c = bs::IndexCollector::new(tpe);
            for f in &files {
                // exactly what GlobalIndex::new_from_collector hands over: `index.packs`
                bs::collector_extend(&mut c, f.packs.clone());
            }
            let mut index = c.into_index();
            if mode == "dropdata" {
                index = bs::drop_data(index);
            }
            ts = (bs::total_size(&index, types[0]), bs::total_size(&index, types[1]));
            for q in queries {
                let h: Vec<&str> = types.iter().map(|t| if bs::has(&index, *t, q) { "1" } else { "0" }).collect();
                let mut g = Vec::new();
                for t in types {
                    match get_obs(&files, t, q, bs::get_id(&index, t, q)) {
                        Ok(s) => g.push(s),
                        Err(e) => return e,
                    }
                }
                qobs.push(format!("{}{},{},{}", h[0], h[1], g[0], g[1]));
            }
            it = iter_obs(index);
        }
        "repo" => {
            {
                let content = |f: &IndexFile| (serde_json::to_string(&f.packs).ok(), serde_json::to_string(&f.packs_to_delete).ok());
                for (i, f) in files.iter().enumerate() {
                    if files[..i].iter().any(|g| content(f) == content(g)) {
                        return "bad-op".into();
                    }
                }
            }
            let (h, repo) = match RepoHandle::init_nocache(MemBackend::new(), None, &ConfigOptions::default()) {
                Ok(x) => x,
                Err(e) => return errkind(&e),
            };
            {
                let dbe = rustic_core::verif::repository::dbe(&repo);
                let seal = |plain: &[u8]| dbe.key().encrypt_data(plain).map(Bytes::from);
                let mut real_ids: Vec<Option<Id>> = vec![None; files.len()];
                for k in 0..files.len() {
                    // references: chosen id of a planted file, real id of an earlier saved file
                    if let Some(refs) = &sups[k] {
                        let mut v = Vec::new();
                        for r in refs {
                            v.push(match r {
                                SupRef::Id(id) => (*id).into(),
                                SupRef::File(j) if planted[*j] => planted_id(*j).into(),
                                SupRef::File(j) => match real_ids[*j] {
                                    Some(id) => id.into(),
                                    None => return "oracle-fail:harness-unresolved-supersedes-ref".into(),
                                },
                            });
                        }
                        files[k].supersedes = Some(v);
                    }
                    let f = &files[k];
                    let id = if planted[k] {
                        let id = planted_id(k);
                        let json = match serde_json::to_vec(f) {
                            Ok(j) => j,
                            Err(_) => return "oracle-fail:harness-json".into(),
                        };
                        match seal(&json) {
                            Ok(b) => h.be.put_raw(FileType::Index, id, b),
                            Err(e) => return errkind(&e),
                        }
                        id
                    } else {
                        match dbe.save_file(f) {
                            Ok(id) => Id::from(id),
                            Err(e) => return errkind(&e),
                        }
                    };
                    real_ids[k] = Some(id);
                    let Some(fault) = &faults[k] else { continue };
                    let Some(stored) = h.be.get(FileType::Index, &id) else { return "oracle-fail:saved-index-file-not-stored".into() };
                    let replaced = match fault {
                        Fault::Read => {
                            h.be.set_fail_reads_of(FileType::Index, id, true);
                            continue;
                        }
                        Fault::Flip(n) => {
                            let mut v = stored.to_vec();
                            let bit = (*n % (8 * v.len() as u64)) as usize;
                            v[bit / 8] ^= 1 << (bit % 8);
                            Ok(Bytes::from(v))
                        }
                        Fault::Trunc(n) => Ok(stored.slice(0..(*n % stored.len() as u64) as usize)),
                        Fault::Junk => seal(b"this is not a repository file"),
                        Fault::BadZstd => seal(b"\x02certainly no zstd frame"),
                        Fault::NotJson => seal(b"{\"packs\": [ {\"id\": "),
                        Fault::NotIndex => seal(b"[1,2,3]"),
                    };
                    match replaced {
                        // the file keeps its id (a damaged file is still listed under its name)
                        Ok(b) => h.be.put_raw(FileType::Index, id, b),
                        Err(e) => return errkind(&e),
                    }
                }
            }
            drop(repo);
            let repo = match h.open_nocache() {
                Ok(r) => r,
                Err(e) => return errkind(&e),
            };
            macro_rules! observe {
                ($r:expr) => {{
                    let r = $r;
                    let tsz = (
                        rustic_core::verif::repository::index_total_size(&r, types[0]),
                        rustic_core::verif::repository::index_total_size(&r, types[1]),
                    );
                    for q in queries {
                        let hh: Vec<&str> = types
                            .iter()
                            .map(|t| if rustic_core::verif::repository::index_has(&r, *t, q) { "1" } else { "0" })
                            .collect();
                        let mut g = Vec::new();
                        for t in types {
                            match get_obs(&files, t, q, rustic_core::verif::repository::index_get_id(&r, t, q)) {
                                Ok(s) => g.push(s),
                                Err(e) => return e,
                            }
                        }
                        qobs.push(format!("{}{},{},{}", hh[0], hh[1], g[0], g[1]));
                    }
                    tsz
                }};
            }
            // a failed load: the error of ONE of the faulty files (whichever the parallel stream meets first)
            let load_err = |e: &rustic_core::RusticError| -> String {
                let got = errkind(e);
                let mut kinds: Vec<&str> = faults.iter().flatten().map(|f| f.kind()).collect();
                kinds.sort_unstable();
                kinds.dedup();
                if kinds.len() > 1 && kinds.iter().any(|k| got == format!("err:{k}")) {
                    return format!("err:one-of:{}", kinds.join(","));
                }
                got
            };
            macro_rules! observe_checked {
                ($r:expr) => {{
                    let r = $r;
                    let tsz = observe!(&r);
                    let has = |t: BlobType, id: &BlobId| rustic_core::verif::repository::index_has(&r, t, id);
                    if let Some(o) = complete_oracle(&files, mode, &has, tsz) {
                        return o;
                    }
                    tsz
                }};
            }
            ts = match mode {
                "full" => match repo.to_indexed() {
                    Ok(r) => observe_checked!(r),
                    Err(e) => return load_err(&e),
                },
                "ids" => match repo.to_indexed_ids() {
                    Ok(r) => observe_checked!(r),
                    Err(e) => return load_err(&e),
                },
                "dropdata" => match repo.to_indexed() {
                    Ok(r) => observe_checked!(r.drop_data_from_index()),
                    Err(e) => return load_err(&e),
                },
                _ => return "bad-op".into(),
            };
            it = "na".to_string();
        }
        _ => return "bad-op".into(),
    }
    let q = if qobs.is_empty() { "-".to_string() } else { qobs.join(";") };
    format!("ok ts={},{} q={q} it={it}", ts.0, ts.1)
}

pub fn exec(t: &[&str]) -> String {
    let t: Vec<String> = t.iter().map(|s| (*s).to_string()).collect();
    guarded(move || match t.iter().map(String::as_str).collect::<Vec<_>>().as_slice() {
        ["idx", mode, src, files, queries] => {
            let Some(files) = parse_files(files) else { return "bad-op".into() };
            let qs: Option<Vec<BlobId>> =
                if *queries == "-" { Some(vec![]) } else { queries.split(',').map(|q| parse_id(q).map(BlobId::from)).collect() };
            let Some(qs) = qs else { return "bad-op".into() };
            run(mode, src, files, &qs)
        }
        ["psize", size, blobs] => {
            let size = if *size == "-" { None } else { match size.parse::<u32>() { Ok(x) => Some(x), Err(_) => return "bad-op".into() } };
            let bl: Option<Vec<IndexBlob>> = if *blobs == "-" { Some(vec![]) } else { blobs.split('+').map(parse_blob).collect() };
            let Some(bl) = bl else { return "bad-op".into() };
            let p = IndexPack { id: PackId::default(), blobs: bl, time: None, size };
            // the panic of a checked build is this channel's observation (the model has the same case), not a failure of the channel
            let r = guarded(move || p.pack_size().to_string());
            if r == "panic:attempt_to_add_with_overflow" { "ok overflow-panic".into() } else { format!("ok {r}") }
        }
        _ => "bad-op".into(),
    })
}
