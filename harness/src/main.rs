//! `vh` — the Rust side of the correspondence check.
//!   vh gen  <Cxx> <quick|thorough> <seed> <stats.json>   > ops.txt
//!   vh exec                                              < ops.txt > impl.txt
//! Every op line `<channel> <op> <args…>` is self-contained; `exec` prints exactly one observation line
//! per op line.  Property modules are `src/cNN.rs` (`generate`, `exec`); `dispatch.rs` is generated.
mod dispatch;
pub mod repo;
pub mod util;

use std::io::{BufRead, BufWriter, Write};

fn main() {
    std::panic::set_hook(Box::new(|_| {})); // panics are observations, not noise
    let args: Vec<String> = std::env::args().collect();
    let out = std::io::stdout();
    let mut out = BufWriter::new(out.lock());
    match args.get(1).map(String::as_str) {
        Some("gen") => {
            let prop = args[2].as_str();
            let thorough = args[3] == "thorough";
            let seed: u64 = args[4].parse().expect("seed");
            let mut rng = util::Rng::new(seed ^ 0xC0FF_EE00);
            let mut stats = util::Stats::default();
            let mut ops: Vec<String> = Vec::new();
            if !dispatch::generate(prop, thorough, &mut rng, &mut ops, &mut stats) {
                eprintln!("unknown property {prop}");
                std::process::exit(2);
            }
            for l in &ops {
                writeln!(out, "{l}").unwrap();
            }
            if let Some(p) = args.get(5) {
                std::fs::write(p, stats.to_json()).unwrap();
            }
        }
        Some("exec") => {
            let stdin = std::io::stdin();
            for line in stdin.lock().lines() {
                let line = line.unwrap();
                let toks: Vec<&str> = line.trim().split(' ').collect();
                let obs = dispatch::exec(toks.first().copied().unwrap_or(""), &toks[1.min(toks.len())..]);
                writeln!(out, "{obs}").unwrap();
                out.flush().unwrap();
            }
        }
        _ => {
            eprintln!("usage: vh gen <Cxx> <tier> <seed> [stats] | vh exec");
            std::process::exit(2);
        }
    }
}
