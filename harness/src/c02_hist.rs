//! C02 `hist` channel: real histories {backup of an evolving source, concurrent backup pairs (duplicate blobs),
//! tree/data id collision, forget, resurrect, index duplication, prune with random options and injected time}
//! on `MemBackend`, with direct oracles after every step.
//!
//!   c02 hist <seed> <step>;<step>;…
//!     b<k>  backup source version k            c<k>  versions k and k+1 backed up concurrently (stale index)
//!     x<k>  version k plus a file whose bytes are a stored tree blob (tree/data id collision)
//!     f<i>  forget the (i mod live)-th snapshot (kept if it is the only one)      u  bring the last forgotten back
//!     m     store a second copy of an index file (duplicate index entries)
//!     p<keepDelete>,<keepPack>,<FLAGS>,<maxRepack>,<maxUnused>,<dt>   prune at (real now + dt seconds)
use std::collections::{BTreeMap, BTreeSet};

use bytes::Bytes;
use bytesize::ByteSize;
use rustic_core::jiff::{Timestamp, tz::TimeZone};
use rustic_core::repofile::{BlobType, FileType, IndexFile, SnapshotFile};
use rustic_core::verif::prune as hook;
use rustic_core::{BackupOptions, ConfigOptions, Id};

use super::{decode_index_files, parse_opts};
use crate::repo::{self, MemBackend, MemSource, RepoHandle, SrcEntry};
use crate::util::{Rng, Stats, errkind};

pub fn source(seed: u64, k: u64, extra: Option<Vec<u8>>) -> MemSource {
    let mut v = vec![];
    for j in 0..14u64 {
        let mut r = Rng::new(seed ^ (j * 7919) ^ (k * 104_729));
        if r.below(5) == 0 {
            continue; // file absent in this version
        }
        let rev = k / (1 + j % 3);
        let base = if j % 5 == 4 { j - 1 } else { j }; // some files share their content with a sibling
        let mut c = Rng::new(seed.wrapping_mul(31) ^ (base * 1_000_003) ^ rev);
        let len = *c.pick(&[0usize, 1, 100, 700, 1500, 3000, 3000]);
        let content = c.bytes(len);
        let dir = format!("d{}", j % 3);
        let name = format!("f{j}");
        let mut e = SrcEntry::file(&[dir.as_bytes(), name.as_bytes()], &content);
        // content changes are visible in the metadata (the parent-based change detection relies on it)
        e.mtime_s += (rev + 1) as i64 * 10 + (k as i64 % 3);
        e.ctime_s = e.mtime_s;
        v.push(e);
    }
    v.push(SrcEntry::file(&[b"d0", b"sub", b"deep"], &Rng::new(seed ^ 99).bytes(500)));
    if let Some(e) = extra {
        v.push(SrcEntry::file(&[b"d1", b"zz-collide"], &e));
    }
    MemSource::new(v)
}

struct Live {
    snap: SnapshotFile,
    src: MemSource,
}

fn fail(s: &str, step: usize) -> String {
    format!("oracle-fail:{s}@{step}")
}

/// `check` panics with "index still in use" when its worker threads have not shut down 100 ms after the tree walk
/// (`GlobalIndex::into_index`, index.rs) — a load-dependent race of the real code that is unrelated to prune:
/// retry instead of reporting it.
pub fn check_errors_retry(h: &RepoHandle, read_data: bool) -> Option<usize> {
    for _ in 0..20 {
        let h2 = h.clone();
        match std::panic::catch_unwind(std::panic::AssertUnwindSafe(move || repo::check_errors(&h2, read_data))) {
            Ok(r) => return r,
            Err(e) => {
                let msg = e.downcast_ref::<String>().cloned().or_else(|| e.downcast_ref::<&str>().map(|s| (*s).to_string())).unwrap_or_default();
                if !msg.contains("index still in use") {
                    std::panic::resume_unwind(e);
                }
                std::thread::sleep(std::time::Duration::from_millis(50));
            }
        }
    }
    None
}

fn verify(h: &RepoHandle, live: &[Live], step: usize) -> Result<(), String> {
    match check_errors_retry(h, true) {
        Some(0) => {}
        Some(_) => return Err(fail("check-errors", step)),
        None => return Err(fail("check-failed", step)),
    }
    let r = h.open().and_then(|r| r.to_indexed()).map_err(|_| fail("open", step))?;
    for l in live {
        let mut got = repo::read_back(&r, &l.snap).map_err(|_| fail("readback-error", step))?;
        got.retain(|e| e.path != b"src"); // the snapshot root itself is not part of `expected`
        if got != repo::expected(&l.src) {
            if std::env::var("VH_DEBUG").is_ok() {
                let e = repo::expected(&l.src);
                eprintln!("got {} entries, expected {}", got.len(), e.len());
                for (a, b) in got.iter().zip(e.iter()) {
                    if a != b {
                        eprintln!("got  {:?} {} {:?} {:?} {:?} len={:?}", String::from_utf8_lossy(&a.path), a.kind, a.link, a.mode, a.mtime_s, a.content.as_ref().map(Vec::len));
                        eprintln!("want {:?} {} {:?} {:?} {:?} len={:?}", String::from_utf8_lossy(&b.path), b.kind, b.link, b.mode, b.mtime_s, b.content.as_ref().map(Vec::len));
                        break;
                    }
                }
            }
            return Err(fail("readback-differs", step));
        }
    }
    Ok(())
}

fn backup(h: &RepoHandle, src: &MemSource) -> Result<SnapshotFile, String> {
    repo::backup(h, src, &BackupOptions::default(), SnapshotFile::default()).map_err(|e| format!("oracle-fail:backup-{}", errkind(&e)))
}

/// all index files of the repository, decoded
fn all_index(h: &RepoHandle) -> Result<Vec<(Id, IndexFile)>, String> {
    let store = h.be.store();
    let ids = h.be.ids(FileType::Index);
    Ok(decode_index_files(h, &store, &ids)?.into_iter().map(|(i, f)| (*i, f)).collect())
}

fn prune_step(h: &RepoHandle, spec: &str, step: usize) -> Result<(), String> {
    // spec = keepDelete,keepPack,FLAGS,maxRepack,maxUnused,dt
    let v: Vec<&str> = spec.split(',').collect();
    if v.len() != 6 {
        return Err("bad-op".into());
    }
    let dt: i64 = v[5].parse().map_err(|_| "bad-op".to_string())?;
    let po = parse_opts(&format!("0,{},{},{},{},{}", v[1], v[0], v[2], v[3], v[4])).ok_or("bad-op")?;
    let kd: i64 = v[0].parse().map_err(|_| "bad-op".to_string())?;
    let pre_index = all_index(h).map_err(|_| fail("index-undecodable", step))?;
    let repo = h.open().map_err(|_| fail("open", step))?;
    let now = Timestamp::now().as_second() + dt + 1;
    let zoned = Timestamp::from_second(now).unwrap().to_zoned(TimeZone::UTC);
    let rep = hook::plan_at(&repo, &po.opts, zoned).map_err(|e| fail(&format!("plan-{}", errkind(&e)), step))?;
    let plan = if dt == 0 {
        // the unhooked planner must agree with the hooked one (same state, same options, clock within a second)
        let real = repo.prune_plan(&po.opts).map_err(|e| fail(&format!("plan-{}", errkind(&e)), step))?;
        // (index files are streamed in parallel, so with duplicate blobs the two plans may legitimately choose
        // different copies: compare what does not depend on the order of index files)
        let sig = |st: &rustic_core::PruneStats| {
            let t = |m: &rustic_core::verif::prune::SizeStats| (m.used, m.used + m.unused);
            (
                t(&st.blobs[BlobType::Tree]),
                t(&st.blobs[BlobType::Data]),
                st.size[BlobType::Tree].used + st.size[BlobType::Tree].unused,
                st.size[BlobType::Data].used + st.size[BlobType::Data].unused,
                st.index_files,
                st.packs_unref,
                st.packs.used + st.packs.partly_used + st.packs.unused,
            )
        };
        if sig(&real.stats) != sig(&rep.plan.stats) {
            return Err(fail("hook-plan-differs-from-prune_plan", step));
        }
        real
    } else {
        rep.plan
    };
    h.be.clear_log();
    repo.prune(&po.opts, plan).map_err(|e| fail(&format!("prune-{}", errkind(&e)), step))?;
    let log = h.be.log();
    // a non-instant prune removes a pack only if it was marked at least keep-delete ago
    if !po.instant {
        let mut marked: BTreeMap<Id, Option<i64>> = BTreeMap::new();
        let mut unmarked: BTreeSet<Id> = BTreeSet::new();
        for (_, f) in &pre_index {
            for p in &f.packs_to_delete {
                _ = marked.insert(*p.id, p.time.map(|t| t.as_second()));
            }
            for p in &f.packs {
                _ = unmarked.insert(*p.id);
            }
        }
        for o in log.iter().filter(|o| !o.write && o.tpe == FileType::Pack) {
            match marked.get(&o.id) {
                Some(Some(t)) if t + kd <= now && !unmarked.contains(&o.id) => {}
                _ => return Err(fail("pack-removed-before-keep-delete", step)),
            }
        }
    }
    // phase order: writes, then index removals, then pack removals (early-delete-index is not generated here)
    let last_write = log.iter().rposition(|o| o.write);
    let first_rm_idx = log.iter().position(|o| !o.write && o.tpe == FileType::Index);
    let last_rm_idx = log.iter().rposition(|o| !o.write && o.tpe == FileType::Index);
    let first_rm_pack = log.iter().position(|o| !o.write && o.tpe == FileType::Pack);
    if let (Some(w), Some(r)) = (last_write, first_rm_idx) {
        if r < w {
            return Err(fail("order-index-removed-before-writes-done", step));
        }
    }
    if let (Some(a), Some(b)) = (last_rm_idx.or(last_write), first_rm_pack) {
        if b < a && !po.instant {
            return Err(fail("order-pack-removed-early", step));
        }
    }
    Ok(())
}

pub fn exec_hist(t: &[&str]) -> String {
    let Ok(seed) = t[0].parse::<u64>() else { return "bad-op".into() };
    let steps: Vec<&str> = t[1].split(';').collect();
    let cfg = ConfigOptions::default()
        .set_datapack_size(ByteSize(*Rng::new(seed).pick(&[3000u64, 6000, 20_000])))
        .set_treepack_size(ByteSize(*Rng::new(seed ^ 5).pick(&[1500u64, 4000])))
        .set_compression(if seed % 3 == 0 { 0 } else { 3 });
    let Ok((h, _)) = RepoHandle::init(MemBackend::new(), None, &cfg) else { return "oracle-fail:init".into() };
    let mut live: Vec<Live> = vec![];
    let mut forgotten: Vec<(Live, Bytes)> = vec![];
    for (si, st) in steps.iter().enumerate() {
        if st.is_empty() {
            return "bad-op".into();
        }
        let (c, arg) = st.split_at(1);
        let r: Result<(), String> = (|| match c {
            "b" | "x" => {
                let k: u64 = arg.parse().map_err(|_| "bad-op".to_string())?;
                let extra = if c == "x" {
                    // bytes of a stored tree blob: the sub-tree of d0 of the latest snapshot
                    match live.last() {
                        Some(l) => {
                            let r = h.open().and_then(|r| r.to_indexed()).map_err(|_| fail("open", si))?;
                            let node = r.node_from_snapshot_path(&format!("{}:src/d0", l.snap.id), |_| true).map_err(|_| fail("node", si))?;
                            let tid = node.subtree.ok_or_else(|| fail("no-subtree", si))?;
                            let data = r.get_blob_cached(&tid.into(), BlobType::Tree).map_err(|_| fail("get-tree-blob", si))?;
                            Some(data.to_vec())
                        }
                        None => None,
                    }
                } else {
                    None
                };
                let src = source(seed, k, extra);
                let snap = backup(&h, &src)?;
                live.push(Live { snap, src });
                Ok(())
            }
            "c" => {
                let k: u64 = arg.parse().map_err(|_| "bad-op".to_string())?;
                // two backups that both start from the current state: run each on a copy, then merge the stores
                let base = h.be.store();
                let mut merged = base.clone();
                for kk in [k, k + 1] {
                    let h2 = RepoHandle { be: MemBackend::from_store(base.clone()), hot: None, key: h.key.clone() };
                    let src = source(seed, kk, None);
                    let snap = backup(&h2, &src)?;
                    for (key, val) in h2.be.store() {
                        _ = merged.insert(key, val);
                    }
                    live.push(Live { snap, src });
                }
                h.be.set_store(merged);
                Ok(())
            }
            "f" => {
                let i: usize = arg.parse().map_err(|_| "bad-op".to_string())?;
                if live.len() > 1 {
                    let l = live.remove(i % live.len());
                    let raw = h.be.get(FileType::Snapshot, &l.snap.id).ok_or_else(|| fail("snapshot-file-missing", si))?;
                    let repo = h.open().map_err(|_| fail("open", si))?;
                    repo.delete_snapshots(&[l.snap.id]).map_err(|_| fail("forget", si))?;
                    forgotten.push((l, raw));
                }
                Ok(())
            }
            "u" => {
                if let Some((l, raw)) = forgotten.pop() {
                    h.be.put_raw(FileType::Snapshot, *l.snap.id, raw);
                    live.push(l);
                }
                Ok(())
            }
            "m" => {
                let mut files = all_index(&h).map_err(|_| fail("index-undecodable", si))?;
                files.sort_by_key(|(id, _)| *id);
                if let Some((id, mut f)) = files.into_iter().next() {
                    f.supersedes = Some(vec![id.into()]);
                    let repo = h.open().map_err(|_| fail("open", si))?;
                    _ = rustic_core::verif::repository::save_file(&repo, &f).map_err(|_| fail("save-index", si))?;
                }
                Ok(())
            }
            "p" => prune_step(&h, arg, si),
            _ => Err("bad-op".into()),
        })();
        if let Err(e) = r {
            return e;
        }
        // after `u` the repository is only *recoverable* until the next prune; everything else must verify
        let pending_recover = c == "u";
        if !pending_recover {
            if let Err(e) = verify(&h, &live, si) {
                return e;
            }
        }
    }
    format!("ok snaps={}", live.len())
}

fn gen_prune(rng: &mut Rng, dt: i64, allow_instant: bool) -> (String, bool, i64) {
    let kd = *rng.pick(&[0i64, 3600, 82_800]);
    let kp = *rng.pick(&[0i64, 0, 0, 3600]);
    let instant = allow_instant && rng.chance(1, 5);
    let unc = rng.chance(1, 8);
    let fast = !unc && rng.chance(1, 2);
    let flags = [rng.chance(1, 6), unc, rng.chance(1, 5), rng.chance(1, 4), instant, false, fast];
    let fl: String = flags.iter().map(|b| if *b { '1' } else { '0' }).collect();
    let mr = *rng.pick(&["u", "u", "p10", "p50", "s100000000", "s2000"]);
    let mu = *rng.pick(&["u", "p0", "p5", "p5", "p50", "s0", "s500"]);
    (format!("p{kd},{kp},{fl},{mr},{mu},{dt}"), instant, kd)
}

pub fn gen_hist(rng: &mut Rng, stats: &mut Stats, thorough: bool) -> String {
    let seed = rng.below(1_000_000);
    let len = 3 + rng.below(if thorough { 12 } else { 7 });
    let mut steps = vec!["b0".to_string()];
    let mut k = 0u64;
    let mut dt = 0i64;
    let mut n_live = 1u32;
    for _ in 0..len {
        match rng.below(20) {
            0..=5 => {
                k += 1;
                steps.push(format!("b{k}"));
                n_live += 1;
                stats.hit("hist.backup");
            }
            6..=7 => {
                k += 2;
                steps.push(format!("c{}", k - 1));
                n_live += 2;
                stats.hit("hist.concurrent-pair");
            }
            8 => {
                k += 1;
                steps.push(format!("x{k}"));
                n_live += 1;
                stats.hit("hist.id-collision");
            }
            9..=12 => {
                if n_live > 1 {
                    steps.push(format!("f{}", rng.below(8)));
                    n_live -= 1;
                    stats.hit("hist.forget");
                    // usually prune right after
                    if rng.chance(3, 4) {
                        dt += *rng.pick(&[0i64, 0, 3600, 90_000]);
                        let (p, instant, kd) = gen_prune(rng, dt, true);
                        steps.push(p);
                        stats.hit("hist.prune");
                        // `u` is only legal while nothing of the forgotten snapshot can have been deleted:
                        if !(instant || kd == 0) && rng.chance(1, 2) {
                            // kd > 0 and marks are fresh: the snapshot can come back and the next prune must recover
                            steps.push("u".into());
                            n_live += 1;
                            stats.hit("hist.resurrect");
                            let (p, _, _) = gen_prune(rng, dt, false);
                            steps.push(p);
                            stats.hit("hist.prune");
                        }
                    }
                }
            }
            13 => {
                steps.push("m".into());
                stats.hit("hist.dup-index");
            }
            _ => {
                dt += *rng.pick(&[0i64, 0, 3600, 90_000]);
                let (p, _, _) = gen_prune(rng, dt, true);
                steps.push(p);
                stats.hit("hist.prune");
            }
        }
    }
    format!("c02 hist {seed} {}", steps.join(";"))
}
