//! C02 `hist` channel (stub, replaced below)
use crate::util::{Rng, Stats};
pub fn gen_hist(_rng: &mut Rng, _stats: &mut Stats, _thorough: bool) -> String {
    "c02 hist 1 b0".into()
}
pub fn exec_hist(_t: &[&str]) -> String {
    "ok snaps=1".into()
}
