//! C02 `hist` channel: real histories {backup of an evolving source, concurrent backup pairs (duplicate blobs),
//! tree/data id collision, forget, resurrect, index duplication, prune with random options and injected time}
//! on `MemBackend`, with direct oracles after every step.
//!
//!   c02 hist <seed> <step>;<step>;…
//!     b<k>  backup source version k            c<k>  versions k and k+1 backed up concurrently (stale index)
//!     x<k>  version k plus a file whose bytes are a stored tree blob (tree/data id collision)
//!     f<i>  forget the (i mod live)-th snapshot (kept if it is the only one)      u  bring the last forgotten back
//!     m     store a second copy of an index file (duplicate index entries)
//!     p<keepDelete>,<keepPack>,<FLAGS>,<maxRepack>,<maxUnused>,<dt>   prune at (real now + dt seconds, injected)
//!     s     a second handle reads the repository now (its index goes stale)
//!     a<k>  the second handle finishes a backup of version k: de-duplicated against the stale index, its new files
//!           (packs, index, snapshot) arrive now — the backup overlapped every prune since `s`
//!     h<k>  a backup of version k starts now and uploads its PACK files; its index file(s) and its snapshot are not written yet
//!           (a prune that plans now sees these packs as unreferenced and — unless instant-delete — only marks them)
//!     e     that backup finishes: its index file(s) and snapshot arrive; from now on the packs are indexed and in use, and no
//!           later prune may delete them, however long ago they were marked (an `h` without `e` is an interrupted backup)
//!     q<prune spec>  (Q<prune spec>: every k also for long runs)  FAULT SWEEP of that prune, on copies of the store: for every (sampled) k the k-th storage operation of the
//!           run (write of a repacked tree / data pack — in particular the LAST data pack, which is only written by
//!           `finalize` —, the index write, an index / pack removal) fails once (`fail_only`): prune must return Err, afterwards
//!           check(read_data) is clean and every snapshot reads back, and a fault-free retry succeeds and is clean again; then
//!           the prune runs fault-free on the history's own store (like `p`)
//!     z<prune spec>/<i>  that prune, interrupted: the removal of the old index file(s) listing the root tree of live snapshot i
//!           fails (must be reported as Err) while the removals of the other old index files — they run in parallel — all
//!           take effect; the history goes on from that state (rebuilt index + surviving old index file = duplicate entries)
//!     o<m>  from now on prune's index files are listed and served smallest first (1) / largest first (2) / uncontrolled (0)
//!     g<c>  (first step only) the repository uses the fixed-size chunker with c-byte chunks
//!     l<k>,<n>  backup of source version k plus a file of n distinct 8-byte records (index files with >= MIN_INDEX_LEN blobs)
//! After `u` / `a` the repository is only *recoverable* (blobs may live in packs marked for deletion) until the next prune.
//! The harness keeps its own record of WHEN each pack was marked (the injected time of the marking prune): a
//! non-instant prune may remove a pack only if that record is at least keep-delete old.
use std::collections::{BTreeMap, BTreeSet};

use bytes::Bytes;
use bytesize::ByteSize;
use rustic_core::jiff::{Timestamp, tz::TimeZone};
use rustic_core::repofile::{BlobType, Chunker, FileType, IndexFile, SnapshotFile};
use rustic_core::verif::prune as hook;
use rustic_core::{BackupOptions, ConfigOptions, Id};

use super::{decode_index_files, parse_opts};
use crate::repo::{self, MemBackend, MemSource, RepoHandle, SrcEntry};
use crate::util::{Rng, Stats, errkind};

pub fn source(seed: u64, k: u64, extra: Option<Vec<u8>>) -> MemSource {
    let mut v = vec![];
    for j in 0..14u64 {
        let mut r = Rng::new(seed ^ (j * 7919) ^ (k * 104_729));
        if r.below(5) == 0 {
            continue; // file absent in this version
        }
        let rev = k / (1 + j % 3);
        let base = if j % 5 == 4 { j - 1 } else { j }; // some files share their content with a sibling
        let mut c = Rng::new(seed.wrapping_mul(31) ^ (base * 1_000_003) ^ rev);
        let len = *c.pick(&[0usize, 1, 100, 700, 1500, 3000, 3000]);
        let content = c.bytes(len);
        let dir = format!("d{}", j % 3);
        let name = format!("f{j}");
        let mut e = SrcEntry::file(&[dir.as_bytes(), name.as_bytes()], &content);
        // content changes are visible in the metadata (the parent-based change detection relies on it)
        e.mtime_s += (rev + 1) as i64 * 10 + (k as i64 % 3);
        e.ctime_s = e.mtime_s;
        v.push(e);
    }
    v.push(SrcEntry::file(&[b"d0", b"sub", b"deep"], &Rng::new(seed ^ 99).bytes(500)));
    if let Some(e) = extra {
        v.push(SrcEntry::file(&[b"d1", b"zz-collide"], &e));
    }
    MemSource::new(v)
}

/// `source(seed, k, None)` plus one file of `n` distinct 8-byte records (distinct per version as well)
pub fn large_source(seed: u64, k: u64, n: u64) -> MemSource {
    let mut v = source(seed, k, None).entries;
    let base = seed.wrapping_mul(0x9e37_79b9_7f4a_7c15) ^ (k << 40);
    let mut data = Vec::with_capacity(n as usize * 8);
    for i in 0..n {
        data.extend_from_slice(&base.wrapping_add(i).to_le_bytes());
    }
    let mut e = SrcEntry::file(&[b"d1", b"large"], &data);
    e.mtime_s += 10 * (k as i64 + 1);
    e.ctime_s = e.mtime_s;
    v.push(e);
    MemSource::new(v)
}

struct Live {
    snap: SnapshotFile,
    src: MemSource,
}

fn fail(s: &str, step: usize) -> String {
    format!("oracle-fail:{s}@{step}")
}

/// `check` panics with "index still in use" when its worker threads have not shut down 100 ms after the tree walk
/// (`GlobalIndex::into_index`, index.rs) — a load-dependent race of the real code that is unrelated to prune:
/// retry instead of reporting it.
pub fn check_errors_retry(h: &RepoHandle, read_data: bool) -> Option<usize> {
    for _ in 0..20 {
        let h2 = h.clone();
        match std::panic::catch_unwind(std::panic::AssertUnwindSafe(move || repo::check_errors(&h2, read_data))) {
            Ok(r) => return r,
            Err(e) => {
                let msg = e.downcast_ref::<String>().cloned().or_else(|| e.downcast_ref::<&str>().map(|s| (*s).to_string())).unwrap_or_default();
                if !msg.contains("index still in use") {
                    std::panic::resume_unwind(e);
                }
                std::thread::sleep(std::time::Duration::from_millis(50));
            }
        }
    }
    None
}

fn verify(h: &RepoHandle, live: &[Live], step: usize) -> Result<(), String> {
    match check_errors_retry(h, true) {
        Some(0) => {}
        Some(_) => {
            if std::env::var("VH_DEBUG").is_ok() {
                eprintln!("check errors at step {step}: {:?}", repo::check_error_kinds(h, true));
                if let Ok(files) = all_index(h) {
                    for (id, f) in files {
                        eprintln!("index {id:?}: packs {:?} marked {:?}", f.packs.iter().map(|p| (p.id, p.blobs.len())).collect::<Vec<_>>(), f.packs_to_delete.iter().map(|p| (p.id, p.blobs.len(), p.time.map(|t| t.as_second()))).collect::<Vec<_>>());
                    }
                }
                eprintln!("packs stored: {:?}", h.be.ids(FileType::Pack));
            }
            return Err(fail("check-errors", step));
        }
        None => return Err(fail("check-failed", step)),
    }
    let r = h.open().and_then(|r| r.to_indexed()).map_err(|_| fail("open", step))?;
    for l in live {
        let mut got = repo::read_back(&r, &l.snap).map_err(|_| fail("readback-error", step))?;
        got.retain(|e| e.path != b"src"); // the snapshot root itself is not part of `expected`
        if got != repo::expected(&l.src) {
            if std::env::var("VH_DEBUG").is_ok() {
                let e = repo::expected(&l.src);
                eprintln!("got {} entries, expected {}", got.len(), e.len());
                for (a, b) in got.iter().zip(e.iter()) {
                    if a != b {
                        eprintln!("got  {:?} {} {:?} {:?} {:?} len={:?}", String::from_utf8_lossy(&a.path), a.kind, a.link, a.mode, a.mtime_s, a.content.as_ref().map(Vec::len));
                        eprintln!("want {:?} {} {:?} {:?} {:?} len={:?}", String::from_utf8_lossy(&b.path), b.kind, b.link, b.mode, b.mtime_s, b.content.as_ref().map(Vec::len));
                        break;
                    }
                }
            }
            return Err(fail("readback-differs", step));
        }
    }
    Ok(())
}

/// The size a file node RECORDS (`meta.size`) is the size `stat` reported when the node was created, not the length of the
/// content the archiver stores: `backup -` / `--stdin-command` nodes record 0 (`Metadata::default()`), `/proc`-like files report
/// 0 and deliver data, a file that is written while it is backed up records a smaller or a larger size.  Every history has such
/// nodes: decided by the first content byte (so the same content records the same size in every version — the parent-based change
/// detection compares the recorded size): 2/6 record 0 (stdin style), 1/6 half the length, 1/6 more than the length, 2/6 the
/// real length.  What must be kept by prune and what reads back is the CONTENT, whatever the node records.
pub fn recorded_size(content: &[u8]) -> Option<u64> {
    let len = content.len() as u64;
    match content.first()? % 6 {
        0 | 1 => Some(0),
        2 => Some(len / 2),
        3 => Some(len + 1 + len / 3),
        _ => None,
    }
}

/// `MemSource` whose file nodes record `recorded_size` of their content
struct RecSizeSource(MemSource);
impl rustic_core::ReadSource for RecSizeSource {
    type Open = std::io::Cursor<Vec<u8>>;
    type Iter = std::vec::IntoIter<rustic_core::RusticResult<rustic_core::ReadSourceEntry<Self::Open>>>;
    fn size(&self) -> rustic_core::RusticResult<Option<u64>> {
        Ok(None)
    }
    fn entries(&self) -> Self::Iter {
        // the root first, then the entries of the source in their order
        let mut v: Vec<_> = rustic_core::ReadSource::entries(&self.0).collect();
        for (item, e) in v.iter_mut().skip(1).zip(&self.0.entries) {
            if let (Ok(item), repo::SrcKind::File(c)) = (item, &e.kind) {
                if let Some(sz) = recorded_size(c) {
                    item.node.meta.size = sz;
                }
            }
        }
        v.into_iter()
    }
}

fn backup(h: &RepoHandle, src: &MemSource) -> Result<SnapshotFile, String> {
    let run = || {
        let repo = h.open()?.to_indexed_ids()?;
        repo.archive(&BackupOptions::default(), &RecSizeSource(src.clone()), SnapshotFile::default(), &[std::path::PathBuf::from(repo::SRC_ROOT)])
    };
    run().map_err(|e| format!("oracle-fail:backup-{}", errkind(&e)))
}

/// all index files of the repository, decoded
fn all_index(h: &RepoHandle) -> Result<Vec<(Id, IndexFile)>, String> {
    let store = h.be.store();
    let ids = h.be.ids(FileType::Index);
    Ok(decode_index_files(h, &store, &ids)?.into_iter().map(|(i, f)| (*i, f)).collect())
}

/// fault injected into one prune run
#[derive(Clone, Debug)]
enum Fault {
    None,
    /// the k-th storage operation (write or removal) of the run fails once
    Kth(usize),
    /// the removal of these index files fails
    RemoveIndex(Vec<Id>),
}

/// what one (possibly faulty) prune run did
struct Ran {
    /// `prune` returned Ok
    ok: bool,
    /// the storage operation that was made to fail, if the run reached it
    failed: Option<repo::LogOp>,
    /// number of storage operations of the run
    n: usize,
    /// position of the last pack write that is not cacheable (= data pack) / of the first index write
    last_data_pack_write: Option<usize>,
    /// the index files the plan rebuilds (= removes after writing the new index)
    rebuild: Vec<Id>,
}

fn op_kind(o: &repo::LogOp) -> &'static str {
    match (o.write, o.tpe, o.cacheable) {
        (true, FileType::Pack, false) => "data-pack-write",
        (true, FileType::Pack, true) => "tree-pack-write",
        (true, FileType::Index, _) => "index-write",
        (false, FileType::Index, _) => "index-remove",
        (false, FileType::Pack, _) => "pack-remove",
        _ => "other-op",
    }
}

/// One prune run (plan with injected time + execution) with the oracles on what it did to the store; with a fault the run may
/// fail — everything it did until then is held against the same oracles.
fn prune_run(h: &RepoHandle, spec: &str, step: usize, marked_at: &mut BTreeMap<Id, i64>, fault: &Fault, order: u8) -> Result<Ran, String> {
    // spec = keepDelete,keepPack,FLAGS,maxRepack,maxUnused,dt
    let v: Vec<&str> = spec.split(',').collect();
    if v.len() != 6 {
        return Err("bad-op".into());
    }
    let dt: i64 = v[5].parse().map_err(|_| "bad-op".to_string())?;
    let po = parse_opts(&format!("0,{},{},{},{},{}", v[1], v[0], v[2], v[3], v[4])).ok_or("bad-op")?;
    let kd: i64 = v[0].parse().map_err(|_| "bad-op".to_string())?;
    let pre_index = all_index(h).map_err(|_| fail("index-undecodable", step))?;
    let repo = h.open().map_err(|_| fail("open", step))?;
    if order != 0 {
        // the order in which the index files arrive at the planner: by size
        let mut ids: Vec<(usize, Id)> = h.be.ids(FileType::Index).into_iter().map(|id| (h.be.get(FileType::Index, &id).map_or(0, |b| b.len()), id)).collect();
        ids.sort();
        if order == 2 {
            ids.reverse();
        }
        h.be.set_serve_order(FileType::Index, &ids.iter().map(|x| x.1).collect::<Vec<_>>(), 100);
    }
    let now = Timestamp::now().as_second() + dt + 1;
    let zoned = Timestamp::from_second(now).unwrap().to_zoned(TimeZone::UTC);
    let rep = hook::plan_at(&repo, &po.opts, zoned);
    h.be.set_serve_order(FileType::Index, &[], 0);
    let rep = rep.map_err(|e| fail(&format!("plan-{}", errkind(&e)), step))?;
    if dt == 0 {
        // the unhooked planner must agree with the hooked one (same state, same options, clock within a second)
        let real = repo.prune_plan(&po.opts).map_err(|e| fail(&format!("plan-{}", errkind(&e)), step))?;
        // (index files are streamed in parallel, so with duplicate blobs the two plans may legitimately choose
        // different copies: compare what does not depend on the order of index files)
        let sig = |st: &rustic_core::PruneStats| {
            let t = |m: &rustic_core::verif::prune::SizeStats| (m.used, m.used + m.unused);
            (
                t(&st.blobs[BlobType::Tree]),
                t(&st.blobs[BlobType::Data]),
                st.size[BlobType::Tree].used + st.size[BlobType::Tree].unused,
                st.size[BlobType::Data].used + st.size[BlobType::Data].unused,
                st.index_files,
                st.packs_unref,
                st.packs.used + st.packs.partly_used + st.packs.unused,
            )
        };
        if sig(&real.stats) != sig(&rep.plan.stats) {
            return Err(fail("hook-plan-differs-from-prune_plan", step));
        }
    }
    // the plan with the injected time is the one that is executed: every time the run writes is `now`
    let rebuild: Vec<Id> = rep.rebuild.iter().map(|i| **i).collect();
    let plan = rep.plan;
    h.be.clear_log();
    match fault {
        Fault::None => {}
        Fault::Kth(k) => h.be.set_fail_only(Some(*k)),
        Fault::RemoveIndex(ids) => ids.iter().for_each(|id| h.be.set_fail_removes_of(FileType::Index, *id, true)),
    }
    let res = repo.prune(&po.opts, plan);
    h.be.set_fail_only(None);
    if let Fault::RemoveIndex(ids) = fault {
        ids.iter().for_each(|id| h.be.set_fail_removes_of(FileType::Index, *id, false));
    }
    let full_log = h.be.log();
    let failed = full_log.iter().find(|o| !o.applied).cloned();
    if let Err(e) = &res {
        if failed.is_none() {
            return Err(fail(&format!("prune-{}", errkind(e)), step));
        }
    }
    let ran = Ran {
        ok: res.is_ok(),
        failed,
        n: full_log.len(),
        last_data_pack_write: full_log.iter().rposition(|o| o.write && o.tpe == FileType::Pack && !o.cacheable),
        rebuild,
    };
    // the oracles below look at what was really done to the store
    let log: Vec<repo::LogOp> = full_log.into_iter().filter(|o| o.applied).collect();
    // a non-instant prune removes a pack only if it was marked at least keep-delete ago — by the harness' own record
    // of the time of the prune that marked it (and the time stored in the index must say the same)
    let mut unmarked: BTreeSet<Id> = BTreeSet::new();
    let mut marked: BTreeMap<Id, Option<i64>> = BTreeMap::new();
    for (_, f) in &pre_index {
        for p in &f.packs_to_delete {
            _ = marked.insert(*p.id, p.time.map(|t| t.as_second()));
        }
        for p in &f.packs {
            _ = unmarked.insert(*p.id);
        }
    }
    if !po.instant {
        for o in log.iter().filter(|o| !o.write && o.tpe == FileType::Pack) {
            match (marked_at.get(&o.id), marked.get(&o.id)) {
                (Some(t), Some(_)) if t + kd <= now && !unmarked.contains(&o.id) => {}
                _ => return Err(fail("pack-removed-before-keep-delete", step)),
            }
        }
    }
    // update the record: packs that are marked now and were not before got marked by this run
    let post_index = all_index(h).map_err(|_| fail("index-undecodable", step))?;
    let mut post_marked: BTreeSet<Id> = BTreeSet::new();
    let mut post_unmarked: BTreeSet<Id> = BTreeSet::new();
    for (_, f) in &post_index {
        post_marked.extend(f.packs_to_delete.iter().map(|p| *p.id));
        post_unmarked.extend(f.packs.iter().map(|p| *p.id));
    }
    marked_at.retain(|id, _| post_marked.contains(id) && !post_unmarked.contains(id));
    for id in &post_marked {
        if !post_unmarked.contains(id) {
            _ = marked_at.entry(*id).or_insert(now);
        }
    }
    // phase order: writes, then index removals, then pack removals (early-delete-index is not generated here)
    let last_write = log.iter().rposition(|o| o.write);
    let first_rm_idx = log.iter().position(|o| !o.write && o.tpe == FileType::Index);
    let last_rm_idx = log.iter().rposition(|o| !o.write && o.tpe == FileType::Index);
    let first_rm_pack = log.iter().position(|o| !o.write && o.tpe == FileType::Pack);
    if let (Some(w), Some(r)) = (last_write, first_rm_idx) {
        if r < w {
            return Err(fail("order-index-removed-before-writes-done", step));
        }
    }
    if let (Some(a), Some(b)) = (last_rm_idx.or(last_write), first_rm_pack) {
        if b < a && !po.instant {
            return Err(fail("order-pack-removed-early", step));
        }
    }
    Ok(ran)
}

/// which operations of a prune run with `n` storage operations get a fault: all of them for short runs, else every write
/// position class (first operations, around the last data pack write, the index write that follows it) and a sample
fn fault_ks(n: usize, last_data: Option<usize>, seed: u64, thorough: bool) -> Vec<usize> {
    if n <= 12 || (thorough && n <= 40) {
        return (0..n).collect();
    }
    let mut v: BTreeSet<usize> = [0, 1, n / 2, n - 2, n - 1].into_iter().collect();
    if let Some(d) = last_data {
        v.extend([d.saturating_sub(1), d, d + 1, d + 2].into_iter().filter(|k| *k < n));
    }
    let mut r = Rng::new(seed ^ 0xc02);
    for _ in 0..3 {
        _ = v.insert(r.below(n as u64) as usize);
    }
    v.into_iter().collect()
}

fn copy_of(h: &RepoHandle) -> RepoHandle {
    RepoHandle { be: MemBackend::from_store(h.be.store()), hot: None, key: h.key.clone() }
}

fn retag(e: String, tag: &str) -> String {
    e.replacen("oracle-fail:", &format!("oracle-fail:{tag}:"), 1)
}

/// `q`: the fault sweep of one prune (see the module comment); everything happens on copies of the store
#[allow(clippy::too_many_arguments)]
fn fault_sweep(h: &RepoHandle, spec: &str, step: usize, marked_at: &BTreeMap<Id, i64>, live: &[Live], pending: bool, seed: u64, order: u8, thorough: bool) -> Result<(), String> {
    let hc = copy_of(h);
    let mut m = marked_at.clone();
    let full = prune_run(&hc, spec, step, &mut m, &Fault::None, order)?;
    for k in fault_ks(full.n, full.last_data_pack_write, seed ^ step as u64, thorough) {
        let hc = copy_of(h);
        let mut m = marked_at.clone();
        let ran = prune_run(&hc, spec, step, &mut m, &Fault::Kth(k), order).map_err(|e| retag(e, "faulty-prune"))?;
        let Some(op) = &ran.failed else { continue };
        let what = op_kind(op);
        // A failed run can leave worker threads behind that still write for a moment (when one repacker fails the other one is
        // dropped, not joined): everything below works on a copy of the store as it is now, so that such a late write (always an
        // unreferenced pack) cannot land in the middle of the retry.
        let hc = copy_of(&hc);
        if std::env::var("VH_DEBUG").is_ok() {
            eprintln!("step {step}: fault at {k}/{} ({what}) -> prune {}", full.n, if ran.ok { "Ok" } else { "Err" });
        }
        // the state a failed prune leaves behind: nothing a snapshot needs is lost, check is clean
        let state = if pending { Ok(()) } else { verify(&hc, live, step) };
        if ran.ok {
            // the failure was swallowed
            let lost = if state.is_err() { "-and-data-lost" } else { "" };
            return Err(fail(&format!("prune-ok-despite-failed-{what}{lost}"), step));
        }
        state.map_err(|e| retag(e, &format!("after-failed-{what}")))?;
        // the retry without fault works and leaves a clean repository
        let again = prune_run(&hc, spec, step, &mut m, &Fault::None, order).map_err(|e| retag(e, &format!("retry-after-failed-{what}")))?;
        debug_assert!(again.ok);
        verify(&hc, live, step).map_err(|e| retag(e, &format!("retry-after-failed-{what}")))?;
    }
    Ok(())
}

pub fn exec_hist(t: &[&str]) -> String {
    let Ok(seed) = t[0].parse::<u64>() else { return "bad-op".into() };
    let steps: Vec<&str> = t[1].split(';').collect();
    let mut cfg = ConfigOptions::default()
        .set_datapack_size(ByteSize(*Rng::new(seed).pick(&[3000u64, 6000, 20_000])))
        .set_treepack_size(ByteSize(*Rng::new(seed ^ 5).pick(&[1500u64, 4000])))
        .set_compression(if seed % 3 == 0 { 0 } else { 3 });
    if let Some(c) = steps[0].strip_prefix('g') {
        // fixed-size chunker with tiny chunks: many blobs per byte of source (pack sizes as they come out of the default sizer
        // or moderately small, so that the number of packs stays reasonable)
        let Ok(c) = c.parse::<u64>() else { return "bad-op".into() };
        if c == 0 {
            return "bad-op".into();
        }
        cfg = cfg
            .set_chunker(Chunker::FixedSize)
            .set_chunk_size(ByteSize(c))
            .set_datapack_size(ByteSize(*Rng::new(seed).pick(&[20_000u64, 60_000, 200_000])))
            .set_treepack_size(ByteSize(*Rng::new(seed ^ 5).pick(&[4000u64, 100_000])));
    }
    let Ok((h, _)) = RepoHandle::init(MemBackend::new(), None, &cfg) else { return "oracle-fail:init".into() };
    // serving order of index files during prune planning (step `o`)
    let mut order = 0u8;
    let mut live: Vec<Live> = vec![];
    let mut forgotten: Vec<(Live, Bytes)> = vec![];
    let mut stale: Option<repo::Store> = None;
    let mut pending = false;
    let mut marked_at: BTreeMap<Id, i64> = BTreeMap::new();
    // files of a half-done backup that are still to be written (index, snapshot), and the snapshot it will become
    let mut held: Option<(Vec<((u8, Id), Bytes)>, Live)> = None;
    for (si, st) in steps.iter().enumerate() {
        if st.is_empty() {
            return "bad-op".into();
        }
        let (c, arg) = st.split_at(1);
        let r: Result<(), String> = (|| match c {
            "b" | "x" => {
                let k: u64 = arg.parse().map_err(|_| "bad-op".to_string())?;
                let extra = if c == "x" {
                    // bytes of a stored tree blob: the sub-tree of d0 of the latest snapshot
                    match live.last() {
                        Some(l) => {
                            let r = h.open().and_then(|r| r.to_indexed()).map_err(|_| fail("open", si))?;
                            let node = r.node_from_snapshot_path(&format!("{}:src/d0", l.snap.id), |_| true).map_err(|_| fail("node", si))?;
                            let tid = node.subtree.ok_or_else(|| fail("no-subtree", si))?;
                            let data = r.get_blob_cached(&tid.into(), BlobType::Tree).map_err(|_| fail("get-tree-blob", si))?;
                            Some(data.to_vec())
                        }
                        None => None,
                    }
                } else {
                    None
                };
                let src = source(seed, k, extra);
                let snap = backup(&h, &src)?;
                live.push(Live { snap, src });
                Ok(())
            }
            "c" => {
                let k: u64 = arg.parse().map_err(|_| "bad-op".to_string())?;
                // two backups that both start from the current state: run each on a copy, then merge the stores
                let base = h.be.store();
                let mut merged = base.clone();
                for kk in [k, k + 1] {
                    let h2 = RepoHandle { be: MemBackend::from_store(base.clone()), hot: None, key: h.key.clone() };
                    let src = source(seed, kk, None);
                    let snap = backup(&h2, &src)?;
                    for (key, val) in h2.be.store() {
                        _ = merged.insert(key, val);
                    }
                    live.push(Live { snap, src });
                }
                h.be.set_store(merged);
                Ok(())
            }
            "f" => {
                let i: usize = arg.parse().map_err(|_| "bad-op".to_string())?;
                if live.len() > 1 {
                    let l = live.remove(i % live.len());
                    let raw = h.be.get(FileType::Snapshot, &l.snap.id).ok_or_else(|| fail("snapshot-file-missing", si))?;
                    let repo = h.open().map_err(|_| fail("open", si))?;
                    repo.delete_snapshots(&[l.snap.id]).map_err(|_| fail("forget", si))?;
                    forgotten.push((l, raw));
                }
                Ok(())
            }
            // forget the i-th live snapshot even when it is the last one (a prune that follows keeps no pack at all)
            "F" => {
                let i: usize = arg.parse().map_err(|_| "bad-op".to_string())?;
                if !live.is_empty() {
                    let l = live.remove(i % live.len());
                    let raw = h.be.get(FileType::Snapshot, &l.snap.id).ok_or_else(|| fail("snapshot-file-missing", si))?;
                    let repo = h.open().map_err(|_| fail("open", si))?;
                    repo.delete_snapshots(&[l.snap.id]).map_err(|_| fail("forget", si))?;
                    forgotten.push((l, raw));
                }
                Ok(())
            }
            "u" => {
                if let Some((l, raw)) = forgotten.pop() {
                    h.be.put_raw(FileType::Snapshot, *l.snap.id, raw);
                    live.push(l);
                    pending = true;
                }
                Ok(())
            }
            "m" => {
                let mut files = all_index(&h).map_err(|_| fail("index-undecodable", si))?;
                files.sort_by_key(|(id, _)| *id);
                if let Some((id, mut f)) = files.into_iter().next() {
                    f.supersedes = Some(vec![id.into()]);
                    let repo = h.open().map_err(|_| fail("open", si))?;
                    _ = rustic_core::verif::repository::save_file(&repo, &f).map_err(|_| fail("save-index", si))?;
                }
                Ok(())
            }
            "s" => {
                if !arg.is_empty() {
                    return Err("bad-op".into());
                }
                stale = Some(h.be.store());
                Ok(())
            }
            "a" => {
                let k: u64 = arg.parse().map_err(|_| "bad-op".to_string())?;
                let Some(base) = stale.take() else { return Err("bad-op".into()) };
                let h2 = RepoHandle { be: MemBackend::from_store(base.clone()), hot: None, key: h.key.clone() };
                let src = source(seed, k, None);
                let snap = backup(&h2, &src)?;
                let mut merged = h.be.store();
                for (key, val) in h2.be.store() {
                    if !base.contains_key(&key) {
                        _ = merged.insert(key, val);
                    }
                }
                h.be.set_store(merged);
                live.push(Live { snap, src });
                pending = true;
                Ok(())
            }
            "h" => {
                let k: u64 = arg.parse().map_err(|_| "bad-op".to_string())?;
                if held.is_some() {
                    return Err("bad-op".into());
                }
                let base = h.be.store();
                let h2 = RepoHandle { be: MemBackend::from_store(base.clone()), hot: None, key: h.key.clone() };
                let src = source(seed, k, None);
                let snap = backup(&h2, &src)?;
                let mut later = vec![];
                let mut n_packs = 0;
                for (key, val) in h2.be.store() {
                    if !base.contains_key(&key) {
                        if key.0 == repo::ft_idx(FileType::Pack) {
                            h.be.put_raw(FileType::Pack, key.1, val);
                            n_packs += 1;
                        } else {
                            later.push((key, val));
                        }
                    }
                }
                if n_packs == 0 && std::env::var("VH_DEBUG").is_ok() {
                    eprintln!("h{k}: the backup wrote no pack");
                }
                held = Some((later, Live { snap, src }));
                Ok(())
            }
            "e" => {
                if !arg.is_empty() {
                    return Err("bad-op".into());
                }
                let Some((files, l)) = held.take() else { return Err("bad-op".into()) };
                let mut merged = h.be.store();
                for (key, val) in files {
                    _ = merged.insert(key, val);
                }
                h.be.set_store(merged);
                live.push(l);
                pending = true;
                Ok(())
            }
            "p" => {
                pending = false;
                prune_run(&h, arg, si, &mut marked_at, &Fault::None, order).map(|_| ())
            }
            "q" | "Q" => {
                fault_sweep(&h, arg, si, &marked_at, &live, pending, seed, order, c == "Q")?;
                pending = false;
                prune_run(&h, arg, si, &mut marked_at, &Fault::None, order).map(|_| ())
            }
            "z" => {
                let Some((spec, i)) = arg.rsplit_once('/') else { return Err("bad-op".into()) };
                let i: usize = i.parse().map_err(|_| "bad-op".to_string())?;
                if live.is_empty() {
                    return Err("bad-op".into());
                }
                // the index file(s) listing (unmarked) the root tree of live snapshot i
                let root: Id = *live[i % live.len()].snap.tree;
                let ids: Vec<Id> = all_index(&h)
                    .map_err(|_| fail("index-undecodable", si))?
                    .into_iter()
                    .filter(|(_, f)| f.packs.iter().any(|p| p.blobs.iter().any(|b| b.tpe == BlobType::Tree && *b.id == root)))
                    .map(|(id, _)| id)
                    .collect();
                let ran = prune_run(&h, spec, si, &mut marked_at, &Fault::RemoveIndex(ids.clone()), order)?;
                if ran.failed.is_some() && !ran.ok {
                    // The old index files are removed in parallel, in no particular order (`delete_list`); once one removal has
                    // failed the others may or may not have been done.  The history continues from the state in which they all
                    // were: exactly the index files whose removal failed survive next to the rebuilt index.
                    for id in ran.rebuild.iter().filter(|id| !ids.contains(id)) {
                        h.be.del_raw(FileType::Index, id);
                    }
                }
                if std::env::var("VH_DEBUG").is_ok() {
                    let mut sizes: Vec<usize> = h.be.ids(FileType::Index).iter().map(|id| h.be.get(FileType::Index, id).map_or(0, |b| b.len())).collect();
                    sizes.sort_unstable();
                    eprintln!("step {si}: interrupted prune ok={} failed={:?} n={}; index files now (bytes): {sizes:?}", ran.ok, ran.failed.as_ref().map(op_kind), ran.n);
                }
                if ran.ok && ran.failed.is_some() {
                    return Err(fail("prune-ok-despite-failed-index-remove", si));
                }
                if ran.ok {
                    pending = false;
                }
                Ok(())
            }
            "o" => {
                order = match arg {
                    "0" => 0,
                    "1" => 1,
                    "2" => 2,
                    _ => return Err("bad-op".into()),
                };
                Ok(())
            }
            "g" => {
                if si == 0 && arg.parse::<u64>().is_ok() { Ok(()) } else { Err("bad-op".into()) }
            }
            "l" => {
                let Some((k, n)) = arg.split_once(',') else { return Err("bad-op".into()) };
                let (Ok(k), Ok(n)) = (k.parse::<u64>(), n.parse::<u64>()) else { return Err("bad-op".into()) };
                if n > 1_000_000 {
                    return Err("bad-op".into());
                }
                let src = large_source(seed, k, n);
                let snap = backup(&h, &src)?;
                live.push(Live { snap, src });
                Ok(())
            }
            _ => Err("bad-op".into()),
        })();
        if let Err(e) = r {
            return e;
        }
        // after `u` the repository is only *recoverable* until the next prune; everything else must verify
        if !pending {
            if let Err(e) = verify(&h, &live, si) {
                return e;
            }
        }
    }
    format!("ok snaps={}", live.len())
}

/// slack (seconds) for the wall-clock that passes between the steps of one history
const CLOCK_SLACK: i64 = 900;

#[derive(Clone, Copy)]
struct PruneSpec {
    kd: i64,
    kp: i64,
    flags: [bool; 7],
    mr: &'static str,
    mu: &'static str,
}

fn rand_prune(rng: &mut Rng, allow_instant: bool) -> PruneSpec {
    let kd = *rng.pick(&[0i64, 3600, 82_800]);
    let kp = *rng.pick(&[0i64, 0, 0, 3600]);
    let instant = allow_instant && rng.chance(1, 5);
    let unc = rng.chance(1, 8);
    let fast = !unc && rng.chance(1, 2);
    let flags = [rng.chance(1, 6), unc, rng.chance(1, 5), rng.chance(1, 4), instant, false, fast];
    let mr = *rng.pick(&["u", "u", "p10", "p50", "s100000000", "s2000"]);
    let mu = *rng.pick(&["u", "p0", "p5", "p5", "p50", "s0", "s500"]);
    PruneSpec { kd, kp, flags, mr, mu }
}

/// What the generator knows about the history so far: enough to emit only *legal* `u` / `a` steps (nothing the
/// returning snapshot needs may have been physically deleted in between) and to pick snapshots by version.
struct Gen {
    steps: Vec<String>,
    /// versions of the live snapshots, in the order of the harness' `live` list
    live: Vec<u64>,
    /// forgotten snapshots (stack): (version, still safe to bring back, dt of the first prune after the forget)
    forgotten: Vec<(u64, bool, Option<i64>)>,
    /// open stale handle: (still safe to finish, dt of the first prune since `s`)
    stale: Option<(bool, Option<i64>)>,
    /// half-done backup (`h`): (version, still safe to finish, dt of the first prune since `h`)
    half: Option<(u64, bool, Option<i64>)>,
    dt: i64,
    maxv: u64,
}

impl Gen {
    fn new() -> Self {
        Self { steps: vec!["b0".into()], live: vec![0], forgotten: vec![], stale: None, half: None, dt: 0, maxv: 0 }
    }
    fn backup(&mut self, v: u64, stats: &mut Stats) {
        self.steps.push(format!("b{v}"));
        self.live.push(v);
        self.maxv = self.maxv.max(v);
        stats.hit("hist.backup");
    }
    /// forget the snapshot at position `i` of the live list
    fn forget(&mut self, i: usize, stats: &mut Stats) -> bool {
        if self.live.len() < 2 {
            return false;
        }
        let i = i % self.live.len();
        let v = self.live.remove(i);
        self.steps.push(format!("f{i}"));
        self.forgotten.push((v, true, None));
        stats.hit("hist.forget");
        true
    }
    /// forget every live snapshot (`F0` each): the prune that follows keeps no pack
    fn forget_all(&mut self, stats: &mut Stats) {
        for v in std::mem::take(&mut self.live) {
            self.steps.push("F0".into());
            self.forgotten.push((v, true, None));
        }
        stats.hit("hist.forget-all");
    }
    fn prune(&mut self, p: PruneSpec, stats: &mut Stats) {
        self.prune_as("p", p, stats);
    }
    /// a prune step under the given step letter (`p` plain, `q`/`Q` with fault sweep, `z` interrupted — the caller appends `/<i>`)
    fn prune_as(&mut self, letter: &str, p: PruneSpec, stats: &mut Stats) {
        let fl: String = p.flags.iter().map(|b| if *b { '1' } else { '0' }).collect();
        self.steps.push(format!("{letter}{},{},{fl},{},{},{}", p.kd, p.kp, p.mr, p.mu, self.dt));
        if letter != "p" {
            stats.hit(format!("hist.prune.{letter}"));
        }
        let instant = p.flags[4];
        let dt = self.dt;
        // a pack marked by the first prune after the forget / `s` (at dt0) is deleted by this prune when
        // now - keep_delete >= mark time; wall-clock drift between the steps is bounded by CLOCK_SLACK
        let upd = |safe: &mut bool, first: &mut Option<i64>| {
            if instant {
                *safe = false;
            }
            match *first {
                None => *first = Some(dt),
                Some(dt0) => {
                    if dt - p.kd + CLOCK_SLACK >= dt0 {
                        *safe = false;
                    }
                }
            }
        };
        for (_, safe, first) in &mut self.forgotten {
            upd(safe, first);
        }
        if let Some((safe, first)) = &mut self.stale {
            upd(safe, first);
        }
        if let Some((_, safe, first)) = &mut self.half {
            upd(safe, first);
        }
        stats.hit("hist.prune");
        if instant {
            stats.hit("hist.prune.instant");
        }
        if p.kd > 0 {
            stats.hit("hist.prune.keep-delete>0");
        }
    }
    /// bring the last forgotten snapshot back (only if legal) and prune (the prune must recover)
    fn resurrect(&mut self, rng: &mut Rng, stats: &mut Stats) -> bool {
        match self.forgotten.last() {
            Some((_, true, _)) => {}
            _ => return false,
        }
        let (v, _, first) = self.forgotten.pop().unwrap();
        self.steps.push("u".into());
        self.live.push(v);
        stats.hit("hist.resurrect");
        if first.is_some() {
            stats.hit("hist.resurrect-after-marking-prune");
        }
        let p = rand_prune(rng, true);
        self.prune(p, stats);
        true
    }
    fn open_stale(&mut self, stats: &mut Stats) {
        self.steps.push("s".into());
        self.stale = Some((true, None));
        stats.hit("hist.stale-handle");
    }
    /// the stale handle finishes its backup (only if legal), then prune (must recover what the backup re-used)
    fn finish_stale(&mut self, v: u64, rng: &mut Rng, stats: &mut Stats) -> bool {
        match self.stale.take() {
            Some((true, first)) => {
                self.steps.push(format!("a{v}"));
                self.live.push(v);
                self.maxv = self.maxv.max(v);
                stats.hit("hist.overlapping-backup");
                if first.is_some() {
                    stats.hit("hist.backup-overlaps-marking-prune");
                }
                let p = rand_prune(rng, true);
                self.prune(p, stats);
                true
            }
            _ => false,
        }
    }
    /// a backup of version `v` starts and uploads its packs; index and snapshot are held back
    fn open_half(&mut self, v: u64, stats: &mut Stats) {
        self.steps.push(format!("h{v}"));
        self.half = Some((v, true, None));
        self.maxv = self.maxv.max(v);
        stats.hit("hist.half-done-backup");
    }
    /// the half-done backup finishes (only if none of its packs can have been deleted physically in between)
    fn finish_half(&mut self, stats: &mut Stats) -> bool {
        match self.half.take() {
            Some((v, true, first)) => {
                self.steps.push("e".into());
                self.live.push(v);
                stats.hit("hist.half-done-backup-finished");
                if first.is_some() {
                    stats.hit("hist.backup-finished-after-prune-marked-its-packs");
                }
                true
            }
            _ => {
                stats.hit("hist.half-done-backup-never-finished");
                false
            }
        }
    }
    fn pos_of(&self, v: u64) -> Option<usize> {
        self.live.iter().rposition(|x| *x == v)
    }
}

/// prune options that keep marked packs for a while and tolerate no / little unused space (so partly used packs are repacked)
fn marking_prune(rng: &mut Rng, kd: i64, tight: bool) -> PruneSpec {
    let mut p = rand_prune(rng, false);
    p.kd = kd;
    p.kp = 0;
    p.flags[0] = false; // repack_cacheable_only would keep data packs
    if tight {
        p.mr = "u";
        p.mu = *rng.pick(&["p0", "s0", "p0", "p5"]);
        p.flags[3] = false;
    }
    p
}

pub fn gen_hist(rng: &mut Rng, stats: &mut Stats, thorough: bool) -> String {
    let seed = rng.below(1_000_000);
    let mut g = Gen::new();
    let shape = rng.below(13);
    let sweep = if thorough { "Q" } else { "q" };
    match shape {
        // (a) keep-delete > 0, packs still marked, their blobs uploaded again (duplicates) into packs that become
        //     partly used and are repacked while the marked packs are still kept
        0 | 1 => {
            stats.hit("hist.shape.duplicates-of-marked-blobs");
            let v = 1 + rng.below(4);
            g.backup(v, stats);
            _ = g.forget(g.pos_of(v).unwrap(), stats);
            let kd = *rng.pick(&[3600i64, 82_800]);
            g.dt += *rng.pick(&[0i64, 0, 90_000]);
            let tight = rng.chance(1, 2);
            let p = marking_prune(rng, kd, tight);
            g.prune(p, stats);
            g.backup(v, stats); // blobs in marked packs are not indexed: uploaded again
            let w = *rng.pick(&[v + 1, v + 2, v + 2, v + 3]);
            g.backup(w, stats); // shares some of them
            _ = g.forget(g.pos_of(v).unwrap(), stats);
            let p = marking_prune(rng, kd, true);
            g.prune(p, stats);
            if rng.chance(1, 2) {
                let p = marking_prune(rng, kd, true);
                g.prune(p, stats);
            }
        }
        // (b) a backup overlaps the marking prune (stale index), then a prune — often with instant-delete — must recover
        2 | 3 => {
            stats.hit("hist.shape.backup-overlaps-marking-prune");
            let v = 1 + rng.below(4);
            g.backup(v, stats);
            g.open_stale(stats);
            _ = g.forget(g.pos_of(v).unwrap(), stats);
            g.dt += *rng.pick(&[0i64, 0, 90_000]);
            let kd = *rng.pick(&[0i64, 3600, 82_800]);
            let tight = rng.chance(1, 2);
            let p = marking_prune(rng, kd, tight);
            g.prune(p, stats);
            let w = *rng.pick(&[v, v, v + 1]);
            g.steps.push(format!("a{w}"));
            g.live.push(w);
            g.stale = None;
            stats.hit("hist.overlapping-backup");
            stats.hit("hist.backup-overlaps-marking-prune");
            let mut p = rand_prune(rng, true);
            if rng.chance(1, 2) {
                p.flags[4] = true;
            }
            g.prune(p, stats);
        }
        // (c) packs older than keep-delete when they are marked, a second prune right away, then the data is needed again
        4 | 5 => {
            stats.hit("hist.shape.old-packs-marked-then-prune-again");
            let v = 1 + rng.below(4);
            g.backup(v, stats);
            let overlap = rng.chance(1, 2);
            if overlap {
                g.open_stale(stats);
            }
            _ = g.forget(g.pos_of(v).unwrap(), stats);
            let kd = *rng.pick(&[3600i64, 82_800]);
            g.dt += *rng.pick(&[3600i64, 90_000, 90_000, 200_000]);
            let tight = rng.chance(1, 2);
            let p = marking_prune(rng, kd, tight);
            g.prune(p, stats);
            let tight = rng.chance(1, 2);
            let mut p = marking_prune(rng, kd, tight);
            p.kp = *rng.pick(&[0i64, 3600]);
            g.prune(p, stats);
            if overlap {
                _ = g.finish_stale(v, rng, stats);
            } else {
                _ = g.resurrect(rng, stats);
            }
        }
        // (d) a backup is half done while a non-instant prune plans: its pack files are uploaded, its index and snapshot are not
        //     written yet, so prune marks the packs as unreferenced; the backup finishes; a prune past keep-delete must not
        //     delete these packs — they are indexed and in use (the normal index entry wins over the mark)
        6 | 7 => {
            stats.hit("hist.shape.prune-while-backup-half-done");
            let v = 1 + rng.below(4);
            g.backup(v, stats);
            if rng.chance(2, 3) {
                _ = g.forget(rng.below(2) as usize, stats);
            }
            let w = *rng.pick(&[v + 1, v + 1, v + 2, v]);
            g.open_half(w, stats);
            let kd = *rng.pick(&[0i64, 0, 3600, 82_800]);
            g.dt += *rng.pick(&[0i64, 0, 90_000]);
            let tight = rng.chance(1, 2);
            let p = marking_prune(rng, kd, tight);
            g.prune(p, stats);
            _ = g.finish_half(stats);
            if rng.chance(1, 3) {
                let x = g.maxv + 1;
                g.backup(x, stats);
            }
            // past keep-delete of the mark
            g.dt += kd + CLOCK_SLACK + *rng.pick(&[100i64, 3600, 90_000]);
            let mut p = rand_prune(rng, true);
            p.kd = *rng.pick(&[0, kd]);
            g.prune(p, stats);
            if rng.chance(1, 2) {
                let p = rand_prune(rng, true);
                g.prune(p, stats);
            }
        }
        // (e) a REPACKING prune (partly used data packs, no unused space tolerated; mark-only and instant-delete) under write
        //     faults: every storage operation of the run fails once — the repacked tree pack(s), the repacked data pack that is
        //     only written by `finalize`, the index, the removals; prune must report it and lose nothing; a retry heals
        8 | 9 => {
            stats.hit("hist.shape.repack-under-write-faults");
            let v = 1 + rng.below(4);
            g.backup(v, stats);
            if rng.chance(1, 3) {
                let w = v + 1 + rng.below(2);
                g.backup(w, stats);
            }
            // mostly the oldest snapshot goes: the packs of the first backup stay partly used
            let i = if rng.chance(3, 4) { 0 } else { rng.below(3) as usize };
            _ = g.forget(i, stats);
            g.dt += *rng.pick(&[0i64, 0, 90_000]);
            let kd = *rng.pick(&[0i64, 3600, 82_800]);
            let mut p = marking_prune(rng, kd, true);
            p.flags[4] = rng.chance(1, 2);
            if p.flags[4] {
                stats.hit("hist.fault-sweep.instant");
            } else {
                stats.hit("hist.fault-sweep.mark-only");
            }
            g.prune_as(sweep, p, stats);
            if rng.chance(1, 2) {
                // … and the prune that deletes what was marked (past keep-delete), again under faults
                g.dt += kd + CLOCK_SLACK + *rng.pick(&[100i64, 3600]);
                let mut p = rand_prune(rng, true);
                p.kd = *rng.pick(&[0, kd]);
                g.prune_as(sweep, p, stats);
            }
        }
        // (f) every snapshot is forgotten and a prune marks ALL packs (its index lists nothing but packs to delete); within
        //     keep-delete a snapshot comes back — restored, or written by a backup that had read the index before — and the
        //     next prune must bring the marked packs back
        12 => {
            stats.hit("hist.shape.prune-keeps-no-pack");
            let v = 1 + rng.below(4);
            if rng.chance(1, 2) {
                g.backup(v, stats);
            }
            let overlap = rng.chance(1, 2);
            if overlap {
                g.open_stale(stats);
            }
            g.forget_all(stats);
            let kd = *rng.pick(&[3600i64, 82_800]);
            g.dt += *rng.pick(&[0i64, 0, 90_000]);
            let tight = rng.chance(1, 2);
            let p = marking_prune(rng, kd, tight);
            g.prune(p, stats);
            if overlap {
                let w = *g.forgotten.iter().map(|(v, _, _)| v).max().unwrap_or(&0);
                _ = g.finish_stale(w, rng, stats);
            } else {
                _ = g.resurrect(rng, stats);
            }
        }
        _ => stats.hit("hist.shape.random"),
    }
    let len = if shape < 10 || shape == 12 { rng.below(4) } else { 3 + rng.below(if thorough { 12 } else { 7 }) };
    for _ in 0..len {
        match rng.below(24) {
            0..=4 => {
                let v = g.maxv + 1;
                g.backup(v, stats);
            }
            5 => {
                // an earlier version again
                let v = rng.below(g.maxv + 1);
                g.backup(v, stats);
                stats.hit("hist.backup-earlier-version-again");
            }
            6..=7 => {
                let v = g.maxv + 1;
                g.steps.push(format!("c{v}"));
                g.live.push(v);
                g.live.push(v + 1);
                g.maxv = v + 1;
                stats.hit("hist.concurrent-pair");
            }
            8 => {
                let v = g.maxv + 1;
                g.steps.push(format!("x{v}"));
                g.live.push(v);
                g.maxv = v;
                stats.hit("hist.id-collision");
            }
            9..=12 => {
                if g.forget(rng.below(8) as usize, stats) && rng.chance(3, 4) {
                    // usually prune right after
                    g.dt += *rng.pick(&[0i64, 0, 3600, 90_000]);
                    let p = rand_prune(rng, true);
                    g.prune(p, stats);
                    if rng.chance(1, 3) {
                        // … and once more right away
                        let p = rand_prune(rng, true);
                        g.prune(p, stats);
                    }
                    if rng.chance(1, 2) {
                        _ = g.resurrect(rng, stats);
                    }
                }
            }
            13 => {
                g.steps.push("m".into());
                stats.hit("hist.dup-index");
            }
            14..=15 => {
                if g.stale.is_none() {
                    g.open_stale(stats);
                } else {
                    let v = if rng.chance(1, 2) { g.maxv + 1 } else { rng.below(g.maxv + 1) };
                    _ = g.finish_stale(v, rng, stats);
                }
            }
            16 => {
                if g.half.is_none() {
                    let v = if rng.chance(2, 3) { g.maxv + 1 } else { rng.below(g.maxv + 1) };
                    g.open_half(v, stats);
                } else {
                    _ = g.finish_half(stats);
                }
            }
            _ => {
                g.dt += *rng.pick(&[0i64, 0, 3600, 90_000]);
                let p = rand_prune(rng, true);
                if rng.chance(1, 6) {
                    g.prune_as("q", p, stats);
                } else {
                    g.prune(p, stats);
                }
            }
        }
    }
    if g.half.is_some() && rng.chance(1, 2) {
        _ = g.finish_half(stats);
        let p = rand_prune(rng, true);
        g.prune(p, stats);
    }
    format!("c02 hist {seed} {}", g.steps.join(";"))
}

/// A history with BIG index files (>= `MIN_INDEX_LEN` blobs: prune rebuilds such a file only when it has to): fixed-size chunker
/// with 8-byte chunks, two backups with a large file each (each index file below the threshold, together above it) and a small
/// one; a prune that merges the three index files is interrupted while it removes the old ones, so the index file of one
/// snapshot survives next to the merged one (duplicate index entries); then a snapshot is forgotten and an (often instant)
/// prune runs with the index files arriving smallest / largest first; then the forgotten version is backed up again.
/// `directed`: the surviving index file is the small snapshot's, that snapshot is forgotten, the small index file arrives
/// first and the prune deletes instantly — the merged index file then needs no change except dropping the duplicate entries.
pub fn gen_hist_big(rng: &mut Rng, stats: &mut Stats, directed: bool) -> String {
    let seed = rng.below(1_000_000);
    let min = hook::MIN_INDEX_LEN as u64;
    let n = min / 2 + min / 10 + rng.below(min / 20 + 1);
    let mut g = Gen::new();
    g.steps = vec!["g8".into(), format!("l0,{n}"), format!("l1,{n}")];
    g.live = vec![0, 1];
    g.maxv = 1;
    g.backup(2, stats);
    stats.hit("hist.shape.big-index-interrupted-merge");
    // the merging prune: nothing to remove, every index file is small => all are rebuilt into one
    let mut p = rand_prune(rng, false);
    p.kd = *rng.pick(&[3600i64, 82_800]);
    p.kp = 0;
    p.flags = [false, false, false, rng.chance(1, 2), false, false, rng.chance(1, 2)];
    p.mr = "u";
    p.mu = *rng.pick(&["u", "p5"]);
    let i = if directed { 2 } else { rng.below(3) as usize };
    g.prune_as("z", p, stats);
    let last = g.steps.pop().unwrap();
    g.steps.push(format!("{last}/{i}"));
    let j = if directed || rng.chance(3, 4) { i } else { rng.below(3) as usize };
    let v = g.live[j];
    _ = g.forget(j, stats);
    let m = if directed { 1 } else { rng.below(3) };
    g.steps.push(format!("o{m}"));
    stats.hit(format!("hist.index-order.{m}"));
    g.dt += *rng.pick(&[0i64, 0, 90_000]);
    let mut p = rand_prune(rng, true);
    p.flags[4] = directed || rng.chance(3, 4);
    if directed {
        // nothing else to do for the merged index file: no repacking; the unused packs are not protected by keep-pack
        p.kp = 0;
        p.flags[0] = false;
        p.flags[1] = false;
        p.flags[2] = false;
        p.mu = "u";
    }
    g.prune(p, stats);
    // the forgotten version again: de-duplicates against whatever the index still lists
    if v < 2 {
        g.steps.push(format!("l{v},{n}"));
        g.live.push(v);
    } else {
        g.backup(v, stats);
    }
    if rng.chance(1, 2) {
        let p = rand_prune(rng, true);
        g.prune(p, stats);
    }
    format!("c02 hist {seed} {}", g.steps.join(";"))
}
