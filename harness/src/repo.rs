//! Shared repository-level infrastructure for all property harnesses:
//! * `MemBackend` — in-memory `WriteBackend` with an operation log (recording), fault / crash injection,
//!   a gate callback (to park a command at its k-th storage operation), optional cold-store strictness
//!   (reads of files that were not warmed up fail) and optional delays.
//! * `RepoHandle` — init / (re-)open a repository over such backends with a fixed master key.
//! * `MemSource`  — an in-memory `ReadSource` (arbitrary names, contents, metadata).
//! * helpers: backup, read back a snapshot (ls + dump), check.
#![allow(dead_code)]
use std::collections::{BTreeMap, BTreeSet};
use std::ffi::OsString;
use std::io::Cursor;
use std::os::unix::ffi::OsStringExt;
use std::path::PathBuf;
use std::sync::{Arc, Mutex};

use bytes::Bytes;
use rustic_core::repofile::{FileType, MasterKey, Metadata, Node, NodeType, SnapshotFile};
use rustic_core::{
    BackupOptions, BytesList, CheckOptions, ConfigOptions, Credentials, ErrorKind, Id, IndexedFull,
    KeyOptions, LsOptions, OpenStatus, ReadBackend, ReadSource, ReadSourceEntry, Repository,
    RepositoryBackends, RepositoryOptions, RusticError, RusticResult, WriteBackend,
};

pub fn ft_idx(t: FileType) -> u8 {
    match t {
        FileType::Config => 0,
        FileType::Index => 1,
        FileType::Key => 2,
        FileType::Snapshot => 3,
        FileType::Pack => 4,
    }
}
pub fn ft_name(t: FileType) -> &'static str {
    match t {
        FileType::Config => "config",
        FileType::Index => "index",
        FileType::Key => "key",
        FileType::Snapshot => "snapshot",
        FileType::Pack => "pack",
    }
}
pub const FILE_TYPES: [FileType; 5] =
    [FileType::Config, FileType::Index, FileType::Key, FileType::Snapshot, FileType::Pack];

pub type Store = BTreeMap<(u8, Id), Bytes>;

#[derive(Clone, Debug)]
pub struct LogOp {
    /// true = write_bytes, false = remove
    pub write: bool,
    pub tpe: FileType,
    pub id: Id,
    pub cacheable: bool,
    pub len: usize,
    /// whether the operation was applied (false: it was made to fail)
    pub applied: bool,
}

#[derive(Default)]
pub struct MemInner {
    pub map: Store,
    /// every mutating call (write_bytes / remove), in the order the backend saw them
    pub log: Vec<LogOp>,
    /// every read (tpe, id, partial?)
    pub reads: Vec<(FileType, Id, bool)>,
    /// every warm_up request
    pub warm_log: Vec<(FileType, Id)>,
    pub warm: BTreeSet<(u8, Id)>,
    /// the k-th (0-based) mutating call fails, later ones proceed
    pub fail_only: Option<usize>,
    /// every mutating call with index >= k fails (the process "crashed" before its k-th operation)
    pub crash_at: Option<usize>,
    /// reads of packs (and, if `cold_all`, of anything) fail unless warmed up first
    pub cold: bool,
    /// overwriting an existing id / removing a missing id is an error (like rustic_testing's backend)
    pub strict: bool,
    /// (added for C17) `read_full` / `read_partial` of exactly these files fail with a backend error although the file is
    /// stored and listed (transient read error / throttling); empty = no read faults
    pub fail_reads_of: BTreeSet<(u8, Id)>,
    /// (added for C02) `remove` of exactly these files fails with a backend error (the file stays): an interrupted clean-up
    pub fail_removes_of: BTreeSet<(u8, Id)>,
    /// (added for C02) serving order: files in this list are listed first, in this order, and `read_full` of the file at
    /// position j waits (bounded) until the files at positions < j have been read, plus `serve_gap_ms` — controls the order in
    /// which parallel streamed files (index files) ARRIVE at the consumer; empty = no control.  `served` is reset by `set_serve_order`.
    pub serve_order: Vec<(u8, Id)>,
    pub served: BTreeSet<(u8, Id)>,
    pub serve_gap_ms: u64,
    /// (added for C08) every `read_partial` call with its arguments, in call order — `reads` does not keep the `cacheable` flag
    pub preads: Vec<PRead>,
}

/// (added for C08) one `read_partial` call as the backend saw it
#[derive(Clone, Debug)]
pub struct PRead {
    pub tpe: FileType,
    pub id: Id,
    pub cacheable: bool,
    pub offset: u32,
    pub length: u32,
}

type Gate = Arc<dyn Fn(usize, &LogOp) + Send + Sync>;

#[derive(Clone)]
pub struct MemBackend {
    pub inner: Arc<Mutex<MemInner>>,
    /// called (without the lock held) before the k-th mutating call is applied
    pub gate: Arc<Mutex<Option<Gate>>>,
    pub name: &'static str,
}

impl std::fmt::Debug for MemBackend {
    fn fmt(&self, f: &mut std::fmt::Formatter<'_>) -> std::fmt::Result {
        write!(f, "MemBackend({})", self.name)
    }
}

fn be_err(msg: &'static str) -> Box<RusticError> {
    RusticError::new(ErrorKind::Backend, msg)
}

impl MemBackend {
    pub fn new() -> Self {
        Self::named("mem")
    }
    pub fn named(name: &'static str) -> Self {
        Self { inner: Arc::new(Mutex::new(MemInner::default())), gate: Arc::new(Mutex::new(None)), name }
    }
    pub fn from_store(map: Store) -> Self {
        let b = Self::new();
        b.inner.lock().unwrap().map = map;
        b
    }
    pub fn store(&self) -> Store {
        self.inner.lock().unwrap().map.clone()
    }
    pub fn set_store(&self, map: Store) {
        self.inner.lock().unwrap().map = map;
    }
    pub fn log(&self) -> Vec<LogOp> {
        self.inner.lock().unwrap().log.clone()
    }
    pub fn clear_log(&self) {
        let mut g = self.inner.lock().unwrap();
        g.log.clear();
        g.reads.clear();
        g.warm_log.clear();
    }
    pub fn set_gate(&self, g: Option<Gate>) {
        *self.gate.lock().unwrap() = g;
    }
    pub fn set_fail_only(&self, k: Option<usize>) {
        self.inner.lock().unwrap().fail_only = k;
    }
    pub fn set_crash_at(&self, k: Option<usize>) {
        self.inner.lock().unwrap().crash_at = k;
    }
    pub fn set_cold(&self, cold: bool) {
        self.inner.lock().unwrap().cold = cold;
    }
    /// (added for C17) make every read of file `(tpe, id)` fail (`on = true`) or succeed again (`on = false`)
    pub fn set_fail_reads_of(&self, tpe: FileType, id: Id, on: bool) {
        let mut g = self.inner.lock().unwrap();
        if on {
            _ = g.fail_reads_of.insert((ft_idx(tpe), id));
        } else {
            _ = g.fail_reads_of.remove(&(ft_idx(tpe), id));
        }
    }
    /// (added for C02) make every `remove` of file `(tpe, id)` fail (`on = true`) or work again (`on = false`)
    pub fn set_fail_removes_of(&self, tpe: FileType, id: Id, on: bool) {
        let mut g = self.inner.lock().unwrap();
        if on {
            _ = g.fail_removes_of.insert((ft_idx(tpe), id));
        } else {
            _ = g.fail_removes_of.remove(&(ft_idx(tpe), id));
        }
    }
    /// (added for C02) list and serve the files `ids` of type `tpe` in this order (see `MemInner::serve_order`); an empty list
    /// switches the control off.  `gap_ms`: pause between the read of one listed file and the release of the next.
    pub fn set_serve_order(&self, tpe: FileType, ids: &[Id], gap_ms: u64) {
        let mut g = self.inner.lock().unwrap();
        g.serve_order = ids.iter().map(|id| (ft_idx(tpe), *id)).collect();
        g.served.clear();
        g.serve_gap_ms = gap_ms;
    }
    /// wait until every file before `(tpe, id)` in the serving order has been read (at most ~3 s)
    fn wait_turn(&self, tpe: FileType, id: &Id) {
        let key = (ft_idx(tpe), *id);
        let (pos, gap) = {
            let g = self.inner.lock().unwrap();
            if g.serve_order.is_empty() || g.served.contains(&key) {
                return;
            }
            match g.serve_order.iter().position(|k| *k == key) {
                Some(p) if p > 0 => (p, g.serve_gap_ms),
                _ => return,
            }
        };
        let start = std::time::Instant::now();
        loop {
            {
                let g = self.inner.lock().unwrap();
                if g.serve_order.len() <= pos || g.serve_order[..pos].iter().all(|k| g.served.contains(k) || !g.map.contains_key(k)) {
                    break;
                }
            }
            if start.elapsed() > std::time::Duration::from_secs(3) {
                return;
            }
            std::thread::sleep(std::time::Duration::from_millis(1));
        }
        std::thread::sleep(std::time::Duration::from_millis(gap));
    }
    /// (added for C08) the recorded `read_partial` calls (with their `cacheable` flag); `take` empties the record
    pub fn preads(&self) -> Vec<PRead> {
        self.inner.lock().unwrap().preads.clone()
    }
    pub fn take_preads(&self) -> Vec<PRead> {
        std::mem::take(&mut self.inner.lock().unwrap().preads)
    }
    pub fn ids(&self, tpe: FileType) -> Vec<Id> {
        let t = ft_idx(tpe);
        self.inner.lock().unwrap().map.keys().filter(|(x, _)| *x == t).map(|(_, id)| *id).collect()
    }
    pub fn get(&self, tpe: FileType, id: &Id) -> Option<Bytes> {
        self.inner.lock().unwrap().map.get(&(ft_idx(tpe), *id)).cloned()
    }
    pub fn put_raw(&self, tpe: FileType, id: Id, data: Bytes) {
        _ = self.inner.lock().unwrap().map.insert((ft_idx(tpe), id), data);
    }
    pub fn del_raw(&self, tpe: FileType, id: &Id) {
        _ = self.inner.lock().unwrap().map.remove(&(ft_idx(tpe), *id));
    }
    fn mutate(&self, mut op: LogOp, content: Option<Bytes>) -> RusticResult<()> {
        let k = self.inner.lock().unwrap().log.len();
        let gate = self.gate.lock().unwrap().clone();
        if let Some(g) = gate {
            g(k, &op);
        }
        let mut g = self.inner.lock().unwrap();
        let k = g.log.len();
        let fail = g.fail_only == Some(k)
            || g.crash_at.is_some_and(|c| k >= c)
            || (!op.write && !g.fail_removes_of.is_empty() && g.fail_removes_of.contains(&(ft_idx(op.tpe), op.id)));
        if fail {
            op.applied = false;
            g.log.push(op);
            return Err(be_err("injected storage failure"));
        }
        let key = (ft_idx(op.tpe), op.id);
        let res = if op.write {
            let old = g.map.insert(key, content.unwrap());
            if g.strict && old.is_some() { Err(be_err("id already exists")) } else { Ok(()) }
        } else {
            let old = g.map.remove(&key);
            if g.strict && old.is_none() { Err(be_err("id does not exist")) } else { Ok(()) }
        };
        g.log.push(op);
        res
    }
}

impl ReadBackend for MemBackend {
    fn location(&self) -> String {
        format!("mem:{}", self.name)
    }
    fn list_with_size(&self, tpe: FileType) -> RusticResult<Vec<(Id, u32)>> {
        let t = ft_idx(tpe);
        let g = self.inner.lock().unwrap();
        let mut v: Vec<(Id, u32)> = g.map.iter().filter(|((x, _), _)| *x == t).map(|((_, id), b)| (*id, b.len() as u32)).collect();
        if !g.serve_order.is_empty() {
            // (added for C02) files of the serving order first, in that order (stable: the others keep their id order)
            v.sort_by_key(|(id, _)| g.serve_order.iter().position(|k| *k == (t, *id)).unwrap_or(usize::MAX));
        }
        Ok(v)
    }
    fn read_full(&self, tpe: FileType, id: &Id) -> RusticResult<Bytes> {
        self.wait_turn(tpe, id);
        let mut g = self.inner.lock().unwrap();
        g.reads.push((tpe, *id, false));
        if !g.serve_order.is_empty() {
            _ = g.served.insert((ft_idx(tpe), *id));
        }
        if g.fail_reads_of.contains(&(ft_idx(tpe), *id)) {
            return Err(be_err("injected read failure"));
        }
        if g.cold && tpe == FileType::Pack && !g.warm.contains(&(ft_idx(tpe), *id)) {
            return Err(be_err("cold file read without warm-up"));
        }
        g.map.get(&(ft_idx(tpe), *id)).cloned().ok_or_else(|| be_err("no such file"))
    }
    fn read_partial(&self, tpe: FileType, id: &Id, cacheable: bool, offset: u32, length: u32) -> RusticResult<Bytes> {
        let mut g = self.inner.lock().unwrap();
        g.reads.push((tpe, *id, true));
        g.preads.push(PRead { tpe, id: *id, cacheable, offset, length });
        if g.fail_reads_of.contains(&(ft_idx(tpe), *id)) {
            return Err(be_err("injected read failure"));
        }
        if g.cold && tpe == FileType::Pack && !g.warm.contains(&(ft_idx(tpe), *id)) {
            return Err(be_err("cold file read without warm-up"));
        }
        let b = g.map.get(&(ft_idx(tpe), *id)).ok_or_else(|| be_err("no such file"))?;
        let (o, l) = (offset as usize, length as usize);
        if o + l > b.len() {
            return Err(be_err("read beyond end of file"));
        }
        Ok(b.slice(o..o + l))
    }
    fn warmup_path(&self, tpe: FileType, id: &Id) -> String {
        format!("{}/{}", tpe.dirname(), id.to_hex().as_str())
    }
    fn needs_warm_up(&self) -> bool {
        self.inner.lock().unwrap().cold
    }
    fn warm_up(&self, tpe: FileType, id: &Id) -> RusticResult<()> {
        let mut g = self.inner.lock().unwrap();
        g.warm_log.push((tpe, *id));
        _ = g.warm.insert((ft_idx(tpe), *id));
        Ok(())
    }
}

impl WriteBackend for MemBackend {
    fn create(&self) -> RusticResult<()> {
        Ok(())
    }
    fn write_bytes(&self, tpe: FileType, id: &Id, cacheable: bool, content: BytesList) -> RusticResult<()> {
        let mut v = Vec::with_capacity(content.size());
        for b in content.slice() {
            v.extend_from_slice(b);
        }
        let op = LogOp { write: true, tpe, id: *id, cacheable, len: v.len(), applied: true };
        self.mutate(op, Some(Bytes::from(v)))
    }
    fn remove(&self, tpe: FileType, id: &Id, cacheable: bool) -> RusticResult<()> {
        let op = LogOp { write: false, tpe, id: *id, cacheable, len: 0, applied: true };
        self.mutate(op, None)
    }
}

/// A repository over in-memory backends that can be re-opened (fixed master key, no scrypt).
#[derive(Clone)]
pub struct RepoHandle {
    pub be: MemBackend,
    pub hot: Option<MemBackend>,
    pub key: MasterKey,
}

impl RepoHandle {
    pub fn backends(&self) -> RepositoryBackends {
        RepositoryBackends::new(
            Arc::new(self.be.clone()),
            self.hot.clone().map(|h| Arc::new(h) as Arc<dyn WriteBackend>),
        )
    }
    /// `init` a new repository (version 2 unless the options say otherwise).
    pub fn init(be: MemBackend, hot: Option<MemBackend>, cfg: &ConfigOptions) -> RusticResult<(Self, Repository<OpenStatus>)> {
        let key = MasterKey::new();
        let h = Self { be, hot, key };
        let repo = Repository::new(&Self::default_opts(), &h.backends())?;
        let repo = repo.init(&Credentials::Masterkey(h.key.clone()), &KeyOptions::default(), cfg)?;
        Ok((h, repo))
    }
    /// Options every harness repository is opened with: NO local cache (`~/.cache/rustic/<repo id>` would be created per
    /// repository, reads of index / snapshot files would be served from there, repositories with equal ids would share entries).
    pub fn default_opts() -> RepositoryOptions {
        RepositoryOptions::default().no_cache(true)
    }
    pub fn open_with(&self, opts: &RepositoryOptions) -> RusticResult<Repository<OpenStatus>> {
        Repository::new(opts, &self.backends())?.open(&Credentials::Masterkey(self.key.clone()))
    }
    /// Open again (fresh index, fresh config) — needed between commands: the index of an opened repository is
    /// not refreshed by a backup.
    pub fn open(&self) -> RusticResult<Repository<OpenStatus>> {
        self.open_with(&Self::default_opts())
    }
}

/// Added for C04/C08/C17: the same handle operations with the local cache switched off (`RepositoryOptions::no_cache`).
/// With the default options every opened repository creates `~/.cache/rustic/<repo id>` and index / snapshot reads are
/// served from there — tampering with the backend is then invisible and the cache directory grows with every case.
pub fn nocache_opts() -> RepositoryOptions {
    RepoHandle::default_opts()
}

impl RepoHandle {
    pub fn init_nocache(be: MemBackend, hot: Option<MemBackend>, cfg: &ConfigOptions) -> RusticResult<(Self, Repository<OpenStatus>)> {
        let key = MasterKey::new();
        let h = Self { be, hot, key };
        let repo = Repository::new(&nocache_opts(), &h.backends())?;
        let repo = repo.init(&Credentials::Masterkey(h.key.clone()), &KeyOptions::default(), cfg)?;
        Ok((h, repo))
    }
    pub fn open_nocache(&self) -> RusticResult<Repository<OpenStatus>> {
        self.open_with(&nocache_opts())
    }
}

/// `backup` without the local cache.
pub fn backup_nocache(h: &RepoHandle, src: &MemSource, opts: &BackupOptions, snap: SnapshotFile) -> RusticResult<SnapshotFile> {
    let repo = h.open_nocache()?.to_indexed_ids()?;
    repo.archive(opts, src, snap, &[PathBuf::from(SRC_ROOT)])
}

/// `check_errors` without the local cache.
pub fn check_errors_nocache(h: &RepoHandle, read_data: bool) -> Option<usize> {
    let repo = h.open_nocache().ok()?;
    let opts = CheckOptions::default().read_data(read_data);
    let res = repo.check(opts).ok()?;
    Some(res.0.iter().filter(|(l, _)| format!("{l:?}") == "Error").count())
}

/// One entry of an in-memory source tree.  `path` is relative to the source root, components are raw bytes.
#[derive(Clone, Debug)]
pub enum SrcKind {
    File(Vec<u8>),
    Dir,
    Symlink(Vec<u8>),
}

#[derive(Clone, Debug)]
pub struct SrcEntry {
    pub path: Vec<Vec<u8>>,
    pub kind: SrcKind,
    pub mode: u32,
    pub mtime_s: i64,
    pub ctime_s: i64,
    pub inode: u64,
    pub links: u64,
}

impl SrcEntry {
    pub fn file(path: &[&[u8]], content: &[u8]) -> Self {
        Self { path: path.iter().map(|c| c.to_vec()).collect(), kind: SrcKind::File(content.to_vec()), mode: 0o644, mtime_s: 1_600_000_000, ctime_s: 1_600_000_000, inode: 0, links: 1 }
    }
    pub fn dir(path: &[&[u8]]) -> Self {
        Self { path: path.iter().map(|c| c.to_vec()).collect(), kind: SrcKind::Dir, mode: 0o755, mtime_s: 1_600_000_000, ctime_s: 1_600_000_000, inode: 0, links: 1 }
    }
}

/// An in-memory `ReadSource`.  Entries are emitted in walk order (directories before their content, siblings
/// sorted by raw name) under the root `/src`; missing parent directories are synthesised.
#[derive(Clone, Debug, Default)]
pub struct MemSource {
    pub entries: Vec<SrcEntry>,
}

pub const SRC_ROOT: &str = "/src";

fn ts(secs: i64) -> rustic_core::jiff::Timestamp {
    rustic_core::jiff::Timestamp::from_second(secs).unwrap()
}

impl MemSource {
    pub fn new(mut entries: Vec<SrcEntry>) -> Self {
        // synthesise parents
        let mut have: BTreeSet<Vec<Vec<u8>>> = entries.iter().map(|e| e.path.clone()).collect();
        let mut extra = Vec::new();
        for e in &entries {
            for k in 1..e.path.len() {
                let p = e.path[..k].to_vec();
                if have.insert(p.clone()) {
                    extra.push(SrcEntry { path: p, kind: SrcKind::Dir, mode: 0o755, mtime_s: 1_600_000_000, ctime_s: 1_600_000_000, inode: 0, links: 1 });
                }
            }
        }
        entries.extend(extra);
        entries.sort_by(|a, b| a.path.cmp(&b.path));
        Self { entries }
    }
    pub fn path_of(e: &SrcEntry) -> PathBuf {
        let mut p = PathBuf::from(SRC_ROOT);
        for c in &e.path {
            p.push(OsString::from_vec(c.clone()));
        }
        p
    }
    pub fn node_of(e: &SrcEntry) -> Node {
        let size = match &e.kind {
            SrcKind::File(c) => c.len() as u64,
            _ => 0,
        };
        let meta = Metadata {
            mode: Some(e.mode),
            mtime: Some(ts(e.mtime_s)),
            atime: Some(ts(e.mtime_s)),
            ctime: Some(ts(e.ctime_s)),
            uid: Some(1000),
            gid: Some(1000),
            user: None,
            group: None,
            inode: e.inode,
            device_id: 1,
            size,
            links: e.links,
            extended_attributes: vec![],
        };
        let name = OsString::from_vec(e.path.last().cloned().unwrap_or_default());
        let nt = match &e.kind {
            SrcKind::File(_) => NodeType::File,
            SrcKind::Dir => NodeType::Dir,
            SrcKind::Symlink(t) => NodeType::from_link(&PathBuf::from(OsString::from_vec(t.clone()))),
        };
        Node::new_node(&name, nt, meta)
    }
}

impl ReadSource for MemSource {
    type Open = Cursor<Vec<u8>>;
    type Iter = std::vec::IntoIter<RusticResult<ReadSourceEntry<Self::Open>>>;
    fn size(&self) -> RusticResult<Option<u64>> {
        Ok(None)
    }
    fn entries(&self) -> Self::Iter {
        let mut v = Vec::new();
        // the root directory itself
        let root = SrcEntry { path: vec![], kind: SrcKind::Dir, mode: 0o755, mtime_s: 1_600_000_000, ctime_s: 1_600_000_000, inode: 0, links: 1 };
        let mut rn = Self::node_of(&root);
        rn.name = "src".into();
        v.push(Ok(ReadSourceEntry { path: PathBuf::from(SRC_ROOT), node: rn, open: None }));
        for e in &self.entries {
            let open = match &e.kind {
                SrcKind::File(c) => Some(Cursor::new(c.clone())),
                _ => None,
            };
            v.push(Ok(ReadSourceEntry { path: Self::path_of(e), node: Self::node_of(e), open }));
        }
        v.into_iter()
    }
}

/// Back up an in-memory source; the repository is re-opened and indexed (ids only) for the run.
pub fn backup(h: &RepoHandle, src: &MemSource, opts: &BackupOptions, snap: SnapshotFile) -> RusticResult<SnapshotFile> {
    let repo = h.open()?.to_indexed_ids()?;
    repo.archive(opts, src, snap, &[PathBuf::from(SRC_ROOT)])
}

/// One entry of a snapshot read back through `ls` + `dump`.
#[derive(Clone, Debug, PartialEq, Eq)]
pub struct ReadBack {
    pub path: Vec<u8>,
    pub kind: String,
    pub content: Option<Vec<u8>>,
    pub link: Option<Vec<u8>>,
    pub mode: Option<u32>,
    pub mtime_s: Option<i64>,
}

pub fn read_back<S: IndexedFull>(repo: &Repository<S>, snap: &SnapshotFile) -> RusticResult<Vec<ReadBack>> {
    use std::os::unix::ffi::OsStrExt;
    let root = repo.node_from_snapshot_path(&format!("{}", snap.id), |_| true).or_else(|_| {
        // fall back: build the root node from the tree id
        Ok::<_, Box<RusticError>>(Node::new_node(std::ffi::OsStr::new(""), NodeType::Dir, Metadata::default()))
    })?;
    let mut root = root;
    if root.subtree.is_none() {
        root.subtree = Some(snap.tree);
    }
    let mut out = Vec::new();
    for item in repo.ls(&root, &LsOptions::default())? {
        let (path, node) = item?;
        let mut content = None;
        let mut link = None;
        let kind = match &node.node_type {
            NodeType::File => {
                let mut buf = Vec::new();
                repo.dump(&node, &mut buf)?;
                content = Some(buf);
                "file"
            }
            NodeType::Dir => "dir",
            NodeType::Symlink { .. } => {
                link = Some(node.node_type.to_link().as_os_str().as_bytes().to_vec());
                "symlink"
            }
            _ => "other",
        };
        out.push(ReadBack {
            path: path.as_os_str().as_bytes().to_vec(),
            kind: kind.to_string(),
            content,
            link,
            mode: node.meta.mode,
            mtime_s: node.meta.mtime.map(|t| t.as_second()),
        });
    }
    Ok(out)
}

/// What a `MemSource` should read back as (same shape as `read_back`, paths relative to the snapshot root).
pub fn expected(src: &MemSource) -> Vec<ReadBack> {
    use std::os::unix::ffi::OsStrExt;
    let mut out = vec![];
    for e in &src.entries {
        let mut p = PathBuf::from("src");
        for c in &e.path {
            p.push(OsString::from_vec(c.clone()));
        }
        let (kind, content, link) = match &e.kind {
            SrcKind::File(c) => ("file", Some(c.clone()), None),
            SrcKind::Dir => ("dir", None, None),
            SrcKind::Symlink(t) => ("symlink", None, Some(t.clone())),
        };
        out.push(ReadBack { path: p.as_os_str().as_bytes().to_vec(), kind: kind.into(), content, link, mode: Some(e.mode), mtime_s: Some(e.mtime_s) });
    }
    out
}

/// Number of check findings of level Error (None = the check command itself failed).
pub fn check_errors(h: &RepoHandle, read_data: bool) -> Option<usize> {
    let repo = h.open().ok()?;
    let opts = CheckOptions::default().read_data(read_data);
    let res = repo.check(opts).ok()?;
    Some(res.0.iter().filter(|(l, _)| format!("{l:?}") == "Error").count())
}

// ---------------------------------------------------------------------------------------------------------
// Added for C18/C15 (backwards compatible): a repository has exactly ONE config file whatever id it is
// written under (like the local / OpenDAL backends, whose config path ignores the id).  `MemBackend` keys
// every file by (type, id), so a changed config would appear as a second config file; this wrapper maps
// every config id to the null id.  The op log of the wrapped `MemBackend` still records every call.

#[derive(Clone, Debug)]
pub struct OneConfigBackend(pub MemBackend);

fn norm_cfg(tpe: FileType, id: &Id) -> Id {
    if tpe == FileType::Config { Id::default() } else { *id }
}

impl ReadBackend for OneConfigBackend {
    fn location(&self) -> String {
        self.0.location()
    }
    fn list_with_size(&self, tpe: FileType) -> RusticResult<Vec<(Id, u32)>> {
        self.0.list_with_size(tpe)
    }
    fn read_full(&self, tpe: FileType, id: &Id) -> RusticResult<Bytes> {
        self.0.read_full(tpe, &norm_cfg(tpe, id))
    }
    fn read_partial(&self, tpe: FileType, id: &Id, cacheable: bool, offset: u32, length: u32) -> RusticResult<Bytes> {
        self.0.read_partial(tpe, &norm_cfg(tpe, id), cacheable, offset, length)
    }
    fn warmup_path(&self, tpe: FileType, id: &Id) -> String {
        self.0.warmup_path(tpe, id)
    }
    fn needs_warm_up(&self) -> bool {
        self.0.needs_warm_up()
    }
    fn warm_up(&self, tpe: FileType, id: &Id) -> RusticResult<()> {
        self.0.warm_up(tpe, id)
    }
}

impl WriteBackend for OneConfigBackend {
    fn create(&self) -> RusticResult<()> {
        self.0.create()
    }
    fn write_bytes(&self, tpe: FileType, id: &Id, cacheable: bool, content: BytesList) -> RusticResult<()> {
        self.0.write_bytes(tpe, &norm_cfg(tpe, id), cacheable, content)
    }
    fn remove(&self, tpe: FileType, id: &Id, cacheable: bool) -> RusticResult<()> {
        self.0.remove(tpe, &norm_cfg(tpe, id), cacheable)
    }
}

impl RepoHandle {
    /// like `backends`, but with the single-config-file behaviour of real backends (see `OneConfigBackend`)
    pub fn backends_oc(&self) -> RepositoryBackends {
        RepositoryBackends::new(
            Arc::new(OneConfigBackend(self.be.clone())),
            self.hot.clone().map(|h| Arc::new(OneConfigBackend(h)) as Arc<dyn WriteBackend>),
        )
    }
    pub fn init_oc(be: MemBackend, hot: Option<MemBackend>, cfg: &ConfigOptions) -> RusticResult<(Self, Repository<OpenStatus>)> {
        let key = MasterKey::new();
        let h = Self { be, hot, key };
        let repo = Repository::new(&Self::default_opts(), &h.backends_oc())?;
        let repo = repo.init(&Credentials::Masterkey(h.key.clone()), &KeyOptions::default(), cfg)?;
        Ok((h, repo))
    }
    pub fn open_oc(&self) -> RusticResult<Repository<OpenStatus>> {
        Repository::new(&Self::default_opts(), &self.backends_oc())?.open(&Credentials::Masterkey(self.key.clone()))
    }
}

impl RepoHandle {
    /// Repository options without the local cache (every cached repository leaves a directory under
    /// ~/.cache/rustic; repositories sharing a repository id would even share it).
    pub fn opts_nc() -> RepositoryOptions {
        RepositoryOptions::default().no_cache(true)
    }
    /// `open` without local cache.
    pub fn open_nc(&self) -> RusticResult<Repository<OpenStatus>> {
        self.open_with(&Self::opts_nc())
    }
    /// `init` without local cache.
    pub fn init_nc(be: MemBackend, hot: Option<MemBackend>, cfg: &ConfigOptions) -> RusticResult<(Self, Repository<OpenStatus>)> {
        let key = MasterKey::new();
        let h = Self { be, hot, key };
        let repo = Repository::new(&Self::opts_nc(), &h.backends())?;
        let repo = repo.init(&Credentials::Masterkey(h.key.clone()), &KeyOptions::default(), cfg)?;
        Ok((h, repo))
    }
}

/// Like `check_errors`, but returns the variant names of the findings of level Error (sorted).
pub fn check_error_kinds(h: &RepoHandle, read_data: bool) -> Option<Vec<String>> {
    let repo = h.open_nc().ok()?;
    let opts = CheckOptions::default().read_data(read_data);
    let res = repo.check(opts).ok()?;
    let mut v: Vec<String> = res
        .0
        .iter()
        .filter(|(l, _)| format!("{l:?}") == "Error")
        .map(|(_, e)| {
            let d = format!("{e:?}");
            d.split(|c: char| !c.is_alphanumeric()).next().unwrap_or("?").to_string()
        })
        .collect();
    v.sort();
    Some(v)
}
