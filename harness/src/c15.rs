//! C15 — append-only and dry-run: recorded storage traffic (`MemBackend` op logs) of the real public
//! repository operations vs. the Lean command table (`Model/CommandTable.lean`).
//!
//!   c15 ao <cmd,cmd,…>            = `c15 aox plain <cmd,…>`
//!   c15 aox <setup> <cmd,cmd,…>   a sequence of commands on a repository that holds two snapshots and was then marked
//!                                 append-only (`apply_config(set_append_only = true)`).  setup:
//!                                   plain  one in-memory store          hc     hot/cold pair (two stores, both recorded)
//!                                   dmg    plain, every data pack lost and the index repaired BEFORE the flag was set
//!                                          (both snapshots need repair: `repair snapshots` has real work)
//!                                   hcdmg  the same on a hot/cold pair
//!   c15 hnd <setup> <cmd,cmd,…>   the same history on ONE open handle where the API allows it: every `config.*` token is applied
//!                                 to a handle that stays open, and the next command runs on THAT handle (its in-memory
//!                                 config is what every guard reads); after a non-config command (which consumes the handle:
//!                                 `to_indexed…(self)`) a fresh handle is opened.  Same expectation as `aox`: a config change
//!                                 that is refused — by the append-only guard or by a validation inside `ConfigOptions::apply`,
//!                                 tokens `config.<ao0|ao1|tg>.x<option>` — must leave the handle's config as it was.
//!   c15 dry <damage> <cmd>        one command with its dry-run flag on a NOT append-only repository
//!   c15 dryt <damage> <cmd>       the same, and afterwards the NON-dry twin of the command on the same repository: the
//!                                 observation carries what the twin wrote / removed, i.e. the dry-run oracle was meaningful
//!                                 damage: none | index | pack | dmg | hc | hcdmg | hcpack | hcindex | hcmiss | hcmissp
//!                                   index   one index file removed         pack    the largest (data) pack removed
//!                                   hcmiss  hot store lost a snapshot and an index file      hcmissp  hot store lost a tree pack
//! backup tokens `backup[.<source kind>][.dry].<new|same>` — EVERY source kind x the dry-run flag on and off:
//!   (none)  `Repository::archive` with the harness' in-memory `ReadSource`
//!   local   `Repository::backup` (commands/backup.rs `backup()`) of a directory on disk (`LocalSource`)
//!   cmd     `Repository::backup` of source `-` with `stdin_command` set (`echo` / `printf`: `ChildStdoutSource`); a non-dry
//!           `local` / `cmd` backup must read back to the directory's files / the command's output
//!   (`backup -` WITHOUT a command reads the process' standard input, which is this harness' op stream — not drivable
//!   in-process; in `backup()` it shares the cloned options with the command form: `Model/CommandSteps.lean`.)
//! observation `ao/aox`: `ok <cmd>=<result>:<kinds>,…`; kinds = sorted set of w.<type> / r.<type> seen by the backend(s)
//! (`-` = no write and no removal; both stores of a hot/cold pair are merged).  On damaged setups the observation is
//! coarse: `<cmd>=refused|ran:<kinds without w.snapshot>` (how much a command repairs / whether a read fails depends on
//! which snapshot an earlier backup healed; the property does not).
//! observation `dry`: `ok <cmd>=<kinds>`;  `dryt`: `ok <cmd>=<kinds> twin=<kinds of the non-dry twin>`.
//! Direct oracles (independent of the table): while the repository is append-only every snapshot / index / pack file
//! that existed before a command still exists with identical bytes after it IN EVERY STORE; a command refused with
//! AppendOnly (and the refused `delete_snapshots` part of `merge --delete`) issued no storage operation; a dry-run
//! leaves every store byte-identical and its op log empty of applied operations; read-only operations (check, restore,
//! prune_plan, prepare_restore, the accessor / listing batch `readonly`) issue no write and no removal.
use crate::repo::{LogOp, MemBackend, MemSource, RepoHandle, SrcEntry, SrcKind, Store, ft_name};
use crate::util::{Rng, Stats, errkind, guarded};
use rustic_core::repofile::{FileType, Node, SnapshotFile};
use rustic_core::{
    BackupOptions, CheckOptions, CommandInput, ConfigOptions, Credentials, KeyOptions, LocalDestination, LsOptions, OpenStatus, PathList, PruneOptions,
    RepairIndexOptions, RepairSnapshotsOptions, Repository, RestoreOptions, RewriteOptions, RewriteTreesOptions, RusticResult, StringList,
};
use std::collections::BTreeSet;
use std::path::PathBuf;
use std::str::FromStr;

fn source(variant: u32) -> MemSource {
    let mut entries = vec![SrcEntry::dir(&[b"d"])];
    let a: Vec<u8> = (0..3000u32).map(|i| (i.wrapping_mul(2654435761).wrapping_add(variant) >> 7) as u8).collect();
    entries.push(SrcEntry::file(&[b"common"], b"the same in every version"));
    entries.push(SrcEntry::file(&[b"d", b"data"], &a));
    entries.push(SrcEntry::file(&[format!("only{variant}").as_bytes()], format!("version {variant}").as_bytes()));
    MemSource::new(entries)
}

/// chunk size of the `big*` repositories and their single file of `> MAX_COUNT` pairwise different chunks
const BIG_CHUNK: usize = 64;
fn big_source() -> MemSource {
    let n = rustic_core::verif::indexer::MAX_COUNT + 150;
    let mut content = Vec::with_capacity(n * BIG_CHUNK);
    for i in 0..n {
        let mut chunk = [0u8; BIG_CHUNK];
        chunk[..8].copy_from_slice(&(i as u64).to_le_bytes());
        content.extend_from_slice(&chunk);
    }
    MemSource::new(vec![SrcEntry::file(&[b"big"], &content), SrcEntry::file(&[b"small"], b"a small file")])
}

fn do_backup(h: &RepoHandle, src: &MemSource, dry: bool) -> RusticResult<SnapshotFile> {
    do_backup_on(h.open_oc()?, src, dry)
}

fn do_backup_on(repo: Repository<OpenStatus>, src: &MemSource, dry: bool) -> RusticResult<SnapshotFile> {
    let repo = repo.to_indexed_ids()?;
    let opts = BackupOptions::default().dry_run(dry);
    repo.archive(&opts, src, SnapshotFile::default(), &[PathBuf::from(crate::repo::SRC_ROOT)])
}

/// the name of the single file of a stdin backup (the CLI's default of `--stdin-filename`)
const STDIN_NAME: &str = "stdin";

/// a harmless command (it does not read its standard input) and what it prints
fn stdin_command(variant: u32) -> (CommandInput, Vec<u8>) {
    let text = format!("output of the stdin command, version {variant}: {}", "0123456789 ".repeat((variant % 7) as usize * 40));
    if variant % 2 == 0 {
        (CommandInput::from(vec!["echo".to_string(), text.clone()]), format!("{text}\n").into_bytes())
    } else {
        (CommandInput::from(vec!["printf".to_string(), "%s".to_string(), text.clone()]), text.into_bytes())
    }
}

/// `Repository::backup` (commands/backup.rs `backup()`) from source `-` with `stdin_command` set; returns the snapshot and
/// the file contents it must read back to
fn do_backup_cmd(repo: Repository<OpenStatus>, variant: u32, dry: bool) -> RusticResult<(SnapshotFile, Vec<Vec<u8>>)> {
    let repo = repo.to_indexed_ids()?;
    let (command, output) = stdin_command(variant);
    let opts = BackupOptions::default().dry_run(dry).stdin_filename(STDIN_NAME).stdin_command(command);
    let snap = repo.backup(&opts, &PathList::from_string("-")?, SnapshotFile::default())?;
    Ok((snap, vec![output]))
}

/// `Repository::backup` of a directory on disk holding the files of `source(variant)` (`LocalSource`)
fn do_backup_local(repo: Repository<OpenStatus>, variant: u32, dry: bool) -> RusticResult<(SnapshotFile, Vec<Vec<u8>>)> {
    use std::os::unix::ffi::OsStringExt;
    let tmp = tempfile::tempdir().expect("tempdir");
    let root = tmp.path().join("src");
    std::fs::create_dir_all(&root).expect("mkdir");
    let mut contents = Vec::new();
    for e in &source(variant).entries {
        let mut p = root.clone();
        for c in &e.path {
            p.push(std::ffi::OsString::from_vec(c.clone()));
        }
        match &e.kind {
            SrcKind::Dir => std::fs::create_dir_all(&p).expect("mkdir"),
            SrcKind::File(c) => {
                std::fs::write(&p, c).expect("write");
                contents.push(c.clone());
            }
            SrcKind::Symlink(t) => std::os::unix::fs::symlink(std::ffi::OsString::from_vec(t.clone()), &p).expect("symlink"),
        }
    }
    contents.sort();
    let repo = repo.to_indexed_ids()?;
    let opts = BackupOptions::default().dry_run(dry);
    let paths = PathList::from_string(root.to_str().expect("utf-8 temp path"))?.sanitize().expect("sanitize");
    let snap = repo.backup(&opts, &paths, SnapshotFile::default())?;
    Ok((snap, contents))
}

/// a non-dry backup through `Repository::backup` returned `snap`: the snapshot file exists and its files read back to `contents`
fn backup_reads_back(h: &RepoHandle, snap: &SnapshotFile, contents: &[Vec<u8>]) -> Result<(), String> {
    if h.be.get(FileType::Snapshot, &snap.id).is_none() {
        return Err("backup-returned-a-snapshot-that-is-not-stored".into());
    }
    let repo = h.open_oc().and_then(|r| r.to_indexed()).map_err(|e| format!("backup-read-back-{}", errkind(&e)))?;
    let rb = crate::repo::read_back(&repo, snap).map_err(|e| format!("backup-read-back-{}", errkind(&e)))?;
    let mut got: Vec<Vec<u8>> = rb.into_iter().filter_map(|e| e.content).collect();
    got.sort();
    if got != contents { Err("backup-reads-back-differently".into()) } else { Ok(()) }
}

/// the mutating calls seen by every store of the repository (cold first, then hot)
fn logs(h: &RepoHandle) -> Vec<LogOp> {
    let mut v = h.be.log();
    if let Some(hot) = &h.hot {
        v.extend(hot.log());
    }
    v
}

fn clear_logs(h: &RepoHandle) {
    h.be.clear_log();
    if let Some(hot) = &h.hot {
        hot.clear_log();
    }
}

fn stores(h: &RepoHandle) -> Vec<(&'static str, Store)> {
    let mut v = vec![("cold", h.be.store())];
    if let Some(hot) = &h.hot {
        v.push(("hot", hot.store()));
    }
    v
}

fn kinds(h: &RepoHandle) -> String {
    let set: BTreeSet<String> = logs(h).iter().map(|o| format!("{}.{}", if o.write { "w" } else { "r" }, ft_name(o.tpe))).collect();
    if set.is_empty() { "-".into() } else { set.into_iter().collect::<Vec<_>>().join("+") }
}

fn protected(store: &Store) -> Vec<((u8, rustic_core::Id), bytes::Bytes)> {
    // snapshot (3), index (1), pack (4) files
    store.iter().filter(|((t, _), _)| matches!(*t, 1 | 3 | 4)).map(|(k, v)| (*k, v.clone())).collect()
}

struct Ctx {
    h: RepoHandle,
    n_backup: u32,
    last_src: u32,
    added_key: Option<rustic_core::repofile::KeyId>,
    /// an oracle that tripped inside a command (reported instead of the observation)
    oracle: Option<String>,
    /// `hnd`: config changes are applied to a handle that stays open; the next command runs on it
    one_handle: bool,
    live: Option<Repository<OpenStatus>>,
    /// the in-memory config of a handle changed although `apply_config` refused: reported at the end of the sequence unless a
    /// later command trips a storage oracle first (then the removal itself is the failing observation)
    soft: Option<String>,
}

fn res_str<T>(r: &RusticResult<T>) -> String {
    match r {
        Ok(_) => "ok".into(),
        Err(e) => errkind(e),
    }
}

/// the accessor / listing / reading methods of `Repository` (the reviewed read-only list next to the command table)
fn read_only_batch(repo: Repository<OpenStatus>) -> RusticResult<()> {
    use rustic_core::repofile::SnapshotId;
    let _ = repo.config_id()?;
    let _ = repo.infos_files()?;
    let _ = repo.infos_index()?;
    let _ = repo.config().append_only;
    let _ = repo.key_id().is_some();
    let _ = repo.key();
    let ids: Vec<SnapshotId> = repo.list::<SnapshotId>()?.collect();
    let snaps = repo.get_all_snapshots()?;
    let snaps = repo.update_all_snapshots(snaps)?;
    repo.warm_up(ids.iter().copied())?;
    if let Some(s) = snaps.first() {
        let hex = s.id.to_hex();
        let _ = repo.get_snapshots(&[hex.as_str()])?;
        let _ = repo.get_snapshot_from_str("latest", |_| true)?;
        let _ = repo.cat_file(FileType::Snapshot, hex.as_str())?;
        let _: Vec<SnapshotId> = repo.find_ids::<SnapshotId, _>(&[hex.as_str()])?.collect();
        let _ = repo.get_file::<SnapshotFile>(&s.id)?;
    }
    let _ = repo.relevant_copy_snapshots(|_| true, &snaps)?;
    let repo = repo.to_indexed()?;
    for s in &snaps {
        let tree = repo.get_tree(&s.tree)?;
        let _ = repo.cat_tree(s.id.to_hex().as_str(), |_| true)?;
        let _ = repo.cat_blob(rustic_core::repofile::BlobType::Tree, s.tree.to_hex().as_str())?;
        let _ = repo.get_index_entry(&s.tree)?;
        let root = repo.node_from_snapshot_path(&format!("{}", s.id), |_| true)?;
        for item in repo.ls(&root, &LsOptions::default())? {
            let (_, node) = item?;
            if node.is_file() {
                let of = repo.open_file(&node)?;
                let _ = repo.read_file_at(&of, 1, 10)?;
                let mut sink = Vec::new();
                repo.dump(&node, &mut sink)?;
            }
        }
        // only snapshots of the in-memory source (root `/src`) hold that path; a stdin / local-directory snapshot answers "not found"
        let by_path = repo.node_from_path(s.tree, std::path::Path::new("src/common"));
        if s.paths.contains(crate::repo::SRC_ROOT) {
            let _ = by_path?;
        }
        drop(tree);
    }
    let _ = repo.drop_index();
    Ok(())
}

/// `prepare_restore` of the latest snapshot into a fresh temporary directory
fn restore_plan(repo: Repository<OpenStatus>, dry: bool) -> RusticResult<()> {
    let repo = repo.to_indexed()?;
    let mut snaps = repo.get_all_snapshots()?;
    snaps.sort();
    let Some(s) = snaps.last() else { return Ok(()) };
    let node = repo.node_from_snapshot_path(&format!("{}", s.id), |_| true)?;
    let ls = repo.ls(&node, &LsOptions::default())?;
    let tmp = tempfile::tempdir().expect("tempdir");
    let dest = LocalDestination::new(tmp.path().join("out").to_str().unwrap(), true, !node.is_dir())?;
    let _plan = repo.prepare_restore(&RestoreOptions::default(), ls, &dest, dry)?;
    Ok(())
}

/// run one command token `<name>[.<flag>]*`; the flag `dry` sets the dry-run flag where the command has one
fn run_cmd(cx: &mut Ctx, cmd: &str) -> Option<String> {
    let h = cx.h.clone();
    // `hnd`: the handle the preceding config changes were applied to (its in-memory config is what the guards read)
    let mut live = cx.live.take();
    let mut open = || match live.take() {
        Some(r) => Ok(r),
        None => h.open_oc(),
    };
    let parts: Vec<&str> = cmd.split('.').collect();
    let has = |f: &str| parts[1..].contains(&f);
    let dry = has("dry");
    Some(match parts[0] {
        "backup" => {
            let v = if has("new") {
                cx.n_backup += 1;
                cx.last_src = 100 + cx.n_backup;
                cx.last_src
            } else {
                cx.last_src
            };
            if parts[1..].iter().any(|f| !matches!(*f, "cmd" | "local" | "dry" | "new" | "same")) || (has("cmd") && has("local")) || has("new") == has("same") {
                return None;
            }
            if has("cmd") || has("local") {
                // the general entry `Repository::backup`, which builds the source (and the options for `archive`) itself
                let r = open().and_then(|repo| if has("cmd") { do_backup_cmd(repo, v, dry) } else { do_backup_local(repo, v, dry) });
                if let (Ok((snap, contents)), false) = (&r, dry) {
                    // contents deduplicated against a lost pack cannot be read (damage `pack`): only a command's output is
                    // always new to the repository
                    match backup_reads_back(&h, snap, contents) {
                        Err(e) if has("cmd") || e == "backup-reads-back-differently" => cx.oracle = Some(e),
                        _ => {}
                    }
                }
                res_str(&r)
            } else {
                res_str(&open().and_then(|repo| do_backup_on(repo, &source(v), dry)))
            }
        }
        "forget" => {
            let r = open().and_then(|repo| {
                let mut snaps = repo.get_all_snapshots()?;
                snaps.sort();
                let ids: Vec<_> = snaps.iter().take(1).map(|s| s.id).collect();
                repo.delete_snapshots(&ids)
            });
            res_str(&r)
        }
        "prune" => {
            // every option of `PruneOptions` has a flag (unknown flag = bad-op)
            let mut po = PruneOptions::default();
            po.keep_delete = jiff::Span::new();
            for f in &parts[1..] {
                match *f {
                    "instant" => po.instant_delete = true,
                    "early" => po.early_delete_index = true,
                    "all" => po.repack_all = true,
                    "fast" => po.fast_repack = true,
                    "uncomp" => po.repack_uncompressed = true,
                    "cacheable" => po.repack_cacheable_only = Some(true),
                    "noresize" => po.no_resize = true,
                    "unused0" => po.max_unused = rustic_core::LimitOption::Size(bytesize::ByteSize(0)),
                    "repackunl" => po.max_repack = rustic_core::LimitOption::Unlimited,
                    "keepdel" => po.keep_delete = jiff::Span::new().hours(24),
                    "keeppack" => po.keep_pack = jiff::Span::new().hours(24),
                    "ignore" => {}
                    _ => return None,
                }
            }
            let ignore = has("ignore");
            let r = open().and_then(|r| r.to_indexed_ids()).and_then(|repo| {
                if ignore {
                    // `ignore_snaps`: the oldest snapshot does not keep its blobs alive
                    let mut snaps = repo.get_all_snapshots()?;
                    snaps.sort();
                    po.ignore_snaps = snaps.iter().take(1).map(|s| s.id).collect();
                }
                let plan = repo.prune_plan(&po)?;
                repo.prune(&po, plan)
            });
            res_str(&r)
        }
        "prune_plan" => res_str(&open().and_then(|r| r.to_indexed_ids()).and_then(|repo| repo.prune_plan(&PruneOptions::default()))),
        "repair_index" => {
            let opts = RepairIndexOptions::default().read_all(has("readall"));
            res_str(&open().and_then(|repo| repo.repair_index(&opts, dry)))
        }
        "repair_snap" => {
            let opts = RepairSnapshotsOptions::default().delete(has("delete"));
            let r = open().and_then(|r| r.to_indexed()).and_then(|repo| {
                let snaps = repo.get_all_snapshots()?;
                repo.repair_snapshots(&opts, snaps, dry)
            });
            res_str(&r)
        }
        "rewrite" | "rewtrees" => {
            let mut opts = RewriteOptions::default();
            opts.forget = has("forget");
            opts.dry_run = dry;
            opts.modification = opts.modification.add_tags(vec![StringList::from_str(&format!("t{}", cx.n_backup)).unwrap()]);
            cx.n_backup += 1;
            if parts[0] == "rewrite" {
                let r = open().and_then(|repo| {
                    let snaps = repo.get_all_snapshots()?;
                    repo.rewrite_snapshots(snaps, &opts)
                });
                res_str(&r)
            } else {
                // `excl`: a rewrite that really changes trees (every `only<variant>` file is dropped)
                let mut topts = RewriteTreesOptions::default();
                if has("excl") {
                    topts.excludes.globs = vec!["!only*".to_string()];
                }
                let r = open().and_then(|r| r.to_indexed()).and_then(|repo| {
                    let snaps = repo.get_all_snapshots()?;
                    repo.rewrite_snapshots_and_trees(snaps, &opts, &topts)
                });
                res_str(&r)
            }
        }
        "merge" => {
            // the two oldest snapshots are merged; `delete`: like the CLI's `merge --delete` the merged snapshots are
            // removed afterwards through `delete_snapshots` (a second library call)
            let r = open().and_then(|r| r.to_indexed()).and_then(|repo| {
                let mut snaps = repo.get_all_snapshots()?;
                snaps.sort();
                snaps.truncate(2);
                let _ = repo.merge_snapshots(&snaps, &|a: &Node, b: &Node| a.meta.mtime.cmp(&b.meta.mtime), SnapshotFile::default())?;
                Ok((repo, snaps))
            });
            match r {
                Err(e) => errkind(&e),
                Ok((repo, snaps)) if has("delete") => {
                    let ids: Vec<_> = snaps.iter().map(|s| s.id).collect();
                    let n0 = logs(&h).len();
                    let r = repo.delete_snapshots(&ids);
                    if r.is_err() && logs(&h).len() != n0 {
                        cx.oracle = Some("refused-delete-touched-storage".into());
                    }
                    res_str(&r)
                }
                Ok(_) => "ok".into(),
            }
        }
        "config" => {
            let mut o = ConfigOptions::default();
            match parts.get(1).copied() {
                Some("tg") => {
                    cx.n_backup += 1;
                    o.set_treepack_growfactor = Some(100 + cx.n_backup)
                }
                Some("ev") => o.set_extra_verify = Some(false),
                Some("ao1") => o.set_append_only = Some(true),
                Some("ao0") => o.set_append_only = Some(false),
                Some("none") => {}
                _ => return None,
            }
            // `x<option>`: together with an option value that `ConfigOptions::apply` rejects (every rejectable option; the
            // first three are validated before `append_only` is assigned, the others after it)
            let huge = bytesize::ByteSize(1 << 33);
            match parts.get(2).copied() {
                None => {}
                Some("xver") => o.set_version = Some(3),
                Some("xchunk") => o.set_chunk_size = Some(bytesize::ByteSize(3000)),
                Some("xcomp") => o.set_compression = Some(100),
                Some("xtsize") => o.set_treepack_size = Some(huge),
                Some("xtlimit") => o.set_treepack_size_limit = Some(huge),
                Some("xdsize") => o.set_datapack_size = Some(huge),
                Some("xdlimit") => o.set_datapack_size_limit = Some(huge),
                Some("xminpct") => o.set_min_packsize_tolerate_percent = Some(200),
                Some("xmaxpct") => o.set_max_packsize_tolerate_percent = Some(50),
                _ => return None,
            }
            if parts.len() > 3 {
                return None;
            }
            match open() {
                Err(e) => errkind(&e),
                Ok(mut repo) => {
                    let before = repo.config().clone();
                    let r = repo.apply_config(&o);
                    // a refused change leaves the handle's effective (in-memory) configuration as it was
                    if r.is_err() && *repo.config() != before {
                        let what = if before.append_only != repo.config().append_only { "-append-only" } else { "" };
                        cx.soft.get_or_insert(format!("refused-config-change-altered-handle-config{what}-{cmd}"));
                    }
                    if cx.one_handle {
                        cx.live = Some(repo);
                    }
                    res_str(&r)
                }
            }
        }
        "key" => match parts.get(1).copied() {
            Some("add") => {
                let opts = KeyOptions::default();
                let r = open().and_then(|repo| repo.add_key("pw", &opts));
                if let Ok(id) = &r {
                    cx.added_key = Some(*id);
                }
                res_str(&r)
            }
            Some("del") => match cx.added_key.take() {
                Some(id) => res_str(&open().and_then(|repo| repo.delete_key(&id))),
                None => "skip".into(),
            },
            _ => return None,
        },
        "check" => res_str(&open().and_then(|repo| repo.check(CheckOptions::default().read_data(true)))),
        "restore" if has("plan") => res_str(&open().and_then(|repo| restore_plan(repo, dry))),
        "restore" => {
            let r = open().and_then(|r| r.to_indexed()).and_then(|repo| {
                let snaps = repo.get_all_snapshots()?;
                for s in &snaps {
                    let _ = crate::repo::read_back(&repo, s)?;
                }
                Ok(())
            });
            res_str(&r)
        }
        "readonly" => res_str(&open().and_then(read_only_batch)),
        "hotcold" => {
            if has("packs") {
                res_str(&open().and_then(|repo| repo.repair_hotcold_packs(dry)))
            } else {
                res_str(&open().and_then(|repo| repo.repair_hotcold_except_packs(dry)))
            }
        }
        "copy" => {
            // this repository is the destination of a copy from a second repository
            let r = (|| {
                let (h2, _) = RepoHandle::init_oc(MemBackend::new(), None, &ConfigOptions::default())?;
                cx.n_backup += 1;
                let sn = do_backup(&h2, &source(500 + cx.n_backup), false)?;
                let src = h2.open_oc()?.to_indexed()?;
                let dst = open()?.to_indexed_ids()?;
                src.copy(&dst, [&sn])
            })();
            res_str(&r)
        }
        // `init` over the existing repository (refused: a config file exists)
        "init" => res_str(
            &Repository::new(&RepoHandle::default_opts(), &h.backends_oc())
                .and_then(|r| r.init(&Credentials::Masterkey(h.key.clone()), &KeyOptions::default(), &ConfigOptions::default())),
        ),
        // `init_with_config` over the existing repository with the same master key and the current config minus the
        // append-only flag: NOT guarded — the config file is replaced
        "reinit" => {
            let r = open().and_then(|repo| {
                let mut cfg = repo.config().clone();
                cfg.append_only = None;
                Repository::new(&RepoHandle::default_opts(), &h.backends_oc())?.init_with_config(
                    &Credentials::Masterkey(h.key.clone()),
                    &KeyOptions::default(),
                    cfg,
                )
            });
            res_str(&r)
        }
        "init_hot" => res_str(&open().and_then(|repo| repo.init_hot())),
        _ => return None,
    })
}

fn is_read_only(cmd: &str) -> bool {
    matches!(cmd.split('.').next(), Some("check" | "restore" | "readonly" | "prune_plan"))
}

fn data_packs(h: &RepoHandle) -> RusticResult<Vec<rustic_core::Id>> {
    let repo = h.open_oc()?;
    let tree: BTreeSet<rustic_core::Id> = rustic_core::verif::repair_hotcold::tree_packs(&repo)?.into_iter().map(|p| *p).collect();
    Ok(h.be.ids(FileType::Pack).into_iter().filter(|id| !tree.contains(id)).collect())
}

/// two backups on a fresh repository (`hot`: a hot/cold pair), then the damage
fn setup(hot: bool, damage: &str) -> Result<Ctx, String> {
    let hot_be = hot.then(|| MemBackend::named("hot"));
    let big = damage.starts_with("big");
    let cfg = if big {
        // tiny fixed-size chunks: many blobs from little data (more than the indexer holds before it saves on its own)
        ConfigOptions::default()
            .set_chunker(rustic_core::repofile::Chunker::FixedSize)
            .set_chunk_size(bytesize::ByteSize(BIG_CHUNK as u64))
            .set_compression(0)
            .set_extra_verify(false)
    } else {
        ConfigOptions::default()
    };
    let (h, _) = RepoHandle::init_oc(MemBackend::named("cold"), hot_be, &cfg).map_err(|e| format!("{}@setup", errkind(&e)))?;
    if big {
        do_backup(&h, &big_source(), false).map_err(|e| format!("{}@setup-big", errkind(&e)))?;
        let blobs = h.open_oc().and_then(|r| r.infos_index()).map_err(|e| format!("{}@setup-big", errkind(&e)))?;
        let n: u64 = blobs.blobs.iter().map(|b| b.count).sum();
        if n < rustic_core::verif::indexer::MAX_COUNT as u64 {
            return Err(format!("setup-big-too-few-blobs-{n}"));
        }
    } else {
        do_backup(&h, &source(1), false).map_err(|e| format!("{}@setup", errkind(&e)))?;
        do_backup(&h, &source(2), false).map_err(|e| format!("{}@setup", errkind(&e)))?;
    }
    let both = |f: &dyn Fn(&MemBackend)| {
        f(&h.be);
        if let Some(x) = &h.hot {
            f(x);
        }
    };
    match damage {
        "none" => {}
        "index" => {
            if let Some(id) = h.be.ids(FileType::Index).first().copied() {
                both(&|b| b.del_raw(FileType::Index, &id));
            }
        }
        "pack" => {
            // the largest pack is a data pack (data packs live in the cold store only)
            let mut packs: Vec<_> = h.be.ids(FileType::Pack).into_iter().map(|id| (h.be.get(FileType::Pack, &id).map_or(0, |b| b.len()), id)).collect();
            packs.sort();
            if let Some((_, id)) = packs.last() {
                h.be.del_raw(FileType::Pack, id);
            }
        }
        "dmg" => {
            // every data pack is lost; `repair index` (the repository is not append-only yet) drops them from the index:
            // every file content of both snapshots is now missing -> both snapshots need `repair snapshots`
            for id in data_packs(&h).map_err(|e| format!("{}@setup-dmg", errkind(&e)))? {
                h.be.del_raw(FileType::Pack, &id);
            }
            h.open_oc().and_then(|repo| repo.repair_index(&RepairIndexOptions::default(), false)).map_err(|e| format!("{}@setup-dmg", errkind(&e)))?;
        }
        "big" => {}
        "bigindex" => {
            // every index file is lost: `repair index` re-reads every pack header
            for id in h.be.ids(FileType::Index) {
                both(&|b| b.del_raw(FileType::Index, &id));
            }
        }
        "orph" => {
            // an interrupted third backup: its packs are stored, its index file(s) and snapshot are not — pack files that
            // no index file lists ("unindexed" / orphan packs)
            let idx0: BTreeSet<_> = h.be.ids(FileType::Index).into_iter().collect();
            let packs0: BTreeSet<_> = h.be.ids(FileType::Pack).into_iter().collect();
            let sn = do_backup(&h, &source(3), false).map_err(|e| format!("{}@setup-orph", errkind(&e)))?;
            for id in h.be.ids(FileType::Index) {
                if !idx0.contains(&id) {
                    both(&|b| b.del_raw(FileType::Index, &id));
                }
            }
            both(&|b| b.del_raw(FileType::Snapshot, &sn.id));
            if h.be.ids(FileType::Pack).into_iter().filter(|id| !packs0.contains(id)).count() < 2 {
                return Err("setup-orph-no-orphan-packs".into());
            }
        }
        "hcmiss" => {
            let hot = h.hot.as_ref().ok_or("bad-op")?;
            for t in [FileType::Snapshot, FileType::Index] {
                if let Some(id) = hot.ids(t).first().copied() {
                    hot.del_raw(t, &id);
                }
            }
        }
        "hcmissp" => {
            let hot = h.hot.as_ref().ok_or("bad-op")?;
            if let Some(id) = hot.ids(FileType::Pack).first().copied() {
                hot.del_raw(FileType::Pack, &id);
            }
        }
        _ => return Err("bad-op".into()),
    }
    Ok(Ctx { h, n_backup: 0, last_src: 2, added_key: None, oracle: None, one_handle: false, live: None, soft: None })
}

fn idx_of(t: u8) -> usize {
    crate::repo::FILE_TYPES.iter().position(|ft| crate::repo::ft_idx(*ft) == t).unwrap_or(0)
}

/// coarse result on damaged setups (the same mapping is applied by the Lean driver to the table's expectation)
fn coarse_result(cmd: &str, res: &str) -> &'static str {
    // `prune` = prune_plan + prune: on a damaged repository the (read-only) plan may fail before the guard is reached
    let prune_err = cmd.split('.').next() == Some("prune") && res.starts_with("err:");
    if res == "err:AppendOnly" || ((cmd == "forget" || cmd == "merge.delete") && res == "err:Repository") || prune_err { "refused" } else { "ran" }
}

fn drop_kinds(k: &str, drop: &[&str]) -> String {
    let v: Vec<&str> = k.split('+').filter(|x| *x != "-" && !drop.contains(x)).collect();
    if v.is_empty() { "-".to_string() } else { v.join("+") }
}

fn exec_ao(setup_kind: &str, seq: &str, one_handle: bool) -> String {
    let (hot, damaged, dmg) = match setup_kind {
        "plain" => (false, false, "none"),
        "hc" => (true, false, "none"),
        "dmg" => (false, true, "dmg"),
        "hcdmg" => (true, true, "dmg"),
        // orphan packs (in no index file) next to the two snapshots: exact observation, like plain / hc
        "orph" => (false, false, "orph"),
        "hcorph" => (true, false, "orph"),
        _ => return "bad-op".into(),
    };
    let mut cx = match setup(hot, dmg) {
        Ok(c) => c,
        Err(e) => return e,
    };
    let mut o = ConfigOptions::default();
    o.set_append_only = Some(true);
    if let Err(e) = cx.h.open_oc().and_then(|mut r| r.apply_config(&o)) {
        return format!("{}@set-append-only", errkind(&e));
    }
    cx.one_handle = one_handle;
    let mut out = Vec::new();
    for cmd in seq.split(',') {
        let append_only = match cx.h.open_oc() {
            Ok(r) => r.config().append_only == Some(true),
            Err(e) => return format!("{}@open", errkind(&e)),
        };
        let before = stores(&cx.h);
        clear_logs(&cx.h);
        let Some(res) = run_cmd(&mut cx, cmd) else { return "bad-op".into() };
        if let Some(o) = cx.oracle.take() {
            return format!("oracle-fail:{o}-{cmd}");
        }
        let k = kinds(&cx.h);
        let after = stores(&cx.h);
        if append_only {
            for ((name, b), (_, a)) in before.iter().zip(after.iter()) {
                for (key, bytes) in protected(b) {
                    let t = ft_name(crate::repo::FILE_TYPES[idx_of(key.0)]);
                    match a.get(&key) {
                        None => return format!("oracle-fail:append-only-removed-{t}-by-{cmd}@{name}"),
                        Some(x) if *x != bytes => return format!("oracle-fail:append-only-replaced-{t}-by-{cmd}@{name}"),
                        _ => {}
                    }
                }
            }
            if res.starts_with("err:AppendOnly") && k != "-" {
                return format!("oracle-fail:refused-after-touching-storage-{cmd}");
            }
        }
        let is_dry = cmd.split('.').any(|f| f == "dry");
        if is_dry && before != after {
            return format!("oracle-fail:dry-run-changed-the-store-{cmd}");
        }
        if is_read_only(cmd) && k != "-" {
            return format!("oracle-fail:read-only-operation-wrote-{cmd}");
        }
        // appending data (packs, index files) is always allowed: for commands without dry-run flag only removals and
        // writes of config / key / snapshot files are part of the observation; while the repository is not append-only
        // prune / repair index / repair snapshots --delete are state dependent (`*`)
        let first = cmd.split('.').next().unwrap_or("");
        let unpredictable = matches!(first, "prune" | "repair_index") || cmd.starts_with("repair_snap.delete");
        let exact = if is_dry { k.clone() } else { drop_kinds(&k, &["w.pack", "w.index"]) };
        if damaged {
            if !append_only && !(first == "config" || first == "reinit") {
                out.push(format!("{cmd}=*:*"));
            } else {
                out.push(format!("{cmd}={}:{}", coarse_result(cmd, &res), drop_kinds(&exact, &["w.snapshot"])));
            }
        } else {
            let shown = if !append_only && unpredictable { "*".to_string() } else { exact };
            out.push(format!("{cmd}={res}:{shown}"));
        }
    }
    if let Some(o) = cx.soft.take() {
        return format!("oracle-fail:{o}");
    }
    format!("ok {}", out.join(","))
}

fn exec_dry(damage: &str, cmd: &str, twin: bool) -> String {
    let (hot, dmg) = match damage {
        "hc" => (true, "none"),
        "hcdmg" => (true, "dmg"),
        "hcmiss" | "hcmissp" => (true, damage),
        "hcpack" => (true, "pack"),
        "hcindex" => (true, "index"),
        "hcbig" => (true, "big"),
        "hcbigindex" => (true, "bigindex"),
        d => (false, d),
    };
    let mut cx = match setup(hot, dmg) {
        Ok(c) => c,
        Err(e) => return e,
    };
    let before = stores(&cx.h);
    clear_logs(&cx.h);
    let Some(res) = run_cmd(&mut cx, cmd) else { return "bad-op".into() };
    let k = kinds(&cx.h);
    if stores(&cx.h) != before {
        return format!("oracle-fail:dry-run-changed-the-store-{cmd}");
    }
    if let Some(o) = cx.oracle.take() {
        return format!("oracle-fail:{o}-{cmd}");
    }
    let _ = res; // a dry run may fail on a damaged repository; the property is about storage operations only
    if !twin {
        return format!("ok {cmd}={k}");
    }
    // the non-dry twin on the same (unchanged) repository: what the dry run would have done
    let Some(twin_cmd) = cmd.strip_suffix(".dry").map(str::to_string).or_else(|| cmd.contains(".dry.").then(|| cmd.replacen(".dry", "", 1))) else {
        return "bad-op".into();
    };
    clear_logs(&cx.h);
    // the twin uses the same tag / source numbering as the dry run did
    cx.n_backup = 0;
    cx.last_src = 2;
    let Some(tres) = run_cmd(&mut cx, &twin_cmd) else { return "bad-op".into() };
    if let Some(o) = cx.oracle.take() {
        return format!("oracle-fail:{o}-{twin_cmd}");
    }
    let tk = kinds(&cx.h);
    // how many packs / index files a backup appends depends on what is already stored
    let tk = if twin_cmd.starts_with("backup") { drop_kinds(&tk, &["w.pack", "w.index"]) } else { tk };
    format!("ok {cmd}={k} twin={tres}:{tk}")
}

pub fn exec(toks: &[&str]) -> String {
    let owned: Vec<String> = toks.iter().map(|s| s.to_string()).collect();
    guarded(move || match (owned.first().map(String::as_str), owned.len()) {
        (Some("ao"), 2) => exec_ao("plain", &owned[1], false),
        (Some("aox"), 3) => exec_ao(&owned[1], &owned[2], false),
        (Some("hnd"), 3) => exec_ao(&owned[1], &owned[2], true),
        (Some("dry"), 3) => exec_dry(&owned[1], &owned[2], false),
        (Some("dryt"), 3) => exec_dry(&owned[1], &owned[2], true),
        _ => "bad-op".into(),
    })
}

pub const AO_CMDS: [&str; 62] = [
    // backup through `Repository::backup`: from a stdin command and from a directory on disk, dry-run flag on and off
    "backup.cmd.new", "backup.cmd.same", "backup.cmd.dry.new", "backup.cmd.dry.same", "backup.local.new", "backup.local.same",
    "backup.local.dry.new", "backup.local.dry.same",
    // prune with every option of `PruneOptions` (instant_delete, early_delete_index, repack_all, fast_repack, repack_uncompressed,
    // repack_cacheable_only, no_resize, max_unused, max_repack, keep_delete, keep_pack; `ignore_snaps`: PRUNE_AO_ONLY)
    "prune.early", "prune.instant.early", "prune.instant.all", "prune.fast", "prune.uncomp", "prune.cacheable", "prune.noresize",
    "prune.unused0.repackunl", "prune.keepdel.keeppack", "prune.instant.early.all.unused0",
    "backup.new", "backup.same", "backup.dry.new", "forget", "prune", "prune.instant", "prune.all", "prune_plan", "repair_index",
    "repair_index.dry", "repair_index.readall", "repair_snap.delete", "repair_snap.delete.dry", "repair_snap.keep", "repair_snap.keep.dry",
    "rewrite.forget", "rewrite.forget.dry", "rewrite.keep", "rewrite.keep.dry", "rewtrees.forget", "rewtrees.keep", "rewtrees.keep.dry",
    "config.tg", "config.ev", "config.ao1", "config.none", "check", "restore", "hotcold", "hotcold.packs.dry",
    // added: merge (with and without deleting the merged snapshots), tree rewrites that change trees, read-only batch,
    // restore planning with its dry-run flag, (re-)initialisation over the existing repository, hot/cold repair
    "merge", "merge.delete", "rewtrees.forget.excl", "rewtrees.keep.excl", "rewtrees.forget.excl.dry", "rewtrees.keep.excl.dry", "readonly",
    "restore.plan", "restore.plan.dry", "init", "init_hot", "hotcold.dry", "hotcold.packs", "key.del",
];
/// every prune token (the first 13 are also in AO_CMDS)
pub const PRUNE_CMDS: [&str; 14] = [
    "prune", "prune.instant", "prune.all", "prune.early", "prune.instant.early", "prune.instant.all", "prune.fast", "prune.uncomp",
    "prune.cacheable", "prune.noresize", "prune.unused0.repackunl", "prune.keepdel.keeppack", "prune.instant.early.all.unused0",
    // `ignore_snaps` makes a snapshot's blobs unused: only run where the repository is (still) append-only
    "prune.instant.ignore",
];
/// expensive (scrypt) or state-resetting tokens: chosen rarely
pub const RARE_CMDS: [&str; 2] = ["key.add", "reinit"];
pub const DRY_CMDS: [&str; 12] = [
    "backup.cmd.dry.new", "backup.cmd.dry.same", "backup.local.dry.new", "backup.local.dry.same",
    "backup.dry.new", "backup.dry.same", "repair_index.dry", "repair_index.readall.dry", "repair_snap.delete.dry", "repair_snap.keep.dry",
    "rewrite.forget.dry", "rewtrees.forget.dry",
];
/// every dry-run flag on a repository where the non-dry twin has work to do: (damage, dry command)
pub const DRY_TWINS: [(&str, &str); 50] = [
    // every backup source kind (`Repository::backup`: stdin command, local directory) on plain, hot/cold and damaged repositories
    ("none", "backup.cmd.dry.new"), ("none", "backup.cmd.dry.same"), ("hc", "backup.cmd.dry.new"), ("hc", "backup.cmd.dry.same"),
    ("dmg", "backup.cmd.dry.new"), ("hcdmg", "backup.cmd.dry.same"),
    ("none", "backup.local.dry.new"), ("none", "backup.local.dry.same"), ("hc", "backup.local.dry.new"),
    ("hc", "backup.local.dry.same"), ("dmg", "backup.local.dry.new"),
    // more blobs than the indexer holds before it saves an index file on its own (`Indexer::add_with`: MAX_COUNT)
    ("big", "repair_index.readall.dry"), ("bigindex", "repair_index.dry"), ("hcbigindex", "repair_index.readall.dry"),
    ("none", "backup.dry.new"), ("none", "backup.dry.same"), ("none", "rewrite.forget.dry"), ("none", "rewrite.keep.dry"),
    ("none", "rewtrees.forget.dry"), ("none", "rewtrees.keep.dry"), ("none", "rewtrees.forget.excl.dry"), ("none", "rewtrees.keep.excl.dry"),
    ("none", "restore.plan.dry"),
    ("pack", "repair_index.dry"), ("pack", "repair_index.readall.dry"), ("index", "repair_index.dry"), ("index", "repair_index.readall.dry"),
    ("dmg", "repair_snap.delete.dry"), ("dmg", "repair_snap.keep.dry"), ("dmg", "backup.dry.same"),
    ("hc", "backup.dry.new"), ("hc", "backup.dry.same"), ("hc", "rewrite.forget.dry"), ("hc", "rewrite.keep.dry"),
    ("hc", "rewtrees.forget.excl.dry"), ("hc", "rewtrees.keep.excl.dry"), ("hc", "hotcold.dry"), ("hc", "hotcold.packs.dry"),
    ("hc", "restore.plan.dry"),
    ("hcdmg", "repair_snap.delete.dry"), ("hcdmg", "repair_snap.keep.dry"), ("hcpack", "repair_index.dry"), ("hcindex", "repair_index.dry"),
    ("hcmiss", "hotcold.dry"), ("hcmissp", "hotcold.packs.dry"), ("hcmissp", "hotcold.dry"),
    ("none", "hotcold.dry"), ("none", "hotcold.packs.dry"), ("none", "repair_index.dry"), ("none", "repair_snap.delete.dry"),
];

/// option values `ConfigOptions::apply` rejects: the first three are validated BEFORE `append_only` is assigned, the others after
pub const REJECTED_OPTS: [&str; 9] = ["xver", "xchunk", "xcomp", "xtsize", "xtlimit", "xdsize", "xdlimit", "xminpct", "xmaxpct"];
/// every command with an append-only guard (plus the CLI's `merge --delete`)
pub const DESTRUCTIVE: [&str; 11] = [
    "forget", "prune", "prune.instant", "repair_index", "repair_snap.delete", "rewrite.forget", "rewtrees.forget", "rewtrees.forget.excl",
    "merge.delete", "config.tg", "repair_snap.delete.dry",
];

fn rejected_cfg(rng: &mut Rng) -> String {
    format!("config.{}.{}", rng.pick(&["ao0", "ao0", "ao1", "tg"]), rng.pick(&REJECTED_OPTS))
}

pub fn generate(thorough: bool, rng: &mut Rng, ops: &mut Vec<String>, stats: &mut Stats) {
    // ONE handle: append-only repository -> refused `apply_config` (valid `set_append_only(false)` + an option rejected inside
    // `ConfigOptions::apply`, every rejectable option) -> each destructive command on the SAME handle: still refused, nothing
    // removed.  Plain setup: every option x every command; the other setups: every command with two options each.
    for setup in ["plain", "hc", "dmg", "hcdmg"] {
        for (i, c) in DESTRUCTIVE.iter().enumerate() {
            let opts: Vec<&str> = if setup == "plain" || thorough {
                REJECTED_OPTS.to_vec()
            } else {
                vec![REJECTED_OPTS[3 + (i + setup.len()) % 6], *rng.pick(&REJECTED_OPTS)]
            };
            for x in opts {
                ops.push(format!("c15 hnd {setup} config.ao0.{x},{c}"));
                stats.hit(format!("op.hnd-rejected-then-destructive.{setup}"));
            }
        }
        // the guard comes before the validation; a rejected change on a handle that is NOT append-only keeps it that way
        // (and a rejected `set_append_only(true)` does not arm the guards of the handle)
        for x in REJECTED_OPTS {
            ops.push(format!("c15 hnd {setup} config.ao1.{x},config.tg.{x},config.ao0,config.ao1.{x},forget,config.ao0.{x},config.tg.{x},config.tg"));
            ops.push(format!("c15 aox {setup} config.ao0.{x},forget,config.ao0,config.tg.{x},forget"));
            stats.hit(format!("op.rejected-config.{setup}"));
        }
        // accepted changes on one handle: the handle's guards follow (off: allowed; on again: refused)
        for c in ["forget", "prune", "rewrite.forget", "merge.delete"] {
            ops.push(format!("c15 hnd {setup} config.ao0,{c}"));
            ops.push(format!("c15 hnd {setup} config.ao0,config.ao1,{c}"));
            ops.push(format!("c15 hnd {setup} config.ao0,config.ao1,config.ao0.xminpct,{c},config.ao0,{c}"));
            stats.hit(format!("op.hnd-accepted.{setup}"));
        }
    }
    // repositories holding pack files that no index file lists (an interrupted backup): every prune option on the append-only
    // repository (refused, nothing removed — in particular not the unindexed packs), after a rejected config change on one
    // handle, and the allowed / re-armed paths
    for setup in ["orph", "hcorph"] {
        for (i, c) in PRUNE_CMDS.iter().enumerate() {
            ops.push(format!("c15 aox {setup} {c}"));
            ops.push(format!("c15 hnd {setup} config.ao0.{},{c},{}", REJECTED_OPTS[i % 9], rng.pick(&PRUNE_CMDS)));
            if !c.contains("ignore") && (thorough || setup == "orph" || i % 3 == 0) {
                ops.push(format!("c15 aox {setup} config.ao0,{c}"));
                ops.push(format!("c15 aox {setup} config.ao0,config.ao1,{c},prune.instant"));
            }
            stats.hit(format!("op.orphan-packs-prune.{setup}"));
        }
        for c in ["repair_index", "repair_index.dry", "repair_index.readall.dry", "repair_snap.delete", "forget", "check", "prune_plan", "hotcold.packs"] {
            ops.push(format!("c15 aox {setup} {c},prune.instant.early"));
            stats.hit(format!("op.orphan-packs-other.{setup}"));
        }
    }
    for setup in ["plain", "hc", "dmg", "hcdmg"] {
        ops.push(format!("c15 aox {setup} prune.instant.ignore,{}", rng.pick(&PRUNE_CMDS)));
    }
    // random one-handle histories: runs of config changes (accepted, refused by the guard, rejected by validation), each
    // followed by a command on the same handle
    for i in 0..(if thorough { 1500 } else { 120 }) {
        let setup = ["plain", "orph", "hc", "dmg", "plain", "hcdmg", "plain", "hcorph", "hc", "dmg", "plain", "hcdmg"][i % 12];
        let mut seq: Vec<String> = Vec::new();
        let mut forgets = 0;
        for _ in 0..rng.range(1, 4) {
            for _ in 0..rng.range(1, 3) {
                seq.push(match rng.below(8) {
                    0 => "config.ao0".to_string(),
                    1 => "config.ao1".to_string(),
                    2 => rng.pick(&["config.tg", "config.ev", "config.none"]).to_string(),
                    _ => rejected_cfg(rng),
                });
            }
            let c = if rng.chance(2, 3) { *rng.pick(&DESTRUCTIVE) } else { *rng.pick(&AO_CMDS) };
            let c = if c.contains(".keep") && !c.contains("repair") && !c.contains(".dry") { "merge" } else { c };
            let c = if c == "forget" {
                forgets += 1;
                if forgets > 2 { "prune" } else { c }
            } else {
                c
            };
            seq.push(c.to_string());
        }
        ops.push(format!("c15 hnd {setup} {}", seq.join(",")));
        stats.hit(format!("op.hnd-seq.{setup}"));
    }
    // backup from every source kind x the dry-run flag on and off (the dry run first, then the real one from the same source,
    // then everything is read back), on append-only repositories and — one handle — on disarmed ones
    for setup in ["plain", "hc", "dmg", "hcdmg", "orph"] {
        for k in ["", ".cmd", ".local"] {
            ops.push(format!("c15 aox {setup} backup{k}.dry.new,backup{k}.new,backup{k}.dry.same,backup{k}.same,restore"));
            ops.push(format!("c15 hnd {setup} config.ao0,backup{k}.dry.new,config.ao1.xver,backup{k}.dry.same,backup{k}.same,check"));
            stats.hit(format!("op.backup-source-kinds.{setup}"));
        }
    }
    // every command once on its own, right after the repository was marked append-only — on every setup
    for setup in ["plain", "hc", "dmg", "hcdmg"] {
        for c in AO_CMDS.iter().chain(RARE_CMDS.iter()).chain(["copy", "key.add,key.del"].iter()) {
            // scrypt: key.add costs ~0.5 s; once per setup in the quick tier is enough
            ops.push(format!("c15 aox {setup} {c}"));
            stats.hit(format!("op.ao-single.{setup}"));
        }
        // the allowed path of every destructive command: append-only switched off first
        for c in ["forget", "prune", "repair_index", "repair_snap.delete", "rewrite.forget", "rewtrees.forget", "rewtrees.forget.excl", "merge.delete", "config.tg"] {
            ops.push(format!("c15 aox {setup} config.ao0,{c}"));
            ops.push(format!("c15 aox {setup} config.ao0,config.ao1,{c}"));
            stats.hit(format!("op.ao-off-single.{setup}"));
        }
        ops.push(format!("c15 aox {setup} reinit,forget"));
    }
    // random sequences; append-only is switched off (and on again) inside some of them
    let n = if thorough { 6000 } else { 520 };
    for i in 0..n {
        let setup = match i % 16 {
            0 | 1 | 2 | 8 | 9 | 10 | 11 => "plain",
            3 => "orph",
            4 | 5 | 12 => "hc",
            13 => "hcorph",
            6 | 14 => "dmg",
            _ => "hcdmg",
        };
        let len = rng.range(2, 7);
        let mut seq: Vec<String> = Vec::new();
        let mut forgets = 0;
        let mut doubles = 0;
        for _ in 0..len {
            let c = match rng.below(16) {
                0 => "config.ao0".to_string(),
                1 => "config.ao1".to_string(),
                2 if forgets < 2 => {
                    forgets += 1;
                    "forget".to_string()
                }
                3 => "copy".to_string(),
                4 if rng.chance(1, if thorough { 4 } else { 8 }) => rng.pick(&RARE_CMDS).to_string(),
                5 if rng.chance(1, 2) => rejected_cfg(rng),
                _ => rng.pick(&AO_CMDS).to_string(),
            };
            // `rewrite.keep` doubles the number of snapshots: at most three per sequence
            let c = if c.contains(".keep") && !c.contains("repair") && !c.contains(".dry") {
                doubles += 1;
                if doubles > 3 { "merge".to_string() } else { c }
            } else {
                c
            };
            stats.hit(format!("cmd.{}", c.split('.').next().unwrap()));
            seq.push(c);
        }
        ops.push(format!("c15 aox {setup} {}", seq.join(",")));
        stats.hit(format!("op.ao-seq.{setup}"));
    }
    // every dry-run flag on intact and damaged repositories
    // … on a repository with more blobs than one index file holds (the indexer saves on its own while packs are re-indexed)
    ops.push("c15 dry big repair_index.dry".to_string());
    stats.hit("op.dry-big");
    if thorough {
        for (d, c) in [("hcbig", "repair_index.readall.dry"), ("bigindex", "repair_index.readall.dry"), ("big", "backup.dry.new"), ("big", "repair_snap.delete.dry")] {
            ops.push(format!("c15 dry {d} {c}"));
            stats.hit("op.dry-big");
        }
    }
    for d in ["none", "index", "pack", "dmg", "hc", "hcdmg"] {
        for c in DRY_CMDS {
            ops.push(format!("c15 dry {d} {c}"));
            stats.hit("op.dry");
        }
    }
    // … and with the non-dry twin, where the twin's work is determined by the scenario
    for (d, c) in DRY_TWINS {
        ops.push(format!("c15 dryt {d} {c}"));
        stats.hit("op.dry-with-twin");
    }
}
