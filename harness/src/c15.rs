//! C15 — append-only and dry-run: recorded storage traffic (`MemBackend` op log) of the real public
//! repository operations vs. the Lean command table (`Model/CommandTable.lean`).
//!
//!   c15 ao <cmd,cmd,…>        a sequence of commands on a repository that holds two snapshots and was then
//!                             marked append-only (`apply_config(set_append_only = true)`)
//!   c15 dry <damage> <cmd>    one command with its dry-run flag on a NOT append-only repository
//!                             (damage: none | index | pack — one index file / one data pack removed first)
//! observation: `ok <cmd>=<result>:<kinds>,…` where kinds = sorted set of w.<type> / r.<type> seen by the backend
//! (`-` = no write and no removal).
//! Direct oracles: while the repository is append-only every snapshot / index / pack file that existed before a
//! command still exists with identical bytes after it, and a refused command issued no storage operation;
//! a dry-run leaves the whole store byte-identical.
use crate::repo::{MemBackend, MemSource, RepoHandle, SrcEntry, Store, ft_name};
use crate::util::{Rng, Stats, errkind, guarded};
use rustic_core::repofile::{FileType, SnapshotFile};
use rustic_core::{
    BackupOptions, CheckOptions, ConfigOptions, KeyOptions, PruneOptions, RepairIndexOptions, RepairSnapshotsOptions,
    RewriteOptions, RusticResult, StringList,
};
use std::collections::BTreeSet;
use std::path::PathBuf;
use std::str::FromStr;

fn source(variant: u32) -> MemSource {
    let mut entries = vec![SrcEntry::dir(&[b"d"])];
    let a: Vec<u8> = (0..3000u32).map(|i| (i.wrapping_mul(2654435761).wrapping_add(variant) >> 7) as u8).collect();
    entries.push(SrcEntry::file(&[b"common"], b"the same in every version"));
    entries.push(SrcEntry::file(&[b"d", b"data"], &a));
    entries.push(SrcEntry::file(&[format!("only{variant}").as_bytes()], format!("version {variant}").as_bytes()));
    MemSource::new(entries)
}

fn do_backup(h: &RepoHandle, src: &MemSource, dry: bool) -> RusticResult<SnapshotFile> {
    let repo = h.open_oc()?.to_indexed_ids()?;
    let opts = BackupOptions::default().dry_run(dry);
    repo.archive(&opts, src, SnapshotFile::default(), &[PathBuf::from(crate::repo::SRC_ROOT)])
}

fn kinds(be: &MemBackend) -> String {
    let set: BTreeSet<String> = be.log().iter().map(|o| format!("{}.{}", if o.write { "w" } else { "r" }, ft_name(o.tpe))).collect();
    if set.is_empty() { "-".into() } else { set.into_iter().collect::<Vec<_>>().join("+") }
}

fn protected(store: &Store) -> Vec<((u8, rustic_core::Id), bytes::Bytes)> {
    // snapshot (3), index (1), pack (4) files
    store.iter().filter(|((t, _), _)| matches!(*t, 1 | 3 | 4)).map(|(k, v)| (*k, v.clone())).collect()
}

struct Ctx {
    h: RepoHandle,
    n_backup: u32,
    last_src: u32,
    added_key: Option<rustic_core::repofile::KeyId>,
}

fn res_str<T>(r: &RusticResult<T>) -> String {
    match r {
        Ok(_) => "ok".into(),
        Err(e) => errkind(e),
    }
}

/// run one command; `dry` forces the dry-run flag where the command has one
fn run_cmd(cx: &mut Ctx, cmd: &str) -> Option<String> {
    let h = cx.h.clone();
    let parts: Vec<&str> = cmd.split('.').collect();
    let has = |f: &str| parts[1..].contains(&f);
    let dry = has("dry");
    Some(match parts[0] {
        "backup" => {
            let v = if has("new") {
                cx.n_backup += 1;
                cx.last_src = 100 + cx.n_backup;
                cx.last_src
            } else {
                cx.last_src
            };
            res_str(&do_backup(&h, &source(v), dry))
        }
        "forget" => {
            let r = h.open_oc().and_then(|repo| {
                let mut snaps = repo.get_all_snapshots()?;
                snaps.sort();
                let ids: Vec<_> = snaps.iter().take(1).map(|s| s.id).collect();
                repo.delete_snapshots(&ids)
            });
            res_str(&r)
        }
        "prune" => {
            let mut po = PruneOptions::default();
            po.instant_delete = has("instant");
            po.repack_all = has("all");
            po.keep_delete = jiff::Span::new();
            let r = h.open_oc().and_then(|r| r.to_indexed_ids()).and_then(|repo| {
                let plan = repo.prune_plan(&po)?;
                repo.prune(&po, plan)
            });
            res_str(&r)
        }
        "prune_plan" => res_str(&h.open_oc().and_then(|r| r.to_indexed_ids()).and_then(|repo| repo.prune_plan(&PruneOptions::default()))),
        "repair_index" => {
            let opts = RepairIndexOptions::default().read_all(has("readall"));
            res_str(&h.open_oc().and_then(|repo| repo.repair_index(&opts, dry)))
        }
        "repair_snap" => {
            let opts = RepairSnapshotsOptions::default().delete(has("delete"));
            let r = h.open_oc().and_then(|r| r.to_indexed()).and_then(|repo| {
                let snaps = repo.get_all_snapshots()?;
                repo.repair_snapshots(&opts, snaps, dry)
            });
            res_str(&r)
        }
        "rewrite" | "rewtrees" => {
            let mut opts = RewriteOptions::default();
            opts.forget = has("forget");
            opts.dry_run = dry;
            opts.modification = opts.modification.add_tags(vec![StringList::from_str(&format!("t{}", cx.n_backup)).unwrap()]);
            cx.n_backup += 1;
            if parts[0] == "rewrite" {
                let r = h.open_oc().and_then(|repo| {
                    let snaps = repo.get_all_snapshots()?;
                    repo.rewrite_snapshots(snaps, &opts)
                });
                res_str(&r)
            } else {
                let r = h.open_oc().and_then(|r| r.to_indexed()).and_then(|repo| {
                    let snaps = repo.get_all_snapshots()?;
                    repo.rewrite_snapshots_and_trees(snaps, &opts, &Default::default())
                });
                res_str(&r)
            }
        }
        "config" => {
            let mut o = ConfigOptions::default();
            match parts.get(1).copied() {
                Some("tg") => {
                    cx.n_backup += 1;
                    o.set_treepack_growfactor = Some(100 + cx.n_backup)
                }
                Some("ev") => o.set_extra_verify = Some(false),
                Some("ao1") => o.set_append_only = Some(true),
                Some("ao0") => o.set_append_only = Some(false),
                Some("none") => {}
                _ => return None,
            }
            res_str(&h.open_oc().and_then(|mut repo| repo.apply_config(&o)))
        }
        "key" => match parts.get(1).copied() {
            Some("add") => {
                let opts = KeyOptions::default();
                let r = h.open_oc().and_then(|repo| repo.add_key("pw", &opts));
                if let Ok(id) = &r {
                    cx.added_key = Some(*id);
                }
                res_str(&r)
            }
            Some("del") => match cx.added_key.take() {
                Some(id) => res_str(&h.open_oc().and_then(|repo| repo.delete_key(&id))),
                None => "skip".into(),
            },
            _ => return None,
        },
        "check" => res_str(&h.open_oc().and_then(|repo| repo.check(CheckOptions::default().read_data(true)))),
        "restore" => {
            let r = h.open_oc().and_then(|r| r.to_indexed()).and_then(|repo| {
                let snaps = repo.get_all_snapshots()?;
                for s in &snaps {
                    let _ = crate::repo::read_back(&repo, s)?;
                }
                Ok(())
            });
            res_str(&r)
        }
        "hotcold" => {
            if has("packs") {
                res_str(&h.open_oc().and_then(|repo| repo.repair_hotcold_packs(dry)))
            } else {
                res_str(&h.open_oc().and_then(|repo| repo.repair_hotcold_except_packs(dry)))
            }
        }
        "copy" => {
            // this repository is the destination of a copy from a second repository
            let r = (|| {
                let (h2, _) = RepoHandle::init_oc(MemBackend::new(), None, &ConfigOptions::default())?;
                cx.n_backup += 1;
                let sn = do_backup(&h2, &source(500 + cx.n_backup), false)?;
                let src = h2.open_oc()?.to_indexed()?;
                let dst = h.open_oc()?.to_indexed_ids()?;
                src.copy(&dst, [&sn])
            })();
            res_str(&r)
        }
        _ => return None,
    })
}

fn setup() -> RusticResult<Ctx> {
    let (h, _) = RepoHandle::init_oc(MemBackend::new(), None, &ConfigOptions::default())?;
    do_backup(&h, &source(1), false)?;
    do_backup(&h, &source(2), false)?;
    Ok(Ctx { h, n_backup: 0, last_src: 2, added_key: None })
}

fn exec_ao(seq: &str) -> String {
    let mut cx = match setup() {
        Ok(c) => c,
        Err(e) => return format!("{}@setup", errkind(&e)),
    };
    let mut o = ConfigOptions::default();
    o.set_append_only = Some(true);
    if let Err(e) = cx.h.open_oc().and_then(|mut r| r.apply_config(&o)) {
        return format!("{}@set-append-only", errkind(&e));
    }
    let mut out = Vec::new();
    for cmd in seq.split(',') {
        let append_only = match cx.h.open_oc() {
            Ok(r) => r.config().append_only == Some(true),
            Err(e) => return format!("{}@open", errkind(&e)),
        };
        let before = cx.h.be.store();
        cx.h.be.clear_log();
        let Some(res) = run_cmd(&mut cx, cmd) else { return "bad-op".into() };
        let k = kinds(&cx.h.be);
        let after = cx.h.be.store();
        if append_only {
            for (key, bytes) in protected(&before) {
                match after.get(&key) {
                    None => return format!("oracle-fail:append-only-removed-{}-by-{cmd}", ft_name(crate::repo::FILE_TYPES[idx_of(key.0)])),
                    Some(b) if *b != bytes => return format!("oracle-fail:append-only-replaced-{}-by-{cmd}", ft_name(crate::repo::FILE_TYPES[idx_of(key.0)])),
                    _ => {}
                }
            }
            if res.starts_with("err:AppendOnly") && k != "-" {
                return format!("oracle-fail:refused-after-touching-storage-{cmd}");
            }
        }
        // appending data (packs, index files) is always allowed: for commands without dry-run flag only removals and
        // writes of config / key / snapshot files are part of the observation; while the repository is not append-only
        // the property is silent (only `forget` and `config.*` are predictable enough to be compared)
        let is_dry = cmd.split('.').any(|f| f == "dry");
        let shown = if !append_only && !(cmd == "forget" || cmd.starts_with("config")) {
            "*".to_string()
        } else if is_dry {
            k.clone()
        } else {
            let v: Vec<&str> = k.split('+').filter(|x| *x != "w.pack" && *x != "w.index" && *x != "-").collect();
            if v.is_empty() { "-".to_string() } else { v.join("+") }
        };
        out.push(format!("{cmd}={res}:{shown}"));
    }
    format!("ok {}", out.join(","))
}

fn idx_of(t: u8) -> usize {
    crate::repo::FILE_TYPES.iter().position(|ft| crate::repo::ft_idx(*ft) == t).unwrap_or(0)
}

fn exec_dry(damage: &str, cmd: &str) -> String {
    let mut cx = match setup() {
        Ok(c) => c,
        Err(e) => return format!("{}@setup", errkind(&e)),
    };
    match damage {
        "none" => {}
        "index" => {
            if let Some(id) = cx.h.be.ids(FileType::Index).first() {
                cx.h.be.del_raw(FileType::Index, id);
            }
        }
        "pack" => {
            // the largest pack is a data pack
            let mut packs: Vec<_> = cx.h.be.ids(FileType::Pack).into_iter().map(|id| (cx.h.be.get(FileType::Pack, &id).map_or(0, |b| b.len()), id)).collect();
            packs.sort();
            if let Some((_, id)) = packs.last() {
                cx.h.be.del_raw(FileType::Pack, id);
            }
        }
        _ => return "bad-op".into(),
    }
    let before = cx.h.be.store();
    cx.h.be.clear_log();
    let Some(res) = run_cmd(&mut cx, cmd) else { return "bad-op".into() };
    let k = kinds(&cx.h.be);
    if cx.h.be.store() != before {
        return format!("oracle-fail:dry-run-changed-the-store-{cmd}");
    }
    let _ = res; // a dry run may fail on a damaged repository; the property is about storage operations only
    format!("ok {cmd}={k}")
}

pub fn exec(toks: &[&str]) -> String {
    let owned: Vec<String> = toks.iter().map(|s| s.to_string()).collect();
    guarded(move || match (owned.first().map(String::as_str), owned.len()) {
        (Some("ao"), 2) => exec_ao(&owned[1]),
        (Some("dry"), 3) => exec_dry(&owned[1], &owned[2]),
        _ => "bad-op".into(),
    })
}

pub const AO_CMDS: [&str; 30] = [
    "backup.new", "backup.same", "backup.dry.new", "forget", "prune", "prune.instant", "prune.all", "prune_plan", "repair_index",
    "repair_index.dry", "repair_index.readall", "repair_snap.delete", "repair_snap.delete.dry", "repair_snap.keep", "repair_snap.keep.dry",
    "rewrite.forget", "rewrite.forget.dry", "rewrite.keep", "rewrite.keep.dry", "rewtrees.forget", "rewtrees.keep", "rewtrees.keep.dry",
    "config.tg", "config.ev", "config.ao1", "config.none", "check", "restore", "hotcold", "hotcold.packs.dry",
];
pub const DRY_CMDS: [&str; 8] = [
    "backup.dry.new", "backup.dry.same", "repair_index.dry", "repair_index.readall.dry", "repair_snap.delete.dry", "repair_snap.keep.dry",
    "rewrite.forget.dry", "rewtrees.forget.dry",
];

pub fn generate(thorough: bool, rng: &mut Rng, ops: &mut Vec<String>, stats: &mut Stats) {
    // every command once on its own, right after the repository was marked append-only
    for c in AO_CMDS {
        ops.push(format!("c15 ao {c}"));
        stats.hit("op.ao-single");
    }
    ops.push("c15 ao copy".into());
    ops.push("c15 ao config.ao0,forget".into());
    // random sequences; append-only is switched off (and on again) inside some of them
    let n = if thorough { 6000 } else { 500 };
    for _ in 0..n {
        let len = rng.range(2, 7);
        let mut seq: Vec<String> = Vec::new();
        let mut forgets = 0;
        for _ in 0..len {
            let c = match rng.below(14) {
                0 => "config.ao0".to_string(),
                1 => "config.ao1".to_string(),
                2 if forgets < 2 => {
                    forgets += 1;
                    "forget".to_string()
                }
                3 => "copy".to_string(),
                _ => rng.pick(&AO_CMDS).to_string(),
            };
            stats.hit(format!("cmd.{}", c.split('.').next().unwrap()));
            seq.push(c);
        }
        ops.push(format!("c15 ao {}", seq.join(",")));
        stats.hit("op.ao-seq");
    }
    // every dry-run flag on intact and damaged repositories
    for d in ["none", "index", "pack"] {
        for c in DRY_CMDS {
            ops.push(format!("c15 dry {d} {c}"));
            stats.hit("op.dry");
        }
    }
}
