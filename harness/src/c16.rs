//! C16 — hot/cold repositories keep the hot copy complete at every moment.
//!   c16 hist <step>;…      real `HotColdBackend` over two `MemBackend`s, faults at every sub-operation
//!       w,t,id,cb,data,F   d,t,id,cb,F     F = n | h (next hot mutation fails) | c (next cold mutation fails)
//!       r,t,id   p,t,id,cb,off,len   l,t   o (both stores)
//!     convention: a pack id whose first hex digit is < 8 is a tree pack (cb = 1), otherwise a data pack (cb = 0)
//!   c16 repair <t:id:cold|~:hot|~>;…   stores set up directly, then `Repository::repair_hotcold_except_packs`
//!   c16 repo <seed>        repository level on a cold-strict cold store: backup / forget / prune / check / restore /
//!                          repair-index / hot damage + repair; invariant monitor on the two stores after every command
//!   c16 repo-hist <steps> <seed>   the same with an explicit step list (`STEP_LETTERS`), incl. index damage + `repair_index`:
//!                          I all index files lost (hot and cold) · J some index files lost · u an interrupted backup (packs written,
//!                          its index files and snapshot never) · w index rewritten with wrong pack sizes / packs dropped; each followed
//!                          by the real `repair_index` (mostly without read_all) behind a spy on the cold store that records the ORDER
//!                          of warm-up requests and pack reads; first step `N` = the cold store does not need warm-up
//! Direct oracles (`oracle-fail:`): hot ⊇ cold for key/snapshot/index/tree packs with identical bytes after every
//! step incl. failed ones, no data pack in hot, repair leaves cold untouched and hot complete, commands succeed on a
//! cold store that refuses reads of packs that were not warmed up, results equal the source.
use std::collections::BTreeSet;
use std::path::PathBuf;
use std::sync::Arc;

use bytes::Bytes;
use rustic_core::repofile::{FileType, SnapshotFile};
use rustic_core::verif::decrypt::DecryptReadBackend;
use rustic_core::{
    BackupOptions, BytesList, CheckOptions, ConfigOptions, Id, PruneOptions, ReadBackend, Repository, RepositoryBackends,
    WriteBackend,
};

use super::c20::{data_of, digest};
use crate::repo::{FILE_TYPES, MemBackend, MemSource, RepoHandle, SrcEntry, Store, expected, read_back};
use crate::util::{Rng, Stats, guarded, hex};

fn tpe_of(s: &str) -> Option<FileType> {
    FILE_TYPES.get(s.parse::<usize>().ok()?).copied()
}
fn id_of(s: &str) -> Option<Id> {
    if s.len() != 64 {
        return None;
    }
    s.parse().ok()
}
fn is_tree_id(id: &Id) -> bool {
    id.to_hex().as_bytes()[0] < b'8'
}

fn store_str(s: &Store) -> String {
    let v: Vec<String> = s.iter().map(|((t, id), b)| format!("{t}/{}:{}", id.to_hex().as_str(), digest(b))).collect();
    if v.is_empty() { "-".into() } else { v.join("+") }
}

/// hot ⊇ cold on mirrored files, byte-identical; no data pack in hot.  `tree` decides which packs are tree packs.
fn monitor(hot: &Store, cold: &Store, tree: &dyn Fn(&Id) -> bool) -> Option<&'static str> {
    for ((t, id), c) in cold {
        let mirrored = matches!(*t, 1 | 2 | 3) || (*t == 4 && tree(id));
        if mirrored {
            match hot.get(&(*t, *id)) {
                None => return Some("oracle-fail:cold-file-missing-in-hot"),
                Some(h) if h != c => return Some("oracle-fail:hot-file-differs-from-cold"),
                _ => {}
            }
        }
    }
    for (t, id) in hot.keys() {
        if *t == 4 && !tree(id) {
            return Some("oracle-fail:data-pack-in-hot");
        }
    }
    None
}

fn fmt_listing(mut v: Vec<(Id, u32)>) -> String {
    v.sort();
    if v.is_empty() {
        return "-".into();
    }
    v.iter().map(|(id, n)| format!("{}:{n}", id.to_hex().as_str())).collect::<Vec<_>>().join("+")
}

fn hist(steps: &str) -> String {
    let hot = MemBackend::named("hot");
    let cold = MemBackend::named("cold");
    let hc = rustic_core::verif::hotcold::new_hotcold(cold.clone(), hot.clone());
    let mut out = Vec::new();
    let mut fail: Option<&'static str> = None;
    for s in steps.split(';') {
        let f: Vec<&str> = s.split(',').collect();
        let arm = |fl: &str| -> bool {
            match fl {
                "n" => {}
                "h" => hot.set_fail_only(Some(hot.log().len())),
                "c" => cold.set_fail_only(Some(cold.log().len())),
                _ => return false,
            }
            true
        };
        let obs: String = match f.as_slice() {
            ["w", t, id, cb, data, fl] => {
                let (Some(t), Some(id), Some(data)) = (tpe_of(t), id_of(id), data_of(data)) else { return "bad-op".into() };
                if !arm(fl) {
                    return "bad-op".into();
                }
                let r = hc.write_bytes(t, &id, *cb == "1", BytesList::from(Bytes::from(data)));
                hot.set_fail_only(None);
                cold.set_fail_only(None);
                if r.is_ok() { "ok".into() } else { "err".into() }
            }
            ["d", t, id, cb, fl] => {
                let (Some(t), Some(id)) = (tpe_of(t), id_of(id)) else { return "bad-op".into() };
                if !arm(fl) {
                    return "bad-op".into();
                }
                let r = hc.remove(t, &id, *cb == "1");
                hot.set_fail_only(None);
                cold.set_fail_only(None);
                if r.is_ok() { "ok".into() } else { "err".into() }
            }
            ["r", t, id] => {
                let (Some(t), Some(id)) = (tpe_of(t), id_of(id)) else { return "bad-op".into() };
                hc.read_full(t, &id).map_or("err".into(), |b| digest(&b))
            }
            ["p", t, id, cb, off, len] => {
                let (Some(t), Some(id), Ok(off), Ok(len)) = (tpe_of(t), id_of(id), off.parse::<u32>(), len.parse::<u32>()) else {
                    return "bad-op".into();
                };
                hc.read_partial(t, &id, *cb == "1", off, len).map_or("err".into(), |b| digest(&b))
            }
            ["l", t] => {
                let Some(t) = tpe_of(t) else { return "bad-op".into() };
                hc.list_with_size(t).map_or("err".into(), fmt_listing)
            }
            ["o"] => format!("hot[{}]cold[{}]", store_str(&hot.store()), store_str(&cold.store())),
            _ => return "bad-op".into(),
        };
        out.push(obs);
        if let Some(m) = monitor(&hot.store(), &cold.store(), &is_tree_id) {
            fail = fail.or(Some(m));
        }
    }
    if let Some(f) = fail {
        return f.into();
    }
    out.join(";")
}

fn repair(items: &str) -> String {
    let hot = MemBackend::named("hot");
    let cold = MemBackend::named("cold");
    for it in items.split(';') {
        let f: Vec<&str> = it.split(':').collect();
        let [t, id, c, h] = f.as_slice() else { return "bad-op".into() };
        let (Some(t), Some(id)) = (tpe_of(t), id_of(id)) else { return "bad-op".into() };
        if !matches!(t, FileType::Key | FileType::Snapshot | FileType::Index) {
            return "bad-op".into();
        }
        for (tok, be) in [(c, &cold), (h, &hot)] {
            if **tok != *"~" {
                let Some(d) = data_of(tok) else { return "bad-op".into() };
                be.put_raw(t, id, Bytes::from(d));
            }
        }
    }
    let cold_before = cold.store();
    let hot_before = hot.store();
    let bes = RepositoryBackends::new(Arc::new(cold.clone()), Some(Arc::new(hot.clone())));
    let Ok(repo) = Repository::new(&RepoHandle::default_opts(), &bes) else { return "err:new".into() };
    let res = repo.repair_hotcold_except_packs(false);
    let (h, c) = (hot.store(), cold.store());
    // direct oracle: cold keeps every file it had, unchanged; every cold file is in hot with the same size;
    // hot-only files have been copied to cold
    for (k, v) in &cold_before {
        if c.get(k) != Some(v) {
            return "oracle-fail:repair-changed-a-cold-file".into();
        }
    }
    for (k, v) in &c {
        match h.get(k) {
            Some(x) if x.len() == v.len() => {}
            _ => return "oracle-fail:repair-left-hot-incomplete".into(),
        }
    }
    for k in hot_before.keys() {
        if !c.contains_key(k) {
            return "oracle-fail:hot-only-file-not-copied-to-cold".into();
        }
    }
    format!("{};hot[{}]cold[{}]", if res.is_ok() { "ok" } else { "err" }, store_str(&h), store_str(&c))
}

// ------------------------------------------------------------------- repair of pack files (`repair_hotcold_packs`)

fn label_id(n: u64) -> Id {
    let mut b = [0x11u8; 32];
    b[24..32].copy_from_slice(&n.to_be_bytes());
    Id::new(b)
}

/// `c16 repairp <index files> <packs>`: a real hot/cold repository whose index files (`;`-separated, each
/// `<packs>|<packs_to_delete>`, lists `+`-separated `t<n>` / `d<n>` = pack `n` holding tree / data blobs, `-` empty) are
/// written through the repository, pack files `n:cold|~:hot|~` put into the two stores directly; then the real
/// `Repository::repair_hotcold_packs` on a cold-strict cold store.  Observation: the pack files of both stores.
fn repairp(index: &str, packs: &str) -> String {
    use rustic_core::repofile::{BlobType, IndexBlob, IndexFile, IndexPack, PackId};
    let cold = MemBackend::named("cold");
    let hot = MemBackend::named("hot");
    let Ok((h, repo)) = RepoHandle::init(cold.clone(), Some(hot.clone()), &ConfigOptions::default()) else { return "err:init".into() };
    let mut listed_tree: BTreeSet<u64> = BTreeSet::new();
    for f in index.split(';') {
        let Some((a, b)) = f.split_once('|') else { return "bad-op".into() };
        let mut lists: Vec<Vec<IndexPack>> = Vec::new();
        for l in [a, b] {
            let mut v = Vec::new();
            if l != "-" {
                for tok in l.split('+') {
                    let (Some(k), Ok(n)) = (tok.chars().next().filter(|c| *c == 't' || *c == 'd'), tok.get(1..).unwrap_or("").parse::<u64>()) else {
                        return "bad-op".into();
                    };
                    if k == 't' {
                        _ = listed_tree.insert(n);
                    }
                    let tpe = if k == 't' { BlobType::Tree } else { BlobType::Data };
                    let blob = |i: u8| {
                        let mut id = [i; 32];
                        id[8..16].copy_from_slice(&n.to_be_bytes());
                        let o = serde_json::json!({ "id": Id::new(id).to_hex().as_str(), "type": if k == 't' { "tree" } else { "data" }, "offset": u32::from(i) * 40, "length": 40 });
                        serde_json::from_value::<IndexBlob>(o).expect("index blob json")
                    };
                    let _ = tpe;
                    v.push(IndexPack { id: PackId::from(label_id(n)), blobs: vec![blob(0), blob(1)], time: None, size: None });
                }
            }
            lists.push(v);
        }
        let mut file = IndexFile::default();
        file.packs_to_delete = lists.pop().unwrap();
        file.packs = lists.pop().unwrap();
        if rustic_core::verif::repository::save_file(&repo, &file).is_err() {
            return "oracle-fail:save-index".into();
        }
    }
    let mut labels: Vec<u64> = Vec::new();
    for it in packs.split(';') {
        let f: Vec<&str> = it.split(':').collect();
        let [n, c, ht] = f.as_slice() else { return "bad-op".into() };
        let Ok(n) = n.parse::<u64>() else { return "bad-op".into() };
        if labels.contains(&n) {
            return "bad-op".into();
        }
        labels.push(n);
        for (tok, be) in [(c, &cold), (ht, &hot)] {
            if **tok != *"~" {
                let Some(d) = data_of(tok) else { return "bad-op".into() };
                be.put_raw(FileType::Pack, label_id(n), Bytes::from(d));
            }
        }
    }
    let cold_before = cold.store();
    cold.set_cold(true);
    cold.clear_log();
    let Ok(repo) = h.open() else { return "err:open".into() };
    let res = repo.repair_hotcold_packs(false);
    let (hs, cs) = (hot.store(), cold.store());
    for (k, v) in &cold_before {
        if cs.get(k) != Some(v) {
            return "oracle-fail:repair-changed-a-cold-file".into();
        }
    }
    if let Some(m) = unwarmed_cold_read(&cold) {
        return format!("{m}-during-repair-hotcold-packs");
    }
    // every tree pack the index lists — under `packs` or `packs_to_delete` — and the cold store holds is in the hot store
    for n in &listed_tree {
        if let Some(c) = cs.get(&(4, label_id(*n))) {
            match hs.get(&(4, label_id(*n))) {
                Some(x) if x.len() == c.len() => {}
                _ => return "oracle-fail:listed-tree-pack-not-recreated-in-hot".into(),
            }
        }
    }
    let show = |st: &Store| -> String {
        let mut v: Vec<String> = labels.iter().filter_map(|n| st.get(&(4, label_id(*n))).map(|b| format!("{n}:{}", digest(b)))).collect();
        v.sort();
        if v.is_empty() { "-".into() } else { v.join("+") }
    };
    format!("{};hot[{}]cold[{}]", if res.is_ok() { "ok" } else { "err" }, show(&hs), show(&cs))
}

// ---------------------------------------------------------------------------------- repository level

/// The tree packs of the repository as the COLD STORE saw them being written (`write_bytes(Pack, id, cacheable = true)`),
/// accumulated over the whole history — independent of the index files and of `get_tree_packs` (which the repair under
/// test uses itself to decide what to copy).
fn harvest_tree_packs(cold: &MemBackend, tree: &mut BTreeSet<Id>) {
    for op in cold.log() {
        if op.write && op.applied && op.tpe == FileType::Pack && op.cacheable {
            _ = tree.insert(op.id);
        }
    }
}

fn unwarmed_cold_read(cold: &MemBackend) -> Option<&'static str> {
    let g = cold.inner.lock().unwrap();
    for (t, id, _) in &g.reads {
        if *t == FileType::Pack && !g.warm_log.iter().any(|(wt, wid)| *wt == FileType::Pack && wid == id) {
            return Some("oracle-fail:cold-pack-read-without-warm-up-request");
        }
    }
    None
}

// ---------------------------------------------------------------------------------- cold-store spy

/// What the cold store sees of pack files, in order: `(true, id)` = warm-up request, `(false, id)` = read (full or partial).
type SpyLog = Arc<std::sync::Mutex<Vec<(bool, Id)>>>;

/// The cold `MemBackend` behind a wrapper recording the ORDER of warm-up requests and pack reads.
#[derive(Clone, Debug)]
struct ColdSpy {
    be: crate::repo::OneConfigBackend,
    log: SpyLog,
}

impl ReadBackend for ColdSpy {
    fn location(&self) -> String {
        self.be.location()
    }
    fn list_with_size(&self, tpe: FileType) -> rustic_core::RusticResult<Vec<(Id, u32)>> {
        self.be.list_with_size(tpe)
    }
    fn read_full(&self, tpe: FileType, id: &Id) -> rustic_core::RusticResult<Bytes> {
        if tpe == FileType::Pack {
            self.log.lock().unwrap().push((false, *id));
        }
        self.be.read_full(tpe, id)
    }
    fn read_partial(&self, tpe: FileType, id: &Id, cacheable: bool, offset: u32, length: u32) -> rustic_core::RusticResult<Bytes> {
        if tpe == FileType::Pack {
            self.log.lock().unwrap().push((false, *id));
        }
        self.be.read_partial(tpe, id, cacheable, offset, length)
    }
    fn warmup_path(&self, tpe: FileType, id: &Id) -> String {
        self.be.warmup_path(tpe, id)
    }
    fn needs_warm_up(&self) -> bool {
        self.be.needs_warm_up()
    }
    fn warm_up(&self, tpe: FileType, id: &Id) -> rustic_core::RusticResult<()> {
        if tpe == FileType::Pack {
            self.log.lock().unwrap().push((true, *id));
        }
        self.be.warm_up(tpe, id)
    }
}

impl WriteBackend for ColdSpy {
    fn create(&self) -> rustic_core::RusticResult<()> {
        self.be.create()
    }
    fn write_bytes(&self, tpe: FileType, id: &Id, cacheable: bool, content: BytesList) -> rustic_core::RusticResult<()> {
        self.be.write_bytes(tpe, id, cacheable, content)
    }
    fn remove(&self, tpe: FileType, id: &Id, cacheable: bool) -> rustic_core::RusticResult<()> {
        self.be.remove(tpe, id, cacheable)
    }
}

/// every pack read the cold store saw has a warm-up request for that pack EARLIER in the sequence
fn read_before_warm_up(log: &SpyLog) -> bool {
    let g = log.lock().unwrap();
    g.iter().enumerate().any(|(k, (warm, id))| !*warm && !g[..k].iter().any(|(w, i)| *w && i == id))
}

/// pack ids listed by the index files of the cold store (under `packs` or `packs_to_delete`), read through the repository
fn indexed_packs(h: &RepoHandle, cold: &MemBackend) -> Option<BTreeSet<Id>> {
    use rustic_core::repofile::{IndexFile, IndexId};
    let repo = h.open_oc().ok()?;
    let dbe = rustic_core::verif::repository::dbe(&repo);
    let mut out = BTreeSet::new();
    for id in cold.ids(FileType::Index) {
        let f: IndexFile = dbe.get_file(&IndexId::from(id)).ok()?;
        for p in f.packs.iter().chain(f.packs_to_delete.iter()) {
            _ = out.insert(Id::from(*p.id));
        }
    }
    Some(out)
}

/// The config files of the two stores: exactly one each, the hot one carries the `is_hot` marker, the cold one does not, and
/// apart from the marker they are equal (`save_config` + `save_config_hot`).
fn config_monitor(repo: &Repository<rustic_core::OpenStatus>, hot: &MemBackend, cold: &MemBackend) -> Option<&'static str> {
    use rustic_core::repofile::ConfigFile;
    use rustic_core::verif::decrypt::{DecryptBackend, DecryptWriteBackend};
    if hot.ids(FileType::Config).len() != 1 || cold.ids(FileType::Config).len() != 1 {
        return Some("oracle-fail:not-exactly-one-config-file-per-store");
    }
    let key = *rustic_core::verif::repository::dbe(repo).key();
    let read = |be: &MemBackend| -> Option<ConfigFile> {
        let dbe = DecryptBackend::new(Arc::new(crate::repo::OneConfigBackend(be.clone())) as Arc<dyn WriteBackend>, key);
        dbe.get_file::<ConfigFile>(&Id::default().into()).ok()
    };
    let (Some(mut hc), Some(cc)) = (read(hot), read(cold)) else { return Some("oracle-fail:config-file-unreadable") };
    if hc.is_hot != Some(true) || cc.is_hot == Some(true) {
        return Some("oracle-fail:config-is-hot-marker-wrong");
    }
    hc.is_hot = cc.is_hot;
    (hc != cc).then_some("oracle-fail:config-hot-and-cold-differ")
}

const REPO_CHUNK: usize = 4096;

/// Step letters of a repository-level history:
///   b backup · f forget all but the newest · F forget one random snapshot (never the last one) ·
///   p prune with instant_delete · m prune that only MARKS packs (default keep_delete 23h: unused / repacked packs stay in the
///   cold store, listed under `packs_to_delete`) · k prune with keep_delete = 0 (deletes marked packs) · i repair index ·
///   x a random subset of the hot files is lost, then repair hotcold (+ packs) · X the whole hot store (all but the config
///   file) is lost, then repair ·
///   index damage followed by `repair_index` (read_all in 1/3 of the cases) behind the cold-store spy:
///   I ALL index files are lost (removed from the hot and the cold store) · J a random non-empty subset of them ·
///   u an interrupted backup: its packs are in the repository, its index files and its snapshot are not ·
///   w the index is rewritten as one file in which some packs carry a wrong pack size and some are missing ·
///   N (first step only) the cold store does NOT need warm-up (reads are never refused, no warm-up oracles) ·
///   c config change through `apply_config` (treepack growfactor / extra_verify / compression + datapack growfactor / append-only
///   switched on and off again), in 1/2 of the cases with the cold or the hot config write failing first and the change retried ·
///   y `copy` of a snapshot of a second (plain, other key) repository INTO the hot/cold repository · Y `copy` of all snapshots of the
///   hot/cold repository into a fresh plain repository (the harness warms the packs up: `copy` has no warm-up of its own)
///   B backup that REPEATS a proper non-empty subset of the previous backup's non-empty files and adds new ones (after a forget the
///   older data pack is partly used, the newer one fully used) ·
///   r "resize" prune: `repack_cacheable_only(false)`, max_unused 0 %, max_repack unlimited, no repack_all — partly used data packs are
///   repacked by the first loop of `decide_repack`, fully used packs of a wrong size (all harness packs are too small) are switched to
///   Repack by its SECOND loop (`resize_packs`); oracle: every pack the plan decided to repack is in the warm-up request
const STEP_LETTERS: &str = "bfFpmkixXIJuwNcyYBr";

/// coverage counters of the prune plans seen by `exec` in this process (read by `generate` for stats.json):
/// plans of an `r` prune with a resize repack of a data pack / next to a partly-used repack of a data pack
pub static RESIZE_PLANS: std::sync::atomic::AtomicU64 = std::sync::atomic::AtomicU64::new(0);
pub static RESIZE_AND_PARTLY_PLANS: std::sync::atomic::AtomicU64 = std::sync::atomic::AtomicU64::new(0);
pub static R_PLANS: std::sync::atomic::AtomicU64 = std::sync::atomic::AtomicU64::new(0);

fn random_steps(rng: &mut Rng) -> String {
    let n = 4 + rng.below(4);
    // the first command is a backup (commands on an empty repository are covered by the later steps of other runs)
    let mut v = vec!["b"];
    for _ in 1..n {
        v.push(*rng.pick(&["b", "b", "b", "b", "f", "F", "p", "m", "m", "k", "i", "x", "X", "I", "J", "u", "w", "c", "c", "y", "y", "Y", "B", "B", "r", "r"]));
    }
    if rng.chance(1, 8) {
        v.insert(0, "N");
    }
    v.join(",")
}

pub fn repo_level(seed: u64, read_data_check: bool) -> String {
    let mut rng = Rng::new(seed);
    let steps = random_steps(&mut rng);
    if std::env::var_os("VERIF_C16_SHOW_STEPS").is_some() {
        eprintln!("c16 repo {seed}: steps {steps}");
    }
    repo_hist(&steps, rng.next(), read_data_check)
}

pub fn repo_hist(steps: &str, seed: u64, read_data_check: bool) -> String {
    let steps: Vec<char> = match steps.split(',').map(|s| s.chars().next().filter(|c| s.len() == 1 && STEP_LETTERS.contains(*c))).collect::<Option<Vec<_>>>() {
        Some(v) if !v.is_empty() => v,
        _ => return "bad-op".into(),
    };
    let mut rng = Rng::new(seed);
    let cold = MemBackend::named("cold");
    let hot = MemBackend::named("hot");
    // fixed-size chunks of 4 KiB: a 70 kB file is 18 blobs of one data pack (restore over partially matching files)
    let cfg = ConfigOptions::default().set_chunker(rustic_core::repofile::Chunker::FixedSize).set_chunk_size(bytesize::ByteSize(REPO_CHUNK as u64));
    // `_oc`: ONE config file per store whatever id it is written under (like real backends) — needed for config changes
    let Ok((h, _)) = RepoHandle::init_oc(cold.clone(), Some(hot.clone()), &cfg) else { return "err:init".into() };
    let mut tree: BTreeSet<Id> = BTreeSet::new();
    harvest_tree_packs(&cold, &mut tree);
    // from now on the cold store refuses reads of packs that were not warmed up (unless the history starts with `N`)
    let strict = steps[0] != 'N';
    if steps[1..].contains(&'N') {
        return "bad-op".into();
    }
    cold.set_cold(strict);
    let opts = RepoHandle::default_opts();
    let mut sources: Vec<(Id, MemSource)> = Vec::new();
    for (step, kind) in steps.iter().enumerate() {
        if *kind == 'N' {
            continue;
        }
        let Ok(repo) = h.open_oc() else { return format!("oracle-fail:open-step{step}") };
        let what;
        cold.clear_log();
        match kind {
            'b' | 'B' => {
                what = "backup";
                let mut entries = Vec::new();
                if *kind == 'B' {
                    // the non-empty files of the previous backup: dropped / repeated unchanged / repeated with the first chunk(s) kept and
                    // the rest replaced (same path) — so that, once the previous snapshot is forgotten, its data pack is PARTLY used
                    let prev: Vec<SrcEntry> = sources
                        .last()
                        .map(|(_, s)| s.entries.iter().filter(|e| matches!(&e.kind, crate::repo::SrcKind::File(c) if !c.is_empty())).cloned().collect())
                        .unwrap_or_default();
                    let n = prev.len();
                    let mut how: Vec<u64> = (0..n).map(|_| rng.below(4)).collect();
                    let multi = |e: &SrcEntry| matches!(&e.kind, crate::repo::SrcKind::File(c) if c.len() > REPO_CHUNK);
                    for (i, e) in prev.iter().enumerate() {
                        if how[i] >= 2 && !multi(e) {
                            how[i] = 1;
                        }
                    }
                    if n > 0 && how.iter().all(|h| *h == 0) {
                        how[0] = 1;
                    }
                    if n > 0 && how.iter().all(|h| *h == 1) {
                        // something of the previous pack must become unused
                        if let Some(i) = prev.iter().position(multi) {
                            how[i] = 2;
                        } else if n > 1 {
                            how[n - 1] = 0;
                        }
                    }
                    for (mut e, hw) in prev.into_iter().zip(how) {
                        match hw {
                            0 => continue,
                            1 => {}
                            _ => {
                                if let crate::repo::SrcKind::File(c) = &mut e.kind {
                                    let keep = REPO_CHUNK * (1 + rng.below(((c.len() - 1) / REPO_CHUNK) as u64) as usize);
                                    let tail = rng.bytes(c.len() - keep);
                                    c.truncate(keep);
                                    c.extend_from_slice(&tail);
                                }
                                e.mtime_s += 1000 + step as i64;
                                e.ctime_s = e.mtime_s;
                            }
                        }
                        entries.push(e);
                    }
                }
                for i in 0..1 + rng.below(4) {
                    let len = *rng.pick(&[0usize, 10, 3000, 9000, 70_000]);
                    let dir = format!("d{}", if rng.chance(1, 2) { i % 2 } else { step as u64 });
                    let name = if *kind == 'B' { format!("n{step}f{i}") } else { format!("f{i}") };
                    let mut e = SrcEntry::file(&[dir.as_bytes(), name.as_bytes()], &rng.bytes(len));
                    e.mtime_s += 100 * (step as i64 + 1) + i as i64;
                    e.ctime_s = e.mtime_s;
                    entries.push(e);
                }
                let src = MemSource::new(entries);
                let Ok(repo) = repo.to_indexed_ids() else { return format!("oracle-fail:index-step{step}") };
                match repo.archive(&BackupOptions::default(), &src, SnapshotFile::default(), &[PathBuf::from(crate::repo::SRC_ROOT)]) {
                    Ok(s) => sources.push((*s.id, src)),
                    Err(_) => return format!("oracle-fail:backup-step{step}"),
                }
            }
            'f' | 'F' => {
                what = "forget";
                let Ok(mut snaps) = repo.get_all_snapshots() else { return format!("oracle-fail:snapshots-step{step}") };
                snaps.sort_by_key(|s| s.time.clone());
                if snaps.len() > 1 {
                    if *kind == 'f' {
                        _ = snaps.pop();
                    } else {
                        let i = rng.below(snaps.len() as u64) as usize;
                        snaps = vec![snaps.swap_remove(i)];
                    }
                    let ids: Vec<_> = snaps.iter().map(|s| s.id).collect();
                    if repo.delete_snapshots(&ids).is_err() {
                        return format!("oracle-fail:forget-step{step}");
                    }
                    sources.retain(|(id, _)| !ids.iter().any(|x| **x == *id));
                }
            }
            'p' | 'm' | 'k' | 'r' => {
                what = match kind {
                    'p' => "prune",
                    'm' => "prune-marking",
                    'r' => "prune-resize",
                    _ => "prune-keep-delete-0",
                };
                // repack everything that can be repacked: reads data packs from the cold store
                // (on a hot/cold repository `repack_cacheable_only` defaults to true: data packs would never be repacked and
                // the cold store never read; switch it off in most runs)
                let mut popts = if *kind == 'r' {
                    // every partly used pack is repacked whatever the unused share (max_unused 0 %), no limit on the repack size, no
                    // repack_all: fully used packs are candidates only for their size (`RepackReason::SizeMismatch`) and are decided by
                    // the second loop of `decide_repack`; 1/8: no_resize (they are kept)
                    PruneOptions::default()
                        .repack_cacheable_only(false)
                        .max_unused(rustic_core::LimitOption::Percentage(0))
                        .max_repack(rustic_core::LimitOption::Unlimited)
                        .instant_delete(rng.chance(1, 2))
                        .no_resize(rng.chance(1, 8))
                } else {
                    PruneOptions::default().repack_all(rng.chance(2, 3)).instant_delete(*kind == 'p').repack_cacheable_only(!rng.chance(3, 4))
                };
                if *kind == 'k' {
                    popts.keep_delete = rustic_core::jiff::Span::new();
                }
                let Ok(plan) = repo.prune_plan(&popts) else { return format!("oracle-fail:prune-plan-step{step}") };
                // the packs the plan decided to repack (both loops of `decide_repack`), read off the finished plan
                let to_repack: Vec<Id> =
                    rustic_core::verif::prune::plan_decisions(&plan).iter().filter(|d| d.to_do == "Repack").map(|d| Id::from(*d.pack)).collect();
                if *kind == 'r' {
                    // coverage: data packs repacked although fully used (= resized) / partly used ones
                    let (mut resized, mut partly) = (0u64, 0u64);
                    for (k, v) in &plan.stats.debug.0 {
                        if format!("{:?}", k.todo) == "Repack" && format!("{:?}", k.blob_type) == "Data" {
                            if format!("{:?}", k.status).contains("HasUnusedBlobs") { partly += v.packs } else { resized += v.packs }
                        }
                    }
                    use std::sync::atomic::Ordering::Relaxed;
                    _ = R_PLANS.fetch_add(1, Relaxed);
                    _ = RESIZE_PLANS.fetch_add(u64::from(resized > 0), Relaxed);
                    _ = RESIZE_AND_PARTLY_PLANS.fetch_add(u64::from(resized > 0 && partly > 0), Relaxed);
                    if std::env::var_os("VERIF_C16_SHOW_STEPS").is_some() {
                        eprintln!("c16 prune-resize step {step}: data packs resized {resized}, partly used repacked {partly}, to repack {}", to_repack.len());
                    }
                }
                cold.inner.lock().unwrap().warm.clear();
                let res = repo.prune(&popts, plan);
                // every pack with decision Repack — partly used, to compress, or only resized — is in the warm-up request of the command
                if strict {
                    let g = cold.inner.lock().unwrap();
                    if to_repack.iter().any(|id| !g.warm_log.iter().any(|(t, w)| *t == FileType::Pack && w == id)) {
                        return format!("oracle-fail:pack-to-repack-not-in-warm-up-request-during-{what}");
                    }
                }
                if res.is_err() {
                    return format!("oracle-fail:{what}-fails-on-cold-strict-store-step{step}");
                }
            }
            'i' => {
                what = "repair-index";
                // read_all: the header of every pack is read from the cold store (ranged reads with cacheable = false)
                let ropts = rustic_core::RepairIndexOptions::default().read_all(rng.chance(2, 3));
                cold.inner.lock().unwrap().warm.clear();
                if repo.repair_index(&ropts, false).is_err() {
                    return format!("oracle-fail:repair-index-fails-on-cold-strict-store-step{step}");
                }
            }
            'c' => {
                what = "config-change";
                let mut repo = repo;
                // append-only is switched on AND off again inside the step (forget / prune / repair refuse on append-only repositories)
                let changes: Vec<ConfigOptions> = match rng.below(4) {
                    0 => vec![ConfigOptions::default().set_treepack_growfactor(1 + rng.below(40) as u32)],
                    1 => vec![ConfigOptions::default().set_extra_verify(rng.chance(1, 2))],
                    2 => vec![ConfigOptions::default().set_append_only(true), ConfigOptions::default().set_append_only(false)],
                    _ => vec![ConfigOptions::default().set_compression(rng.below(10) as i32).set_datapack_growfactor(1 + rng.below(40) as u32)],
                };
                for o in &changes {
                    // the prefix dimension: `save_config` writes the cold config file, then the hot one — let the first / the second write fail
                    let fault = rng.below(4);
                    match fault {
                        0 => cold.set_fail_only(Some(cold.log().len())),
                        1 => hot.set_fail_only(Some(hot.log().len())),
                        _ => {}
                    }
                    let (logc, logh) = (cold.log().len(), hot.log().len());
                    let r = repo.apply_config(o);
                    cold.set_fail_only(None);
                    hot.set_fail_only(None);
                    let wrote = cold.log().len() != logc || hot.log().len() != logh;
                    match r {
                        Err(_) if fault < 2 && wrote => {
                            // interrupted between / before the two writes: the repository still opens, the repeated change goes through
                            let Ok(r2) = h.open_oc() else { return format!("oracle-fail:open-after-interrupted-config-change-step{step}") };
                            repo = r2;
                            if repo.apply_config(o).is_err() {
                                return format!("oracle-fail:apply-config-fails-after-interrupted-config-change-step{step}");
                            }
                        }
                        Err(_) => return format!("oracle-fail:apply-config-fails-step{step}"),
                        Ok(_) if fault < 2 && wrote => return "oracle-fail:apply-config-ok-despite-failed-config-write".into(),
                        Ok(_) => {}
                    }
                    if let Some(m) = config_monitor(&repo, &hot, &cold) {
                        return format!("{m}-after-apply-config");
                    }
                    // the stored config is the requested one
                    let Ok(r2) = h.open_oc() else { return format!("oracle-fail:open-after-config-change-step{step}") };
                    let c = r2.config();
                    let ok = o.set_treepack_growfactor.is_none_or(|v| c.treepack_growfactor == Some(v))
                        && o.set_datapack_growfactor.is_none_or(|v| c.datapack_growfactor == Some(v))
                        && o.set_extra_verify.is_none_or(|v| c.extra_verify == Some(v))
                        && o.set_compression.is_none_or(|v| c.compression == Some(v))
                        && o.set_append_only.is_none_or(|v| c.append_only == Some(v));
                    if !ok {
                        return "oracle-fail:config-change-not-stored".into();
                    }
                    repo = r2;
                }
            }
            'y' => {
                what = "copy-into";
                // a second, plain repository (its own key) with one backup; 1/2: one of its files repeats content the hot/cold
                // repository already holds (only the missing blobs are copied)
                let Ok((h2, _)) = RepoHandle::init(MemBackend::named("second"), None, &cfg) else { return "err:init".into() };
                let mut entries = Vec::new();
                for i in 0..1 + rng.below(3) {
                    let len = *rng.pick(&[0usize, 10, 3000, 9000, 70_000]);
                    let mut e = SrcEntry::file(&[format!("y{step}").as_bytes(), format!("f{i}").as_bytes()], &rng.bytes(len));
                    e.mtime_s += 100 * (step as i64 + 1) + i as i64;
                    entries.push(e);
                }
                if rng.chance(1, 2) {
                    if let Some(known) = sources.last().and_then(|(_, s)| s.entries.iter().find(|e| matches!(e.kind, crate::repo::SrcKind::File(_)))) {
                        let mut e = known.clone();
                        e.path = vec![format!("y{step}").into_bytes(), b"known".to_vec()];
                        entries.push(e);
                    }
                }
                let src2 = MemSource::new(entries);
                let Ok(snap2) = crate::repo::backup(&h2, &src2, &BackupOptions::default(), SnapshotFile::default()) else { return format!("oracle-fail:backup-second-step{step}") };
                let Ok(from) = h2.open().and_then(Repository::to_indexed) else { return format!("oracle-fail:index-second-step{step}") };
                let Ok(to) = repo.to_indexed_ids() else { return format!("oracle-fail:index-step{step}") };
                let before: BTreeSet<Id> = cold.ids(FileType::Snapshot).into_iter().collect();
                if from.copy(&to, [&snap2]).is_err() {
                    return format!("oracle-fail:copy-into-hotcold-fails-step{step}");
                }
                let new: Vec<Id> = cold.ids(FileType::Snapshot).into_iter().filter(|i| !before.contains(i)).collect();
                let [id] = new.as_slice() else { return "oracle-fail:copy-into-hotcold-did-not-add-one-snapshot".into() };
                sources.push((*id, src2));
            }
            'Y' => {
                what = "copy-out";
                // `copy` reads the blobs with ranged pack reads and has no warm-up of its own (the property's warm-up clause lists
                // restore, prune and index repair): the harness warms everything up, as a user of a cold store has to
                for id in cold.ids(FileType::Pack) {
                    _ = cold.warm_up(FileType::Pack, &id);
                }
                let Ok((h2, _)) = RepoHandle::init(MemBackend::named("plain"), None, &cfg) else { return "err:init".into() };
                let Ok(from) = repo.to_indexed() else { return format!("oracle-fail:index-step{step}") };
                let Ok(snaps) = from.get_all_snapshots() else { return format!("oracle-fail:snapshots-step{step}") };
                let Ok(to) = h2.open().and_then(Repository::to_indexed_ids) else { return "err:open".into() };
                if from.copy(&to, snaps.iter()).is_err() {
                    return format!("oracle-fail:copy-from-hotcold-fails-step{step}");
                }
                // the plain copy holds every snapshot with the source's content and checks clean
                let Ok(plain) = h2.open().and_then(Repository::to_indexed) else { return "oracle-fail:open-plain-copy".into() };
                let Ok(copied) = plain.get_all_snapshots() else { return "oracle-fail:snapshots-of-plain-copy".into() };
                if copied.len() != sources.len() {
                    return "oracle-fail:copy-from-hotcold-snapshot-count".into();
                }
                for s in &copied {
                    // copies get new ids: identify by tree
                    let Some(orig) = snaps.iter().find(|o| o.tree == s.tree && o.time == s.time) else { return "oracle-fail:copy-from-hotcold-unknown-snapshot".into() };
                    let Some((_, src)) = sources.iter().find(|(id, _)| *id == *orig.id) else { return "oracle-fail:unknown-snapshot".into() };
                    match read_back(&plain, s).map(|v| v.into_iter().filter(|r| r.path != b"src").collect::<Vec<_>>()) {
                        Ok(rb) if rb == expected(src) => {}
                        _ => return "oracle-fail:copy-from-hotcold-content-differs".into(),
                    }
                }
                if crate::repo::check_errors(&h2, true) != Some(0) {
                    return "oracle-fail:check-errors-in-plain-copy".into();
                }
            }
            'I' | 'J' | 'u' | 'w' => {
                what = match kind {
                    'I' => "repair-index-after-all-index-files-lost",
                    'J' => "repair-index-after-some-index-files-lost",
                    'u' => "repair-index-after-interrupted-backup",
                    _ => "repair-index-after-wrong-sizes-and-dropped-packs",
                };
                let index_ids = cold.ids(FileType::Index);
                let lose = |ids: &[Id]| {
                    for id in ids {
                        hot.del_raw(FileType::Index, id);
                        cold.del_raw(FileType::Index, id);
                    }
                };
                match kind {
                    'I' => lose(&index_ids),
                    'J' => {
                        let mut sub: Vec<Id> = index_ids.iter().copied().filter(|_| rng.chance(1, 2)).collect();
                        if sub.is_empty() {
                            sub.extend(index_ids.first().copied());
                        }
                        lose(&sub);
                    }
                    'u' => {
                        // a backup whose packs reach the repository but whose index files and snapshot do not
                        let snaps_before: BTreeSet<Id> = cold.ids(FileType::Snapshot).into_iter().collect();
                        let entries: Vec<SrcEntry> = (0..1 + rng.below(3))
                            .map(|i| {
                                let len = *rng.pick(&[10usize, 3000, 9000, 70_000]);
                                let mut e = SrcEntry::file(&[format!("u{step}").as_bytes(), format!("f{i}").as_bytes()], &rng.bytes(len));
                                e.mtime_s += 100 * (step as i64 + 1) + i as i64;
                                e
                            })
                            .collect();
                        let Ok(r) = repo.to_indexed_ids() else { return format!("oracle-fail:index-step{step}") };
                        if r.archive(&BackupOptions::default(), &MemSource::new(entries), SnapshotFile::default(), &[PathBuf::from(crate::repo::SRC_ROOT)]).is_err() {
                            return format!("oracle-fail:backup-step{step}");
                        }
                        harvest_tree_packs(&cold, &mut tree);
                        let new_idx: Vec<Id> = cold.ids(FileType::Index).into_iter().filter(|i| !index_ids.contains(i)).collect();
                        lose(&new_idx);
                        for id in cold.ids(FileType::Snapshot) {
                            if !snaps_before.contains(&id) {
                                hot.del_raw(FileType::Snapshot, &id);
                                cold.del_raw(FileType::Snapshot, &id);
                            }
                        }
                    }
                    _ => {
                        use rustic_core::repofile::{IndexFile, IndexId};
                        let dbe = rustic_core::verif::repository::dbe(&repo);
                        let mut all = IndexFile::default();
                        for id in &index_ids {
                            let Ok(f) = dbe.get_file::<IndexFile>(&IndexId::from(*id)) else { return format!("oracle-fail:index-unreadable-step{step}") };
                            all.packs.extend(f.packs);
                            all.packs_to_delete.extend(f.packs_to_delete);
                        }
                        for l in [&mut all.packs, &mut all.packs_to_delete] {
                            l.retain(|_| !rng.chance(1, 4));
                            for p in l.iter_mut() {
                                if rng.chance(1, 2) {
                                    p.size = Some(p.pack_size() + 1 + rng.below(50) as u32);
                                }
                            }
                        }
                        lose(&index_ids);
                        if !(all.packs.is_empty() && all.packs_to_delete.is_empty()) && rustic_core::verif::repository::save_file(&repo, &all).is_err() {
                            return format!("oracle-fail:save-index-step{step}");
                        }
                    }
                }
                // the real `repair_index` on a repository whose cold store is wrapped by the spy
                let read_all = rng.chance(1, 3);
                let spy = ColdSpy { be: crate::repo::OneConfigBackend(cold.clone()), log: SpyLog::default() };
                let bes = RepositoryBackends::new(Arc::new(spy.clone()), Some(Arc::new(crate::repo::OneConfigBackend(hot.clone()))));
                let Ok(r) = Repository::new(&opts, &bes).and_then(|r| r.open(&rustic_core::Credentials::Masterkey(h.key.clone()))) else {
                    return format!("oracle-fail:open-step{step}");
                };
                cold.clear_log();
                cold.inner.lock().unwrap().warm.clear();
                if r.repair_index(&rustic_core::RepairIndexOptions::default().read_all(read_all), false).is_err() {
                    return format!("oracle-fail:repair-index-fails-on-cold-strict-store-step{step}");
                }
                // (1) every pack read the cold store saw was preceded by a warm-up request for that pack
                if strict && read_before_warm_up(&spy.log) {
                    return format!("oracle-fail:cold-pack-read-before-warm-up-request-during-{what}{}", if read_all { "-read-all" } else { "" });
                }
                // (2) every pack of the cold store is listed by the new index
                let Some(listed) = indexed_packs(&h, &cold) else { return format!("oracle-fail:index-unreadable-after-{what}") };
                if cold.ids(FileType::Pack).iter().any(|p| !listed.contains(p)) {
                    return format!("oracle-fail:cold-pack-not-in-index-after-{what}{}", if read_all { "-read-all" } else { "" });
                }
            }
            _ => {
                what = if *kind == 'X' { "hot-store-lost+repair" } else { "hot-damage+repair" };
                // lose hot files (all types but the config file): everything, or a random subset; then repair
                let keys: Vec<(u8, Id)> = hot.store().keys().copied().collect();
                for (t, id) in keys {
                    if t != 0 && (*kind == 'X' || rng.chance(1, 3)) {
                        hot.del_raw(FILE_TYPES[t as usize], &id);
                    }
                }
                cold.inner.lock().unwrap().warm.clear();
                let Ok(r0) = Repository::new(&opts, &h.backends_oc()) else { return "oracle-fail:new".into() };
                if r0.repair_hotcold_except_packs(false).is_err() {
                    return format!("oracle-fail:repair-hotcold-fails-step{step}");
                }
                let Ok(repo) = h.open_oc() else { return format!("oracle-fail:open-after-repair-step{step}") };
                if repo.repair_hotcold_packs(false).is_err() {
                    return format!("oracle-fail:repair-hotcold-packs-fails-step{step}");
                }
            }
        }
        harvest_tree_packs(&cold, &mut tree);
        // hot ⊇ cold byte-identically on keys / snapshots / index files / tree packs (also those only marked for deletion)
        if let Some(m) = monitor(&hot.store(), &cold.store(), &|id| tree.contains(id)) {
            return format!("{m}-after-{what}");
        }
        // every pack read that reached the cold store during the command was requested to be warmed up (by that command)
        if strict {
            if let Some(m) = unwarmed_cold_read(&cold) {
                return format!("{m}-during-{what}");
            }
        }
        // results as on a single store: check clean, every snapshot reads back; restore needs data packs from cold
        cold.inner.lock().unwrap().warm.clear();
        let Ok(repo) = h.open_oc() else { return format!("oracle-fail:reopen-step{step}") };
        // the two config files: one per store, equal up to the is_hot marker
        if let Some(m) = config_monitor(&repo, &hot, &cold) {
            return format!("{m}-after-{what}");
        }
        let Ok(res) = repo.check(CheckOptions::default()) else { return format!("oracle-fail:check-failed-after-{what}") };
        if res.0.iter().any(|(l, _)| format!("{l:?}") == "Error") {
            return format!("oracle-fail:check-errors-after-{what}");
        }
        if read_data_check {
            cold.inner.lock().unwrap().warm.clear();
            match repo.check(CheckOptions::default().read_data(true)) {
                Ok(res) if !res.0.iter().any(|(l, _)| format!("{l:?}") == "Error") => {}
                _ => return "oracle-fail:check-read-data-fails-on-hotcold".into(),
            }
        }
    }
    // read-back of every snapshot (dump reads data packs from the cold store: must be warmed up by the caller — `dump`
    // has no warm-up of its own, so warm everything here) and real restores (which must warm up by themselves)
    let Ok(repo) = h.open_oc() else { return "oracle-fail:reopen".into() };
    let Ok(repo) = repo.to_indexed() else { return "oracle-fail:index".into() };
    let Ok(snaps) = repo.get_all_snapshots() else { return "oracle-fail:snapshots".into() };
    if snaps.len() != sources.len() {
        return "oracle-fail:snapshot-count".into();
    }
    for s in &snaps {
        let Some((_, src)) = sources.iter().find(|(id, _)| *id == *s.id) else { return "oracle-fail:unknown-snapshot".into() };
        let tmp = tempfile::tempdir().expect("tempdir");
        let dest = tmp.path().join("dest");
        // round 0: restore into a fresh directory; round 1: restore OVER the result after mutating it (same-size files whose
        // first chunk is intact and a later chunk of the same pack is not, first chunk modified, shorter, removed, untouched):
        // blobs found in the existing file are not read from the pack, all others must be — after a warm-up of their pack
        for round in 0..2 {
            if round == 1 {
                for e in &src.entries {
                    let crate::repo::SrcKind::File(c) = &e.kind else { continue };
                    let p = path_in(&dest, e);
                    let nchunks = c.len().div_ceil(REPO_CHUNK);
                    let mut d = c.clone();
                    match rng.below(6) {
                        0 | 1 | 2 if nchunks > 1 => {
                            // first chunk intact, 1.. later chunks modified
                            for _ in 0..1 + rng.below(3) {
                                let at = REPO_CHUNK + rng.below((c.len() - REPO_CHUNK) as u64) as usize;
                                d[at] ^= 0x5a;
                            }
                        }
                        3 if !c.is_empty() => d[rng.below(c.len().min(REPO_CHUNK) as u64) as usize] ^= 0x5a,
                        4 => d.truncate(c.len() / 2),
                        5 => {
                            _ = std::fs::remove_file(&p);
                            continue;
                        }
                        _ => continue,
                    }
                    if std::fs::write(&p, &d).is_err() {
                        return "oracle-fail:cannot-mutate-destination".into();
                    }
                    // restore sets the snapshot's mtime; make sure the mutated file is not accepted by size + mtime
                    if let Ok(f) = std::fs::File::options().write(true).open(&p) {
                        _ = f.set_modified(std::time::UNIX_EPOCH + std::time::Duration::from_secs(1_500_000_000));
                    }
                }
            }
            // a cold store with nothing warmed up
            cold.inner.lock().unwrap().warm.clear();
            cold.clear_log();
            if let Some(e) = crate::dispatch::c16::restore_to(&repo, s, &dest) {
                return format!("oracle-fail:restore-{e}{}", if round == 1 { "-over-existing-files" } else { "" });
            }
            // every pack read from the cold store was requested to be warmed up before
            if let Some(m) = unwarmed_cold_read(&cold).filter(|_| strict) {
                return format!("{m}-during-restore{}", if round == 1 { "-over-existing-files" } else { "" });
            }
            for e in &src.entries {
                if let crate::repo::SrcKind::File(c) = &e.kind {
                    if std::fs::read(path_in(&dest, e)).ok().as_deref() != Some(c.as_slice()) {
                        return format!("oracle-fail:restored-content-differs{}", if round == 1 { "-over-existing-files" } else { "" });
                    }
                }
            }
        }
        for id in cold.ids(FileType::Pack) {
            _ = cold.warm_up(FileType::Pack, &id);
        }
        match read_back(&repo, s).map(|v| v.into_iter().filter(|r| r.path != b"src").collect::<Vec<_>>()) {
            Ok(rb) if rb == expected(src) => {}
            _ => return "oracle-fail:read-back".into(),
        }
    }
    "ok".into()
}

fn path_in(dest: &std::path::Path, e: &SrcEntry) -> PathBuf {
    let mut p = dest.to_path_buf();
    for comp in &e.path {
        p.push(String::from_utf8_lossy(comp).to_string());
    }
    p
}

/// Real restore of a snapshot into `dest` (fresh directory).  `None` = fine.
pub fn restore_to<S: rustic_core::IndexedFull>(repo: &Repository<S>, snap: &SnapshotFile, dest: &std::path::Path) -> Option<String> {
    use rustic_core::{LocalDestination, LsOptions, RestoreOptions};
    std::fs::create_dir_all(dest).ok()?;
    let node = repo.node_from_snapshot_path(&format!("{}:src", snap.id.to_hex().as_str()), |_| true).map_err(|e| e.to_string());
    let node = match node {
        Ok(n) => n,
        Err(_) => return Some("node".into()),
    };
    let ls = match repo.ls(&node, &LsOptions::default()) {
        Ok(l) => l,
        Err(_) => return Some("ls".into()),
    };
    let Ok(d) = LocalDestination::new(dest.to_str().unwrap(), true, !node.is_dir()) else { return Some("dest".into()) };
    let opts = RestoreOptions::default();
    let plan = match repo.prepare_restore(&opts, ls, &d, false) {
        Ok(p) => p,
        Err(_) => return Some("prepare".into()),
    };
    let ls = match repo.ls(&node, &LsOptions::default()) {
        Ok(l) => l,
        Err(_) => return Some("ls".into()),
    };
    match repo.restore(plan, &opts, ls, &d) {
        Ok(()) => None,
        Err(_) => Some("restore-fails-on-cold-strict-store".into()),
    }
}

// ------------------------------------------------------------- warm-up of every file type (keys, config, snapshots, index, packs)

#[derive(Clone, Copy, Debug, PartialEq, Eq)]
enum ColdEv {
    /// `warm_up()` request
    Warm,
    /// refused read of the shape `WarmUpAccessBackend::warm_up` issues (`read_partial(.., offset 0, length 1)`) — in the `by_access`
    /// mode this IS the warm-up request: the file is readable afterwards
    Access,
    /// any other refused read: a real read of a file that was not warmed up on this store
    Refused,
    Served,
}

type AllColdState = (BTreeSet<(u8, Id)>, Vec<(ColdEv, FileType, Id)>);

/// A cold store that is cold for EVERY file type.  `by_access`: it has no warm-up call of its own (`needs_warm_up()` = false); the
/// first read of a file is refused and triggers its warm-up, later reads are served (what `RepositoryOptions::warm_up` is made for).
/// Otherwise: `needs_warm_up()` = true, `warm_up()` makes a file readable, reads of other files are refused.
#[derive(Clone, Debug)]
struct AllCold {
    be: MemBackend,
    by_access: bool,
    st: Arc<std::sync::Mutex<AllColdState>>,
}

impl AllCold {
    fn gate(&self, tpe: FileType, id: &Id, probe: bool) -> rustic_core::RusticResult<()> {
        if self.be.get(tpe, id).is_none() {
            return Err(rustic_core::RusticError::new(rustic_core::ErrorKind::Backend, "no such file"));
        }
        let mut g = self.st.lock().unwrap();
        let key = (crate::repo::ft_idx(tpe), *id);
        if g.0.contains(&key) {
            g.1.push((ColdEv::Served, tpe, *id));
            return Ok(());
        }
        if self.by_access {
            _ = g.0.insert(key);
        }
        g.1.push((if probe { ColdEv::Access } else { ColdEv::Refused }, tpe, *id));
        Err(rustic_core::RusticError::new(rustic_core::ErrorKind::Backend, "file is not warmed up"))
    }
    /// forget all warm-ups and the event log (between commands)
    fn reset(&self) {
        let mut g = self.st.lock().unwrap();
        g.0.clear();
        g.1.clear();
    }
    /// a read this store refused that was not a warm-up access (by_access) / any refused read (native warm-up)
    fn violation(&self) -> Option<FileType> {
        let g = self.st.lock().unwrap();
        g.1.iter().find(|(e, _, _)| *e == ColdEv::Refused || (!self.by_access && *e == ColdEv::Access)).map(|(_, t, _)| *t)
    }
    fn served(&self, tpe: FileType) -> usize {
        self.st.lock().unwrap().1.iter().filter(|(e, t, _)| *e == ColdEv::Served && *t == tpe).count()
    }
}

impl ReadBackend for AllCold {
    fn location(&self) -> String {
        self.be.location()
    }
    fn list_with_size(&self, tpe: FileType) -> rustic_core::RusticResult<Vec<(Id, u32)>> {
        self.be.list_with_size(tpe)
    }
    fn read_full(&self, tpe: FileType, id: &Id) -> rustic_core::RusticResult<Bytes> {
        self.gate(tpe, id, false)?;
        self.be.read_full(tpe, id)
    }
    fn read_partial(&self, tpe: FileType, id: &Id, cacheable: bool, offset: u32, length: u32) -> rustic_core::RusticResult<Bytes> {
        self.gate(tpe, id, offset == 0 && length == 1)?;
        self.be.read_partial(tpe, id, cacheable, offset, length)
    }
    fn warmup_path(&self, tpe: FileType, id: &Id) -> String {
        self.be.warmup_path(tpe, id)
    }
    fn needs_warm_up(&self) -> bool {
        !self.by_access
    }
    fn warm_up(&self, tpe: FileType, id: &Id) -> rustic_core::RusticResult<()> {
        let mut g = self.st.lock().unwrap();
        g.1.push((ColdEv::Warm, tpe, *id));
        if !self.by_access {
            _ = g.0.insert((crate::repo::ft_idx(tpe), *id));
        }
        Ok(())
    }
}

impl WriteBackend for AllCold {
    fn create(&self) -> rustic_core::RusticResult<()> {
        self.be.create()
    }
    fn write_bytes(&self, tpe: FileType, id: &Id, cacheable: bool, content: BytesList) -> rustic_core::RusticResult<()> {
        self.be.write_bytes(tpe, id, cacheable, content)
    }
    fn remove(&self, tpe: FileType, id: &Id, cacheable: bool) -> rustic_core::RusticResult<()> {
        self.be.remove(tpe, id, cacheable)
    }
}

/// a key file for `pw` holding the repository's master key (cheap scrypt parameters), stored in both stores
fn plant_key(h: &RepoHandle, hot: &MemBackend, pw: &str, rng: &mut Rng) -> Option<Id> {
    use rustic_core::verif::aespoly1305::CryptoKey;
    use sha2::{Digest, Sha256};
    let mut kf = rustic_core::repofile::KeyFile { hostname: None, username: None, created: None, kdf: "scrypt".into(), n: 16, r: 1, p: 1, data: vec![], salt: rng.bytes(64) };
    let k = kf.kdf_key(&pw).ok()?;
    kf.data = k.encrypt_data(&serde_json::to_vec(&h.key).ok()?).ok()?;
    let json = serde_json::to_vec(&kf).ok()?;
    let id = Id::new(Sha256::digest(&json).into());
    h.be.put_raw(FileType::Key, id, Bytes::from(json.clone()));
    hot.put_raw(FileType::Key, id, Bytes::from(json));
    Some(id)
}

/// `c16 access <seed>`: a hot/cold repository with 1-3 backups (optionally forget + a marking prune: tree packs under
/// `packs_to_delete`) and 0-2 password keys; the hot store loses its keys / snapshots / index files / tree packs / everything incl. the
/// config file / a random subset; the cold store is cold for EVERY file type (`AllCold`), in 3/4 of the cases warmed up by access
/// (`RepositoryOptions::warm_up(true)`, `needs_warm_up()` = false), else through its own `warm_up()`.  Then, with the master key or a
/// password: `open_only_cold` (+ `init_hot` when the hot config is lost) → `repair_hotcold_except_packs` → `open` →
/// `repair_hotcold_packs` → check → restore of the newest snapshot.  Oracles: no read the cold store refused other than the warm-up
/// accesses themselves (= every file served by the cold store was warmed up ON THE COLD STORE first), the commands succeed, the hot
/// store is recreated byte for byte (config: exactly one file), the cold store is unchanged, check is clean, restored content == source.
fn access(seed: u64) -> String {
    use rustic_core::Credentials;
    let mut rng = Rng::new(seed);
    let cold = MemBackend::named("cold");
    let hot = MemBackend::named("hot");
    let cfg = ConfigOptions::default().set_chunker(rustic_core::repofile::Chunker::FixedSize).set_chunk_size(bytesize::ByteSize(REPO_CHUNK as u64));
    let Ok((h, _)) = RepoHandle::init(cold.clone(), Some(hot.clone()), &cfg) else { return "err:init".into() };
    let mut last: Option<(SnapshotFile, MemSource)> = None;
    let nb = 1 + rng.below(3);
    for b in 0..nb {
        let mut entries = Vec::new();
        for i in 0..1 + rng.below(3) {
            let len = *rng.pick(&[0usize, 10, 3000, 9000, 30_000]);
            let mut e = SrcEntry::file(&[format!("a{b}").as_bytes(), format!("f{i}").as_bytes()], &rng.bytes(len));
            e.mtime_s += 100 * (b as i64 + 1) + i as i64;
            e.ctime_s = e.mtime_s;
            entries.push(e);
        }
        let src = MemSource::new(entries);
        match crate::repo::backup(&h, &src, &BackupOptions::default(), SnapshotFile::default()) {
            Ok(s) => last = Some((s, src)),
            Err(_) => return "oracle-fail:backup".into(),
        }
    }
    if nb > 1 && rng.chance(1, 3) {
        // forget the oldest snapshot + a prune that only marks: its tree pack stays in both stores, listed under `packs_to_delete`
        let Ok(repo) = h.open() else { return "oracle-fail:open".into() };
        let Ok(mut snaps) = repo.get_all_snapshots() else { return "oracle-fail:snapshots".into() };
        snaps.sort_by_key(|s| s.time.clone());
        if repo.delete_snapshots(&[snaps[0].id]).is_err() {
            return "oracle-fail:forget".into();
        }
        let Ok(repo) = h.open() else { return "oracle-fail:open".into() };
        let popts = PruneOptions::default();
        let Ok(plan) = repo.prune_plan(&popts) else { return "oracle-fail:prune-plan".into() };
        if repo.prune(&popts, plan).is_err() {
            return "oracle-fail:prune".into();
        }
    }
    let nkeys = rng.below(3);
    for k in 0..nkeys {
        if plant_key(&h, &hot, &format!("pw{k}"), &mut rng).is_none() {
            return "oracle-fail:plant-key".into();
        }
    }
    let by_access = !rng.chance(1, 4);
    let creds = if nkeys > 0 && rng.chance(2, 3) { Credentials::password(format!("pw{}", rng.below(nkeys))) } else { Credentials::Masterkey(h.key.clone()) };
    let mode = if by_access { "warm-up-by-access" } else { "native-warm-up" };
    // ---- damage to the hot store
    let hot_before = hot.store();
    let cold_before = cold.store();
    let damage = rng.below(7);
    for (t, id) in hot_before.keys() {
        let lose = match damage {
            0 => true,                                  // everything, also the config file
            1 => *t != 0,                               // everything but the config file
            2 => *t == 2,                               // keys
            3 => *t == 3,                               // snapshots
            4 => *t == 1,                               // index files
            5 => *t == 4,                               // tree packs
            _ => *t != 0 && rng.chance(1, 2),
        };
        if lose {
            hot.del_raw(FILE_TYPES[*t as usize], id);
        }
    }
    let spy = AllCold { be: cold.clone(), by_access, st: Arc::default() };
    let bes = RepositoryBackends::new(Arc::new(spy.clone()), Some(Arc::new(hot.clone())));
    let opts = RepoHandle::default_opts().warm_up(by_access);
    let tname = |t: FileType| crate::repo::ft_name(t);
    // after every command: what the cold store refused
    macro_rules! step {
        ($cmd:expr, $res:expr) => {{
            let r = $res;
            if let Some(t) = spy.violation() {
                return format!("oracle-fail:cold-{}-read-not-warmed-up-on-the-cold-store-during-{}-{mode}", tname(t), $cmd);
            }
            match r {
                Ok(v) => v,
                Err(_) => return format!("oracle-fail:{}-fails-{mode}", $cmd),
            }
        }};
    }
    let new_repo = || Repository::new(&opts, &bes);
    let hot_config_lost = hot.ids(FileType::Config).is_empty();
    if hot_config_lost || rng.chance(1, 2) {
        let Ok(r0) = new_repo() else { return "oracle-fail:new".into() };
        let r = step!("open-only-cold", r0.open_only_cold(&creds));
        // the config file was served by the cold store (and a key file, if a password was used)
        if spy.served(FileType::Config) == 0 || (matches!(creds, Credentials::Password(_)) && spy.served(FileType::Key) == 0) {
            return "oracle-fail:open-only-cold-did-not-read-the-cold-store".into();
        }
        spy.reset();
        if hot_config_lost {
            step!("init-hot", r.init_hot());
            spy.reset();
        }
    }
    let Ok(r0) = new_repo() else { return "oracle-fail:new".into() };
    step!("repair-hotcold-except-packs", r0.repair_hotcold_except_packs(false));
    spy.reset();
    let Ok(r0) = new_repo() else { return "oracle-fail:new".into() };
    let repo = step!("open", r0.open(&creds));
    spy.reset();
    step!("repair-hotcold-packs", repo.repair_hotcold_packs(false));
    spy.reset();
    // ---- the hot store is back byte for byte (the config file is written anew by init_hot: exactly one), the cold store unchanged
    let hot_after = hot.store();
    for (k, v) in &hot_before {
        if k.0 != 0 && hot_after.get(k) != Some(v) {
            return format!("oracle-fail:hot-{}-file-not-recreated-{mode}", crate::repo::ft_name(FILE_TYPES[k.0 as usize]));
        }
    }
    if hot_after.keys().filter(|k| k.0 != 0).count() != hot_before.keys().filter(|k| k.0 != 0).count() {
        return "oracle-fail:extra-file-in-hot-after-repair".into();
    }
    if hot.ids(FileType::Config).len() != 1 {
        return "oracle-fail:not-exactly-one-hot-config-file-after-repair".into();
    }
    if cold.store() != cold_before {
        return "oracle-fail:repair-changed-the-cold-store".into();
    }
    let res = step!("check", repo.check(CheckOptions::default()));
    if res.0.iter().any(|(l, _)| format!("{l:?}") == "Error") {
        return format!("oracle-fail:check-errors-after-repair-{mode}");
    }
    spy.reset();
    // ---- restore of the newest snapshot: data packs come from the cold store, after the command's own warm-up
    if let Some((snap, src)) = &last {
        let repo = step!("index", repo.to_indexed());
        spy.reset();
        let tmp = tempfile::tempdir().expect("tempdir");
        let dest = tmp.path().join("dest");
        let r = restore_to(&repo, snap, &dest);
        if let Some(t) = spy.violation() {
            return format!("oracle-fail:cold-{}-read-not-warmed-up-on-the-cold-store-during-restore-{mode}", tname(t));
        }
        if let Some(e) = r {
            return format!("oracle-fail:restore-{e}-{mode}");
        }
        for e in &src.entries {
            if let crate::repo::SrcKind::File(c) = &e.kind {
                if std::fs::read(path_in(&dest, e)).ok().as_deref() != Some(c.as_slice()) {
                    return "oracle-fail:restored-content-differs".into();
                }
            }
        }
    }
    "ok".into()
}

/// `c16 warmroute <n> <w> <h> <type>`: where ONE warm-up request of the real `Repository::warm_up` goes.  `n` = the cold store's own
/// `needs_warm_up()`, `w` = `RepositoryOptions::warm_up` (warm-up by access), `h` = with a hot store; type index / key / snapshot /
/// pack.  Observation: the events the two stores saw (`cold:read`, `cold:warm`, `hot:read`, `hot:warm`), `-` = none — compared
/// with `WarmUp.warmUpRepo (repoBe n w h)` of the Lean model.
fn warmroute(n: &str, w: &str, h: &str, t: &str) -> String {
    use rustic_core::repofile::{IndexId, KeyId, PackId, SnapshotId};
    let flag = |s: &str| match s {
        "0" => Some(false),
        "1" => Some(true),
        _ => None,
    };
    let (Some(n), Some(w), Some(h)) = (flag(n), flag(w), flag(h)) else { return "bad-op".into() };
    let tpe = match t {
        "index" => FileType::Index,
        "key" => FileType::Key,
        "snapshot" => FileType::Snapshot,
        "pack" => FileType::Pack,
        _ => return "bad-op".into(),
    };
    let cold = MemBackend::named("cold");
    let hot = MemBackend::named("hot");
    let id = label_id(7);
    cold.put_raw(tpe, id, Bytes::from_static(b"0123456789"));
    hot.put_raw(tpe, id, Bytes::from_static(b"0123456789"));
    cold.set_cold(n);
    let bes = RepositoryBackends::new(Arc::new(cold.clone()), h.then(|| Arc::new(hot.clone()) as Arc<dyn WriteBackend>));
    let Ok(repo) = Repository::new(&RepoHandle::default_opts().warm_up(w), &bes) else { return "err:new".into() };
    let res = match tpe {
        FileType::Index => repo.warm_up(std::iter::once(IndexId::from(id))),
        FileType::Key => repo.warm_up(std::iter::once(KeyId::from(id))),
        FileType::Snapshot => repo.warm_up(std::iter::once(SnapshotId::from(id))),
        _ => repo.warm_up(std::iter::once(PackId::from(id))),
    };
    if res.is_err() {
        return "err:warm-up".into();
    }
    let mut ev: Vec<&str> = Vec::new();
    for (be, rd, wm) in [(&cold, "cold:read", "cold:warm"), (&hot, "hot:read", "hot:warm")] {
        let g = be.inner.lock().unwrap();
        ev.extend(g.reads.iter().filter(|(t, i, _)| *t == tpe && *i == id).map(|_| rd));
        ev.extend(g.warm_log.iter().filter(|(t, i)| *t == tpe && *i == id).map(|_| wm));
    }
    if ev.is_empty() { "-".into() } else { ev.join("+") }
}

pub fn exec(t: &[&str]) -> String {
    let t: Vec<String> = t.iter().map(|s| (*s).to_string()).collect();
    guarded(move || match t.iter().map(String::as_str).collect::<Vec<_>>().as_slice() {
        ["hist", steps] => hist(steps),
        ["repair", items] => repair(items),
        ["repairp", index, packs] => repairp(index, packs),
        ["repo", seed] => seed.parse::<u64>().map_or("bad-op".into(), |s| repo_level(s, false)),
        ["repo-hist", steps, seed] => seed.parse::<u64>().map_or("bad-op".into(), |s| repo_hist(steps, s, false)),
        ["repo-read-data", seed] => seed.parse::<u64>().map_or("bad-op".into(), |s| repo_level(s, true)),
        ["access", seed] => seed.parse::<u64>().map_or("bad-op".into(), access),
        ["warmroute", n, w, h, t] => warmroute(n, w, h, t),
        _ => "bad-op".into(),
    })
}

// ------------------------------------------------------------------------------------------ generator

pub fn generate(thorough: bool, rng: &mut Rng, ops: &mut Vec<String>, stats: &mut Stats) {
    let n_hist = if thorough { 6000 } else { 600 };
    for _ in 0..n_hist {
        let n = if thorough { rng.range(3, 40) } else { rng.range(2, 20) } as usize;
        // content addressing: an id always carries the same bytes
        let mut pool: Vec<(u8, String, String, usize)> = Vec::new();
        let mut steps = Vec::new();
        for _ in 0..n {
            let pick = |rng: &mut Rng, pool: &mut Vec<(u8, String, String, usize)>| -> (u8, String, String, usize) {
                if !pool.is_empty() && rng.chance(2, 3) {
                    return rng.pick(pool).clone();
                }
                let t = *rng.pick(&[0u8, 1, 2, 3, 3, 4, 4, 4, 4]);
                let id = if t == 0 { "0".repeat(64) } else { hex::encode(rng.bytes(32)) };
                let len = *rng.pick(&[0usize, 1, 7, 40, 300]);
                let data = hex(&rng.bytes(len));
                let e = (t, id, data, len);
                pool.push(e.clone());
                e
            };
            let (t, id, data, len) = pick(rng, &mut pool);
            let tree = id.as_bytes()[0] < b'8';
            let cb = u8::from(t == 4 && tree);
            let fl = *rng.pick(&["n", "n", "n", "h", "c"]);
            match rng.below(12) {
                0..=4 => {
                    stats.hit(format!("op.write.fault-{fl}"));
                    stats.hit(format!("type.{t}{}", if t == 4 { if tree { ".tree" } else { ".data" } } else { "" }));
                    steps.push(format!("w,{t},{id},{cb},{data},{fl}"));
                }
                5..=7 => {
                    stats.hit(format!("op.remove.fault-{fl}"));
                    steps.push(format!("d,{t},{id},{cb},{fl}"));
                }
                8 => {
                    stats.hit("op.read-full");
                    steps.push(format!("r,{t},{id}"));
                }
                9 | 10 => {
                    stats.hit("op.read-partial");
                    let off = rng.below(len as u64 + 1) as usize;
                    let l = rng.below((len - off) as u64 + 2) as usize;
                    steps.push(format!("p,{t},{id},{cb},{off},{l}"));
                }
                _ => {
                    stats.hit("op.list");
                    steps.push(format!("l,{t}"));
                }
            }
            if rng.chance(1, 6) {
                steps.push("o".into());
            }
        }
        steps.push("o".into());
        ops.push(format!("c16 hist {}", steps.join(";")));
    }
    let n_rep = if thorough { 6000 } else { 400 };
    for _ in 0..n_rep {
        let n = rng.range(1, 8);
        let mut items = Vec::new();
        for _ in 0..n {
            let t = *rng.pick(&[1u8, 2, 3]);
            let id = hex::encode(rng.bytes(32));
            let len = rng.range(1, 60) as usize;
            let d = hex(&rng.bytes(len));
            let item = match rng.below(7) {
                0 => {
                    stats.hit("repair.missing-in-hot");
                    format!("{t}:{id}:{d}:~")
                }
                1 => {
                    stats.hit("repair.hot-only");
                    format!("{t}:{id}:~:{d}")
                }
                2 => {
                    stats.hit("repair.hot-truncated");
                    format!("{t}:{id}:{d}:{}", hex(&crate::util::unhex(&d).unwrap()[..len / 2]))
                }
                3 => {
                    stats.hit("repair.hot-longer");
                    format!("{t}:{id}:{d}:{d}00")
                }
                4 => {
                    stats.hit("repair.hot-empty");
                    format!("{t}:{id}:{d}:-")
                }
                _ => {
                    stats.hit("repair.in-sync");
                    format!("{t}:{id}:{d}:{d}")
                }
            };
            items.push(item);
        }
        ops.push(format!("c16 repair {}", items.join(";")));
    }
    // repair of pack files: index files listing packs under `packs` / `packs_to_delete` (tree or data), pack files
    // missing in hot / hot-only / truncated / in sync / not listed at all
    let n_repp = if thorough { 5000 } else { 150 };
    for _ in 0..n_repp {
        let np = rng.range(1, 7);
        // kind of each pack label (consistent over all index files, except for an occasional contradicting listing)
        let kinds: Vec<char> = (0..np).map(|_| if rng.chance(3, 5) { 't' } else { 'd' }).collect();
        let nf = rng.range(1, 3) as usize;
        let mut files: Vec<(Vec<String>, Vec<String>)> = vec![(vec![], vec![]); nf];
        for n in 0..np as usize {
            let k = if rng.chance(1, 12) { if kinds[n] == 't' { 'd' } else { 't' } } else { kinds[n] };
            match rng.below(8) {
                0 => stats.hit("repairp.unlisted"),
                1 | 2 | 3 => {
                    stats.hit(format!("repairp.listed-packs.{k}"));
                    let f = rng.below(nf as u64) as usize;
                    files[f].0.push(format!("{k}{n}"));
                }
                4 | 5 | 6 => {
                    stats.hit(format!("repairp.marked-for-deletion.{k}"));
                    let f = rng.below(nf as u64) as usize;
                    files[f].1.push(format!("{k}{n}"));
                }
                _ => {
                    stats.hit("repairp.listed-twice");
                    let (f, g) = (rng.below(nf as u64) as usize, rng.below(nf as u64) as usize);
                    files[f].0.push(format!("{k}{n}"));
                    files[g].1.push(format!("{kinds}{n}", kinds = kinds[n]));
                }
            }
        }
        let mut items = Vec::new();
        for n in 0..np {
            let len = rng.range(1, 40) as usize;
            let d = hex(&rng.bytes(len));
            let tree = kinds[n as usize] == 't';
            // data packs are normally not in the hot store at all
            items.push(match rng.below(if tree { 6 } else { 9 }) {
                0 | 1 => format!("{n}:{d}:~"),
                2 => format!("{n}:{d}:{}", hex(&crate::util::unhex(&d).unwrap()[..len / 2])),
                3 => format!("{n}:{d}:{d}"),
                4 => format!("{n}:~:{d}"),
                5 => format!("{n}:{d}:{d}00"),
                _ => format!("{n}:{d}:~"),
            });
        }
        let j = |v: &Vec<String>| if v.is_empty() { "-".to_string() } else { v.join("+") };
        ops.push(format!("c16 repairp {} {}", files.iter().map(|(a, b)| format!("{}|{}", j(a), j(b))).collect::<Vec<_>>().join(";"), items.join(";")));
    }
    let n_repo = if thorough { 1000 } else { 24 };
    for _ in 0..n_repo {
        stats.hit("repo-level");
        ops.push(format!("c16 repo {}", rng.below(1 << 32)));
    }
    // directed histories: several backups with different trees, forget, a prune that only MARKS packs (tree packs end up
    // under `packs_to_delete`, still in both stores), then the hot store is lost (completely / partly) and repaired;
    // afterwards more commands on the repaired repository (deleting / recovering the marked packs, repair index, ...)
    let n_hist = if thorough { 1000 } else { 24 };
    for k in 0..n_hist {
        let mut st: Vec<&str> = Vec::new();
        for _ in 0..2 + rng.below(2) {
            st.push("b");
        }
        st.push(*rng.pick(&["f", "f", "F"]));
        st.push("m");
        if rng.chance(1, 3) {
            st.push(*rng.pick(&["b", "i", "m"]));
        }
        st.push(if k % 2 == 0 { "X" } else { "x" });
        for _ in 0..rng.below(3) {
            st.push(*rng.pick(&["b", "k", "p", "m", "i", "x", "f"]));
        }
        stats.hit("repo-hist.marked-packs-then-hot-loss");
        ops.push(format!("c16 repo-hist {} {}", st.join(","), rng.below(1 << 32)));
    }
    // directed histories: backups (+ forget / marking prune), then the index is lost completely / partly / an interrupted backup
    // leaves packs unindexed / index entries carry wrong pack sizes — each followed by `repair_index` (mostly WITHOUT read_all) on
    // the cold-strict store; afterwards further commands on the repaired repository
    let n_idx = if thorough { 1000 } else { 32 };
    for k in 0..n_idx {
        let mut st: Vec<&str> = Vec::new();
        if rng.chance(1, 8) {
            st.push("N");
        }
        for _ in 0..1 + rng.below(3) {
            st.push("b");
        }
        if rng.chance(1, 3) {
            st.push(*rng.pick(&["f", "F"]));
            st.push(*rng.pick(&["m", "b"]));
        }
        let dmg = ["I", "J", "u", "w"][k % 4];
        st.push(dmg);
        for _ in 0..rng.below(3) {
            st.push(*rng.pick(&["b", "p", "m", "i", "I", "J", "u", "w", "x", "f"]));
        }
        stats.hit(format!("repo-hist.index-damage-{dmg}-then-repair-index"));
        ops.push(format!("c16 repo-hist {} {}", st.join(","), rng.below(1 << 32)));
    }
    // directed histories with copy and config steps between backups / forget / prune / hot-store loss
    let n_cc = if thorough { 600 } else { 24 };
    for k in 0..n_cc {
        let mut st: Vec<&str> = Vec::new();
        if rng.chance(1, 8) {
            st.push("N");
        }
        st.push("b");
        for _ in 0..2 + rng.below(4) {
            st.push(*rng.pick(&["c", "c", "y", "y", "Y", "b", "f", "m", "p", "x", "i", "I"]));
        }
        st.push(["c", "y", "Y"][k % 3]);
        if rng.chance(1, 2) {
            st.push(*rng.pick(&["b", "p", "X", "k"]));
        }
        stats.hit("repo-hist.copy-and-config");
        ops.push(format!("c16 repo-hist {} {}", st.join(","), rng.below(1 << 32)));
    }
    // directed histories for the SECOND loop of `decide_repack` (resize repacks): a backup, a backup repeating part of it (+ new files),
    // optionally more, forget, then the `r` prune (max_unused 0 %, max_repack unlimited, repack_cacheable_only off): the older data
    // pack is partly used, the newer one fully used and too small; afterwards further commands
    let n_rs = if thorough { 800 } else { 28 };
    for k in 0..n_rs {
        let mut st: Vec<&str> = Vec::new();
        if rng.chance(1, 10) {
            st.push("N");
        }
        st.push("b");
        st.push("B");
        for _ in 0..rng.below(3) {
            st.push("B");
        }
        st.push(*rng.pick(&["f", "f", "f", "F"]));
        st.push("r");
        for _ in 0..rng.below(3) {
            st.push(*rng.pick(&["B", "F", "r", "r", "p", "i", "x", "k"]));
        }
        stats.hit("repo-hist.resize-prune");
        let seed = rng.below(1 << 32);
        let steps = st.join(",");
        // coverage probe (the first cases only: the case is run once more here): does the plan of the `r` prune really hold a resize
        // repack of a data pack next to a partly-used repack?
        if k < 10 {
            use std::sync::atomic::Ordering::Relaxed;
            let before = (R_PLANS.load(Relaxed), RESIZE_PLANS.load(Relaxed), RESIZE_AND_PARTLY_PLANS.load(Relaxed));
            let s2 = steps.clone();
            _ = crate::util::guarded(move || repo_hist(&s2, seed, false));
            stats.hit("resize-probe.histories");
            stats.add("resize-probe.r-prune-plans", R_PLANS.load(Relaxed) - before.0);
            stats.add("resize-probe.r-prune-plans-with-resize-repack-of-a-data-pack", RESIZE_PLANS.load(Relaxed) - before.1);
            stats.add("resize-probe.r-prune-plans-with-resize-repack-next-to-partly-used-repack", RESIZE_AND_PARTLY_PLANS.load(Relaxed) - before.2);
            if RESIZE_AND_PARTLY_PLANS.load(Relaxed) > before.2 {
                stats.hit("resize-probe.histories-with-resize-repack-next-to-partly-used-repack");
            }
        }
        ops.push(format!("c16 repo-hist {steps} {seed}"));
    }
    // warm-up of ALL file types: hot store lost (keys / snapshots / index files / tree packs / everything incl. the config / a random
    // subset), cold store refusing every read of a file that was not warmed up — by access (`RepositoryOptions::warm_up`) or natively
    let n_acc = if thorough { 1500 } else { 60 };
    for _ in 0..n_acc {
        stats.hit("access");
        ops.push(format!("c16 access {}", rng.below(1 << 32)));
    }
    // where a warm-up request goes: every combination of the store's own needs_warm_up x opts.warm_up x hot store x file type
    for n in 0..2 {
        for w in 0..2 {
            for h in 0..2 {
                for t in ["index", "key", "snapshot", "pack"] {
                    stats.hit("warmroute");
                    ops.push(format!("c16 warmroute {n} {w} {h} {t}"));
                }
            }
        }
    }
    // DESIGN §7 #15 (known finding): check --read-data on a warmed-up hot/cold repository
    stats.hit("repo-level.read-data");
    ops.push(format!("c16 repo-read-data {}", rng.below(1 << 32)));
}
