//! C20 — local storage backends are exact maps and publish atomically.
//! Real `rustic_backend::LocalBackend` (tempdir) and `rustic_backend::OpenDALBackend` (services `fs` and
//! `memory`) are driven by one history per op line; the Lean model (`Model/Backends.lean`) runs the same
//! history on its file-system state.  Channels:
//!   c20 hist <local|odfs|odmem> <create 0|1> <step>;<step>;…      one observation per step, joined by `;`
//!   c20 parse <name-hex>                                          `Id::parse_some` → lower-case hex or `none`
//! Steps (`t` = 0 config,1 index,2 key,3 snapshot,4 pack; data = hex | `-` | `g<seed>.<len>`):
//!   w,t,id,data   write_bytes            c,t,id,data  write interrupted at the pre-publish hook (local)
//!   d,t,id        remove                 r,t,id       read_full          p,t,id,off,len  read_partial
//!   l,t           list_with_size         i,t          list
//!   s,path,data   plant a stray file     m,path       plant a stray directory     f  on-disk layout
//! Direct oracles (independent of the model): a reference `BTreeMap` (reads, ranged reads, listings when only
//! foreign strays exist) and "the listing at the pre-publish point equals the listing before the write".
use std::cell::RefCell;
use std::collections::{BTreeMap, BTreeSet};
use std::path::{Path, PathBuf};
use std::rc::Rc;
use std::sync::Arc;

use bytes::Bytes;
use rustic_backend::{LocalBackend, OpenDALBackend};
use rustic_core::repofile::FileType;
use rustic_core::{BytesList, Id, WriteBackend};

use crate::repo::FILE_TYPES;
use crate::util::{Rng, Stats, guarded, hex, unhex};

pub fn data_of(tok: &str) -> Option<Vec<u8>> {
    if let Some(rest) = tok.strip_prefix('g') {
        let (seed, len) = rest.split_once('.')?;
        let mut r = Rng::new(seed.parse().ok()?);
        return Some(r.bytes(len.parse().ok()?));
    }
    unhex(tok)
}

pub fn digest(b: &[u8]) -> String {
    let mut h: u64 = 0xcbf2_9ce4_8422_2325;
    for x in b {
        h = h.wrapping_mul(0x0000_0100_0000_01b3).wrapping_add(u64::from(*x) + 1);
    }
    format!("{}:{h:016x}", b.len())
}

fn tpe_of(s: &str) -> Option<FileType> {
    FILE_TYPES.get(s.parse::<usize>().ok()?).copied()
}

fn id_of(s: &str) -> Option<Id> {
    if s.len() != 64 {
        return None;
    }
    s.parse().ok()
}

fn is_hex64(name: &str) -> bool {
    name.len() == 64 && name.bytes().all(|b| b.is_ascii_hexdigit())
}

fn fmt_listing(mut v: Vec<(Id, u32)>) -> String {
    v.sort();
    if v.is_empty() {
        return "-".into();
    }
    v.iter().map(|(id, n)| format!("{}:{n}", id.to_hex().as_str())).collect::<Vec<_>>().join("+")
}

fn all_listings(be: &dyn WriteBackend) -> String {
    FILE_TYPES
        .iter()
        .map(|t| match be.list_with_size(*t) {
            Ok(v) => fmt_listing(v),
            Err(_) => "err".into(),
        })
        .collect::<Vec<_>>()
        .join("|")
}

fn layout(root: &Path) -> String {
    fn walk(dir: &Path, rel: &str, out: &mut Vec<String>) {
        let Ok(rd) = std::fs::read_dir(dir) else { return };
        for e in rd.flatten() {
            let name = e.file_name().to_string_lossy().to_string();
            let r = if rel.is_empty() { name.clone() } else { format!("{rel}/{name}") };
            let Ok(ft) = e.file_type() else { continue };
            if ft.is_dir() {
                walk(&e.path(), &r, out);
            } else if ft.is_file() {
                let n = e.metadata().map(|m| m.len()).unwrap_or(0);
                out.push(format!("{r}:{n}"));
            }
        }
    }
    let mut out = Vec::new();
    walk(root, "", &mut out);
    out.sort();
    if out.is_empty() { "-".into() } else { out.join("+") }
}

fn split_content(c: &[u8], allow_empty_piece: bool) -> BytesList {
    // several pieces, one of them empty: exercises `BytesListReader`.  (An empty piece between non-empty ones makes
    // opendal 0.58's writer spin forever — `OpenDALBackend::write_bytes` hands the pieces over unmerged; rustic's own
    // callers never produce empty pieces, so this is kept out of the OpenDAL histories and recorded in notes/C20.md.)
    let mut bl = BytesList::default();
    match c.len() % 3 {
        0 => bl.add(Bytes::copy_from_slice(c)),
        1 if allow_empty_piece => {
            let k = c.len() / 3;
            bl.add(Bytes::copy_from_slice(&c[..k]));
            bl.add(Bytes::new());
            bl.add(Bytes::copy_from_slice(&c[k..]));
        }
        _ if c.len() < 2 => bl.add(Bytes::copy_from_slice(c)),
        _ => {
            let k = c.len() / 2;
            bl.add(Bytes::copy_from_slice(&c[..k]));
            bl.add(Bytes::copy_from_slice(&c[k..]));
        }
    }
    bl
}

struct Run {
    be: Arc<dyn WriteBackend>,
    root: Option<PathBuf>,
    local: bool,
    /// reference map (direct oracle)
    refmap: BTreeMap<(u8, Id), Vec<u8>>,
    /// a stray whose name looks like an id lies below a type directory: listings are no longer the map's
    quirk: bool,
    /// strays that collide with API paths make the reference map unreliable
    dirty: bool,
    fail: Option<&'static str>,
}

impl Run {
    fn oracle_listing(&mut self, only: Option<u8>) {
        if self.quirk || self.dirty || self.fail.is_some() {
            return;
        }
        for t in FILE_TYPES {
            if only.is_some_and(|o| o != crate::repo::ft_idx(t)) {
                continue;
            }
            let ti = crate::repo::ft_idx(t);
            let Ok(mut got) = self.be.list_with_size(t) else {
                self.fail = Some("oracle-fail:list-error");
                return;
            };
            got.sort();
            let want: Vec<(Id, u32)> = if t == FileType::Config {
                self.refmap.iter().filter(|((x, _), _)| *x == 0).map(|(_, c)| (Id::default(), c.len() as u32)).take(1).collect()
            } else {
                self.refmap.iter().filter(|((x, _), _)| *x == ti).map(|((_, id), c)| (*id, c.len() as u32)).collect()
            };
            if got != want {
                self.fail = Some("oracle-fail:listing-not-the-map");
                return;
            }
            let Ok(mut ids) = self.be.list(t) else {
                self.fail = Some("oracle-fail:list-error");
                return;
            };
            ids.sort();
            if ids != want.iter().map(|x| x.0).collect::<Vec<_>>() {
                self.fail = Some("oracle-fail:list-ids-not-the-map");
                return;
            }
        }
    }

    fn step(&mut self, s: &str) -> String {
        let f: Vec<&str> = s.split(',').collect();
        match f.as_slice() {
            ["w" | "c", t, id, data] => {
                let (Some(t), Some(id), Some(data)) = (tpe_of(t), id_of(id), data_of(data)) else { return "bad-op".into() };
                let crash = f[0] == "c";
                if crash && !self.local {
                    return "bad-op".into();
                }
                let mut seen: Rc<RefCell<Option<String>>> = Rc::new(RefCell::new(None));
                let before = if self.local { Some(all_listings(&*self.be)) } else { None };
                if self.local {
                    let be2 = self.be.clone();
                    let seen2 = seen.clone();
                    rustic_backend::verif::local::set_pre_publish(Some(Box::new(move |_tmp, _fin| {
                        *seen2.borrow_mut() = Some(all_listings(&*be2));
                        if crash {
                            std::panic::resume_unwind(Box::new("simulated crash before publish"));
                        }
                    })));
                }
                let be = self.be.clone();
                let bl = split_content(&data, self.local);
                let res = std::panic::catch_unwind(std::panic::AssertUnwindSafe(move || be.write_bytes(t, &id, t == FileType::Pack, bl)));
                if self.local {
                    rustic_backend::verif::local::set_pre_publish(None);
                    let at = Rc::get_mut(&mut seen).and_then(|c| c.borrow_mut().take());
                    match (&at, &before) {
                        (Some(a), Some(b)) if a != b => self.fail = self.fail.or(Some("oracle-fail:partial-file-listed-before-publish")),
                        (None, _) => self.fail = self.fail.or(Some("oracle-fail:pre-publish-hook-not-reached")),
                        _ => {}
                    }
                    if crash {
                        return match res {
                            Err(_) => format!("crash[{}]", at.unwrap_or_default()),
                            Ok(_) => "oracle-fail:crash-not-simulated".into(),
                        };
                    }
                }
                match res {
                    Ok(Ok(())) => {
                        let key = (crate::repo::ft_idx(t), if t == FileType::Config { Id::default() } else { id });
                        _ = self.refmap.insert(key, data);
                        "ok".into()
                    }
                    Ok(Err(_)) => "err".into(),
                    Err(_) => "panic".into(),
                }
            }
            ["d", t, id] => {
                let (Some(t), Some(id)) = (tpe_of(t), id_of(id)) else { return "bad-op".into() };
                let key = (crate::repo::ft_idx(t), if t == FileType::Config { Id::default() } else { id });
                match self.be.remove(t, &id, t == FileType::Pack) {
                    Ok(()) => {
                        _ = self.refmap.remove(&key);
                        "ok".into()
                    }
                    Err(_) => {
                        if self.refmap.contains_key(&key) && !self.dirty {
                            self.fail = self.fail.or(Some("oracle-fail:remove-of-present-file-failed"));
                        }
                        "err".into()
                    }
                }
            }
            ["r", t, id] => {
                let (Some(t), Some(id)) = (tpe_of(t), id_of(id)) else { return "bad-op".into() };
                let key = (crate::repo::ft_idx(t), if t == FileType::Config { Id::default() } else { id });
                let got = self.be.read_full(t, &id).ok();
                if !self.dirty && got.as_deref() != self.refmap.get(&key).map(Vec::as_slice) {
                    self.fail = self.fail.or(Some("oracle-fail:read-full-not-what-was-written"));
                }
                got.map_or("err".into(), |b| digest(&b))
            }
            ["p", t, id, off, len] => {
                let (Some(t), Some(id), Ok(off), Ok(len)) = (tpe_of(t), id_of(id), off.parse::<u32>(), len.parse::<u32>()) else {
                    return "bad-op".into();
                };
                let key = (crate::repo::ft_idx(t), if t == FileType::Config { Id::default() } else { id });
                let got = self.be.read_partial(t, &id, false, off, len).ok();
                if !self.dirty {
                    if let Some(c) = self.refmap.get(&key) {
                        let (o, l) = (off as usize, len as usize);
                        if o + l <= c.len() && got.as_deref() != Some(&c[o..o + l]) {
                            self.fail = self.fail.or(Some("oracle-fail:ranged-read-not-the-slice"));
                        }
                    } else if got.is_some() && (self.local || len > 0) {
                        // (OpenDAL answers a zero-length range without looking at the file)
                        self.fail = self.fail.or(Some("oracle-fail:ranged-read-of-absent-file"));
                    }
                }
                got.map_or("err".into(), |b| digest(&b))
            }
            ["l", t] => {
                let Some(t) = tpe_of(t) else { return "bad-op".into() };
                self.be.list_with_size(t).map_or("err".into(), fmt_listing)
            }
            ["i", t] => {
                let Some(t) = tpe_of(t) else { return "bad-op".into() };
                match self.be.list(t) {
                    Ok(mut v) => {
                        v.sort();
                        if v.is_empty() { "-".into() } else { v.iter().map(|i| i.to_hex().as_str().to_string()).collect::<Vec<_>>().join("+") }
                    }
                    Err(_) => "err".into(),
                }
            }
            ["s", path, data] => {
                let (Some(root), Some(data)) = (self.root.clone(), data_of(data)) else { return "bad-op".into() };
                if path.starts_with('/') || path.split('/').any(|c| c.is_empty() || c == "." || c == "..") {
                    return "bad-op".into();
                }
                let comps: Vec<&str> = path.split('/').collect();
                let name = comps[comps.len() - 1];
                let below_type_dir = comps.len() >= 2 && ["index", "keys", "snapshots", "data"].contains(&comps[0]);
                if below_type_dir && is_hex64(name) {
                    self.quirk = true;
                    self.dirty = true;
                }
                if *path == "config" {
                    self.dirty = true;
                }
                let p = root.join(path);
                if let Some(par) = p.parent() {
                    if std::fs::create_dir_all(par).is_err() {
                        return "err".into();
                    }
                }
                match std::fs::write(&p, data) {
                    Ok(()) => "ok".into(),
                    Err(_) => "err".into(),
                }
            }
            ["m", path] => {
                let Some(root) = self.root.clone() else { return "bad-op".into() };
                if path.starts_with('/') || path.split('/').any(|c| c.is_empty() || c == "." || c == "..") {
                    return "bad-op".into();
                }
                match std::fs::create_dir_all(root.join(path)) {
                    Ok(()) => "ok".into(),
                    Err(_) => "err".into(),
                }
            }
            ["f"] => match &self.root {
                Some(r) => layout(r),
                None => "bad-op".into(),
            },
            _ => "bad-op".into(),
        }
    }
}

fn hist(kind: &str, create: &str, steps: &str) -> String {
    let tmp = tempfile::tempdir().expect("tempdir");
    let root = tmp.path().join("repo");
    let (be, rootp, local): (Arc<dyn WriteBackend>, Option<PathBuf>, bool) = match kind {
        "local" => {
            std::fs::create_dir_all(&root).unwrap();
            (Arc::new(LocalBackend::new(root.to_str().unwrap(), Vec::new()).unwrap()), Some(root.clone()), true)
        }
        "odfs" => {
            std::fs::create_dir_all(&root).unwrap();
            let mut o = BTreeMap::new();
            _ = o.insert("root".to_string(), root.to_str().unwrap().to_string());
            match OpenDALBackend::new("fs", o) {
                Ok(b) => (Arc::new(b), Some(root.clone()), false),
                Err(_) => return "err:backend-new".into(),
            }
        }
        "odmem" => match OpenDALBackend::new("memory", BTreeMap::new()) {
            Ok(b) => (Arc::new(b), None, false),
            Err(_) => return "err:backend-new".into(),
        },
        _ => return "bad-op".into(),
    };
    match create {
        "1" => {
            if be.create().is_err() {
                return "err:create".into();
            }
        }
        "0" => {}
        _ => return "bad-op".into(),
    }
    let mut run = Run { be, root: rootp, local, refmap: BTreeMap::new(), quirk: false, dirty: false, fail: None };
    let mut out = Vec::new();
    for s in steps.split(';') {
        let o = run.step(s);
        if o == "bad-op" {
            return "bad-op".into();
        }
        out.push(o);
        // the listing of the type just touched must be the reference map's (all types at the end)
        let f: Vec<&str> = s.split(',').collect();
        if matches!(f[0], "w" | "c" | "d") {
            run.oracle_listing(f.get(1).and_then(|t| t.parse().ok()));
        }
    }
    run.oracle_listing(None);
    if let Some(f) = run.fail {
        return f.into();
    }
    out.join(";")
}

pub fn exec(t: &[&str]) -> String {
    let t: Vec<String> = t.iter().map(|s| (*s).to_string()).collect();
    guarded(move || match t.iter().map(String::as_str).collect::<Vec<_>>().as_slice() {
        ["hist", kind, create, steps] => hist(kind, create, steps),
        ["parse", name] => {
            let Some(n) = unhex(name) else { return "bad-op".into() };
            let s = String::from_utf8_lossy(&n).to_string();
            match Id::parse_some(&s, FileType::Snapshot) {
                Some(id) => id.to_hex().as_str().to_string(),
                None => "none".into(),
            }
        }
        _ => "bad-op".into(),
    })
}

// ------------------------------------------------------------------------------------------ generator

fn gen_id(rng: &mut Rng, pool: &mut Vec<String>) -> String {
    if !pool.is_empty() && rng.chance(3, 4) {
        return rng.pick(pool).clone();
    }
    let mut id = hex::encode(rng.bytes(32));
    if !pool.is_empty() {
        match rng.below(6) {
            // same two-character prefix (same data/xx directory), differs later
            0 => id = format!("{}{}", &rng.pick(pool)[..2], &id[2..]),
            // differs in the last character only
            1 => {
                let b = rng.pick(pool).clone();
                let last = if b.ends_with('0') { '1' } else { '0' };
                id = format!("{}{last}", &b[..63]);
            }
            // differs in the first character only
            2 => {
                let b = rng.pick(pool).clone();
                let first = if b.starts_with('f') { 'e' } else { 'f' };
                id = format!("{first}{}", &b[1..]);
            }
            _ => {}
        }
    } else if rng.chance(1, 8) {
        id = "0".repeat(64);
    }
    pool.push(id.clone());
    id
}

fn gen_data(rng: &mut Rng, thorough: bool, stats: &mut Stats) -> (String, usize) {
    let len = match rng.below(12) {
        0 => 0,
        1 => 1,
        2 => 2,
        3 => rng.range(3, 64) as usize,
        4 | 5 => rng.range(65, 1024) as usize,
        6 => 4096,
        7 => rng.range(4097, 70_000) as usize,
        8 if thorough => rng.range(1 << 20, 3 << 20) as usize,
        _ => rng.range(1, 300) as usize,
    };
    stats.hit(format!("data.len.{}", Stats::bucket(len)));
    stats.add("bytes", len as u64);
    if len > 256 {
        (format!("g{}.{len}", rng.below(1 << 40)), len)
    } else {
        (hex(&rng.bytes(len)), len)
    }
}

fn stray_name(rng: &mut Rng, pool: &[String], stats: &mut Stats) -> String {
    let base = if pool.is_empty() { hex::encode(rng.bytes(32)) } else { rng.pick(pool).clone() };
    match rng.below(9) {
        0 => {
            stats.hit("stray.tmp-name");
            format!("{base}-tmp-")
        }
        1 => {
            stats.hit("stray.63hex");
            base[..63].to_string()
        }
        2 => {
            stats.hit("stray.65hex");
            format!("{base}a")
        }
        3 => {
            stats.hit("stray.nonhex64");
            format!("{}g", &base[..63])
        }
        4 => {
            stats.hit("stray.UPPER64(listed)");
            hex::encode_upper(rng.bytes(32))
        }
        5 => {
            stats.hit("stray.hex64(listed)");
            hex::encode(rng.bytes(32))
        }
        6 => {
            stats.hit("stray.dotfile");
            ".DS_Store".into()
        }
        7 => {
            stats.hit("stray.other-tmp");
            format!("{base}.tmp")
        }
        _ => {
            stats.hit("stray.junk");
            format!("x{}", rng.below(1000))
        }
    }
}

fn stray_path(rng: &mut Rng, pool: &[String], stats: &mut Stats) -> String {
    let name = stray_name(rng, pool, stats);
    let dir = *rng.pick(&["index", "keys", "snapshots", "data"]);
    match rng.below(10) {
        0 => name, // repository root
        1 => format!("{dir}/sub/{name}"),
        7 => {
            stats.hit("stray.two-levels");
            format!("{dir}/sub/deeper/{name}")
        }
        8 => {
            stats.hit("stray.three-levels");
            format!("data/{}/x/y/{name}", if pool.is_empty() { "ab".to_string() } else { rng.pick(pool)[..2].to_string() })
        }
        9 => {
            // below a directory that itself carries an id-like name
            stats.hit("stray.below-id-named-dir");
            format!("{dir}/{}/{name}", hex::encode(rng.bytes(32)))
        }
        2 => format!("data/{}/{name}", if pool.is_empty() { "ab".to_string() } else { rng.pick(pool)[..2].to_string() }),
        3 => format!("other/{name}"),
        _ => format!("{dir}/{name}"),
    }
}

pub fn generate(thorough: bool, rng: &mut Rng, ops: &mut Vec<String>, stats: &mut Stats) {
    let n_hist = if thorough { 1500 } else { 220 };
    for h in 0..n_hist {
        let kind = match h % 5 {
            0 | 1 | 2 => "local",
            3 => "odfs",
            _ => "odmem",
        };
        stats.hit(format!("kind.{kind}"));
        let has_fs = kind != "odmem";
        let create = rng.chance(1, if kind == "odmem" { 2 } else { 8 });
        let n = if thorough { rng.range(4, 40) } else { rng.range(3, 22) } as usize;
        let mut pool: Vec<String> = Vec::new();
        let mut written: Vec<(u8, String, usize)> = Vec::new();
        let mut steps: Vec<String> = Vec::new();
        for _ in 0..n {
            let t = *rng.pick(&[0u8, 1, 2, 3, 3, 4, 4, 4]);
            let choice = rng.below(20);
            match choice {
                0..=5 => {
                    let id = if t == 0 { "0".repeat(64) } else { gen_id(rng, &mut pool) };
                    let (d, len) = gen_data(rng, thorough, stats);
                    let crash = kind == "local" && rng.chance(1, 4);
                    stats.hit(if crash { "op.crash-write" } else { "op.write" });
                    if written.iter().any(|(a, b, _)| *a == t && *b == id) {
                        stats.hit("op.overwrite");
                    }
                    steps.push(format!("{},{t},{id},{d}", if crash { "c" } else { "w" }));
                    if !crash {
                        written.retain(|(a, b, _)| !(*a == t && *b == id));
                        written.push((t, id, len));
                    }
                }
                6 | 7 => {
                    stats.hit("op.remove");
                    let (t, id) = if !written.is_empty() && rng.chance(3, 4) {
                        let (a, b, _) = rng.pick(&written).clone();
                        (a, b)
                    } else {
                        stats.hit("op.remove-missing");
                        (t, if t == 0 { "0".repeat(64) } else { gen_id(rng, &mut pool) })
                    };
                    written.retain(|(a, b, _)| !(*a == t && *b == id));
                    steps.push(format!("d,{t},{id}"));
                }
                8 | 9 => {
                    stats.hit("op.read-full");
                    let (t, id) = if !written.is_empty() && rng.chance(4, 5) {
                        let (a, b, _) = rng.pick(&written).clone();
                        (a, b)
                    } else {
                        (t, if t == 0 { "0".repeat(64) } else { gen_id(rng, &mut pool) })
                    };
                    steps.push(format!("r,{t},{id}"));
                }
                10..=13 => {
                    let (t, id, len) = if !written.is_empty() && rng.chance(9, 10) {
                        rng.pick(&written).clone()
                    } else {
                        (t, if t == 0 { "0".repeat(64) } else { gen_id(rng, &mut pool) }, 10)
                    };
                    let big = u32::MAX as usize;
                    let (off, l) = match rng.below(12) {
                        10 => {
                            // offset / length extremes of the u32 interface (offset + length beyond u32::MAX included);
                            // huge lengths only where the backend does not allocate the buffer up front (OpenDAL)
                            stats.hit("op.read-partial.extreme");
                            if kind == "local" {
                                *rng.pick(&[(big, 0), (big, 1), (big - 1, 1), (len, 0)])
                            } else {
                                *rng.pick(&[(big, 0), (big, 1), (1, big), (big, big), (len, big - len + 1), (0, big), (len.saturating_sub(1), big)])
                            }
                        }
                        11 => {
                            stats.hit("op.read-partial.last-byte-and-beyond");
                            *rng.pick(&[(len.saturating_sub(1), 1), (len.saturating_sub(1), 2), (len, 1), (0, len + 1)])
                        }
                        0 => (0, len),
                        1 => (0, 0),
                        2 => (len, 0),
                        3 => (len.saturating_sub(1), 1),
                        4 => {
                            stats.hit("op.read-partial.past-end");
                            (rng.below(len as u64 + 2) as usize, len + 1 - rng.below(2) as usize)
                        }
                        5 => {
                            stats.hit("op.read-partial.past-end");
                            (len + 1 + rng.below(5) as usize, rng.below(3) as usize)
                        }
                        _ => {
                            let o = rng.below(len as u64 + 1) as usize;
                            (o, rng.below((len - o) as u64 + 1) as usize)
                        }
                    };
                    stats.hit("op.read-partial");
                    steps.push(format!("p,{t},{id},{off},{l}"));
                }
                14 | 15 => {
                    stats.hit("op.list");
                    steps.push(format!("{},{t}", if rng.chance(2, 3) { "l" } else { "i" }));
                }
                16 | 17 if has_fs => {
                    let p = stray_path(rng, &pool, stats);
                    let (d, _) = gen_data(rng, false, stats);
                    stats.hit("op.stray-file");
                    steps.push(format!("s,{p},{d}"));
                }
                18 if has_fs => {
                    stats.hit("op.stray-dir");
                    let dir = *rng.pick(&["index", "keys", "snapshots", "data", "data/ab"]);
                    if rng.chance(1, 3) {
                        stats.hit("op.stray-dir.nested");
                        steps.push(format!("m,{dir}/n1/n2/{}", hex::encode(rng.bytes(32))));
                    } else {
                        steps.push(format!("m,{dir}/{}", hex::encode(rng.bytes(32))));
                    }
                }
                _ => {
                    stats.hit("op.list");
                    steps.push(format!("l,{}", rng.below(5)));
                }
            }
        }
        for t in 0..5 {
            steps.push(format!("l,{t}"));
        }
        if has_fs {
            steps.push("f".into());
        }
        stats.hit(format!("hist.len.{}", Stats::bucket(steps.len())));
        ops.push(format!("c20 hist {kind} {} {}", u8::from(create), steps.join(";")));
    }
    let n_parse = if thorough { 4000 } else { 500 };
    for _ in 0..n_parse {
        let len = *rng.pick(&[0usize, 1, 2, 62, 63, 64, 64, 64, 64, 65, 66, 69, 128]);
        let mut name: Vec<u8> = (0..len)
            .map(|_| *rng.pick(b"0123456789abcdef0123456789abcdefABCDEF"))
            .collect();
        if !name.is_empty() && rng.chance(1, 3) {
            let i = rng.below(name.len() as u64) as usize;
            name[i] = *rng.pick(b"gG/:@`-. xzZ\x00\x7f");
            stats.hit("parse.bad-char");
        }
        stats.hit(format!("parse.len.{len}"));
        ops.push(format!("c20 parse {}", hex(&name)));
    }
    let _ = BTreeSet::<u8>::new();
}
