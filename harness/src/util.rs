//! Shared helpers: the single PRNG (splitmix64, bit-identical with Driver/Util.lean), hex, stats.
use std::collections::BTreeMap;
use std::io::{self, Read};

#[derive(Clone, Debug)]
pub struct Rng(pub u64);

impl Rng {
    pub fn new(seed: u64) -> Self {
        Self(seed)
    }
    pub fn next(&mut self) -> u64 {
        self.0 = self.0.wrapping_add(0x9E37_79B9_7F4A_7C15);
        let mut z = self.0;
        z = (z ^ (z >> 30)).wrapping_mul(0xBF58_476D_1CE4_E5B9);
        z = (z ^ (z >> 27)).wrapping_mul(0x94D0_49BB_1331_11EB);
        z ^ (z >> 31)
    }
    /// uniform in 0..n (n > 0)
    pub fn below(&mut self, n: u64) -> u64 {
        self.next() % n
    }
    pub fn range(&mut self, lo: u64, hi_incl: u64) -> u64 {
        lo + self.below(hi_incl - lo + 1)
    }
    pub fn chance(&mut self, num: u64, den: u64) -> bool {
        self.below(den) < num
    }
    pub fn pick<'a, T>(&mut self, xs: &'a [T]) -> &'a T {
        &xs[self.below(xs.len() as u64) as usize]
    }
    pub fn bytes(&mut self, n: usize) -> Vec<u8> {
        let mut v = Vec::with_capacity(n + 8);
        while v.len() < n {
            v.extend_from_slice(&self.next().to_le_bytes());
        }
        v.truncate(n);
        v
    }
    pub fn fork(&mut self) -> Rng {
        Rng(self.next())
    }
}

pub fn hex(b: &[u8]) -> String {
    if b.is_empty() { "-".to_string() } else { hex::encode(b) }
}

pub fn unhex(s: &str) -> Option<Vec<u8>> {
    if s == "-" { Some(vec![]) } else { hex::decode(s).ok() }
}

/// Measured distribution of what a generator produced (goes into the evidence file).
#[derive(Default, Debug)]
pub struct Stats {
    pub counters: BTreeMap<String, u64>,
}

impl Stats {
    pub fn hit(&mut self, key: impl Into<String>) {
        *self.counters.entry(key.into()).or_default() += 1;
    }
    pub fn add(&mut self, key: impl Into<String>, n: u64) {
        *self.counters.entry(key.into()).or_default() += n;
    }
    pub fn bucket(n: usize) -> &'static str {
        match n {
            0 => "0",
            1 => "1",
            2..=63 => "2-63",
            64..=4095 => "64-4095",
            4096..=65535 => "4k-64k",
            65536..=1048575 => "64k-1M",
            _ => ">=1M",
        }
    }
    pub fn to_json(&self) -> String {
        serde_json::to_string(&self.counters).unwrap()
    }
}

/// A reader that fragments its answers by seed: short reads, 1-byte reads, `Interrupted` bursts.
pub struct FragReader {
    data: Vec<u8>,
    pos: usize,
    rng: Rng,
    mode: u8,
}

impl FragReader {
    /// mode 0: full reads; 1: 1-byte reads; 2: random short reads; 3: short reads + Interrupted bursts;
    /// 4: reads of exactly the buffer length when possible, Interrupted before each.
    pub fn new(data: Vec<u8>, seed: u64, mode: u8) -> Self {
        Self { data, pos: 0, rng: Rng::new(seed), mode }
    }
}

impl Read for FragReader {
    fn read(&mut self, buf: &mut [u8]) -> io::Result<usize> {
        let avail = self.data.len() - self.pos;
        let want = buf.len().min(avail);
        if want == 0 {
            if self.mode >= 3 && self.rng.chance(1, 3) {
                return Err(io::Error::from(io::ErrorKind::Interrupted));
            }
            return Ok(0);
        }
        let n = match self.mode {
            0 => want,
            1 => 1,
            2 => 1 + self.rng.below(want as u64) as usize,
            3 => {
                if self.rng.chance(1, 3) {
                    return Err(io::Error::from(io::ErrorKind::Interrupted));
                }
                let cap = *self.rng.pick(&[1usize, 2, 7, 63, 64, 65, 1000, 4095, 4096, 100_000]);
                want.min(cap)
            }
            _ => {
                if self.rng.chance(1, 2) {
                    return Err(io::Error::from(io::ErrorKind::Interrupted));
                }
                want
            }
        };
        buf[..n].copy_from_slice(&self.data[self.pos..self.pos + n]);
        self.pos += n;
        Ok(n)
    }
}

/// Run `f`, mapping a panic to `panic:<message>`.
pub fn guarded(f: impl FnOnce() -> String + std::panic::UnwindSafe) -> String {
    match std::panic::catch_unwind(f) {
        Ok(s) => s,
        Err(e) => {
            let msg = if let Some(s) = e.downcast_ref::<&str>() {
                (*s).to_string()
            } else if let Some(s) = e.downcast_ref::<String>() {
                s.clone()
            } else {
                "?".to_string()
            };
            format!("panic:{}", msg.replace(['\n', ' '], "_"))
        }
    }
}

/// Errors are compared by kind only.
pub fn errkind(e: &rustic_core::RusticError) -> String {
    format!("err:{:?}", rustic_core::verif::error::kind(e))
}

/// Time limits of watchdog-style oracles are stated for an idle host and stretched on a loaded one:
/// `1 + ceil(load1 / cores)`, at most 8 (a saturated machine must not turn a slow case into a reported hang).
pub fn load_factor() -> u64 {
    let load = std::fs::read_to_string("/proc/loadavg")
        .ok()
        .and_then(|s| s.split_whitespace().next().and_then(|x| x.parse::<f64>().ok()))
        .unwrap_or(0.0);
    let cores = std::thread::available_parallelism().map_or(1, std::num::NonZeroUsize::get) as f64;
    (1 + (load / cores).ceil() as u64).min(8)
}
