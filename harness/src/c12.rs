//! C12 — copy / merge / rewrite / repair keep the content they keep.
//!
//! Op lines (`|` separates what the Lean model reads from the raw store the real commands run on):
//!   c12 merge   <trees…>                       | [M:<i,j,…>] <store>   (M: the snapshots merged, indices in label order,
//!                                                                      repeats allowed; default: all, once each)
//!   c12 rewrite <x:path:isdir…> <trees…>        | G:<glob-hex>… <store>
//!   c12 rewrite2 …                                                   (the same rewrite applied twice: idempotent)
//!   c12 repair  <h:id…> <trees…>                | [B:<label>:<path-hex>:<len>:<sha>…] <store>
//!                                                                     (store = damaged + `repair index` done; `B:` = length and
//!                                                                      SHA-256 prefix of the SOURCE bytes of a file of snapshot
//!                                                                      <label>, written by the generator: "original bytes")
//!   c12 copy    <k:…/t:… blob keys> <…>         | <store>
//! Trees are serialised in pre-order: `S` (next snapshot, in label order), `L:<name>:<key>:<tag>` (non-dir),
//! `D:<name>:<key>:<tag>` … `E` (dir with subtree), `X:<name>:<key>:<tag>` (dir without subtree),
//! `U:<name>:<key>:<tag>` (dir whose subtree cannot be read; `V:` if that subtree id is the empty tree's).  `<name>` is the rank of the node's unescaped
//! name (`Node::name()`, the order trees are sorted by) among all names of the case in byte order — merge only
//! compares names, so an order-isomorphic encoding is faithful; `<key>` = mtime seconds (the `cmp` of merge); `<tag>` = interned
//! hash of everything else in the node (type, content ids, metadata, link target).
//! Observation of merge/rewrite/repair: the resulting snapshot trees as listings
//!   `path|d/l|key|tag;…`  (snapshots joined by ` # `, in label order).
//! Merge ties: when several *differing* nodes of one path share the maximal key the ordering does not determine the
//! winner (the code takes the last maximum in `BinaryHeap` pop order).  Both sides then print `path|T|key|c+c+…` (the
//! sorted candidate codes `2*tag + isdir`) and list the children only if all candidates are directories; the real winner
//! must be one of the candidates (otherwise it is printed as it is and disagrees with the model).
use std::collections::{BTreeMap, BTreeSet};
use std::path::PathBuf;

use crate::dispatch::c05::{SingleFileSource, all_digests, init_repo, open_nc, parse_store, sha_hex, store_tokens, tree_digest};
use crate::repo::{MemBackend, MemSource, RepoHandle, SRC_ROOT, SrcEntry, SrcKind, Store, ft_idx};
use crate::util::{Rng, Stats, errkind, guarded, hex, unhex};
use rustic_core::repofile::{FileType, MasterKey, Node, SnapshotFile, Tree};
use rustic_core::{
    BackupOptions, ConfigOptions, Excludes, IndexedFull, LimitOption, PruneOptions, RepairIndexOptions, RepairSnapshotsOptions,
    Repository, RewriteOptions, RewriteTreesOptions, TreeId, last_modified_node,
};

// ---------------------------------------------------------------------------------------------------------
// trees as the model sees them

#[derive(Clone, Debug)]
pub enum Sub {
    None,
    Unreadable,
    /// unreadable, and the subtree id is the id of the empty tree (repair re-creates exactly that blob)
    UnreadableEmpty,
    Tree(Vec<TNode>),
}

pub fn empty_tree_id() -> TreeId {
    Tree::default().serialize().unwrap().1
}

#[derive(Clone, Debug)]
pub struct TNode {
    pub name: String,
    pub raw_name: Vec<u8>,
    pub is_dir: bool,
    pub key: i64,
    pub tag: String,
    pub sub: Sub,
    pub content: Vec<String>,
    pub size: u64,
    pub is_file: bool,
}

fn node_tag(n: &Node) -> String {
    let mut m = n.clone();
    m.name = String::new();
    m.subtree = None;
    sha_hex(serde_json::to_string(&m).unwrap().as_bytes())[..12].to_string()
}

pub fn load_tree<S: IndexedFull>(repo: &Repository<S>, id: TreeId, depth: usize) -> Option<Vec<TNode>> {
    use std::os::unix::ffi::OsStrExt;
    let tree: Tree = repo.get_tree(&id).ok()?;
    let mut out = Vec::new();
    for n in tree.nodes {
        let sub = if n.is_dir() {
            match n.subtree {
                None => Sub::None,
                Some(s) if depth > 40 => {
                    let _ = s;
                    Sub::Unreadable
                }
                Some(s) => load_tree(repo, s, depth + 1)
                    .map_or(if s == empty_tree_id() { Sub::UnreadableEmpty } else { Sub::Unreadable }, Sub::Tree),
            }
        } else {
            Sub::None
        };
        out.push(TNode {
            name: n.name.clone(),
            raw_name: n.name().as_bytes().to_vec(),
            is_dir: n.is_dir(),
            key: n.meta.mtime.map_or(0, |t| t.as_second()),
            tag: node_tag(&n),
            sub,
            content: n.content.iter().flatten().map(|c| c.to_hex().to_string()).collect(),
            size: n.meta.size,
            is_file: n.is_file(),
        });
    }
    Some(out)
}

fn collect_names(ts: &[TNode], acc: &mut BTreeSet<(Vec<u8>, String)>) {
    for t in ts {
        // rank by the *unescaped* name (`Node::name()`, the order trees are sorted by), keyed by the stored name
        _ = acc.insert((t.raw_name.clone(), t.name.clone()));
        if let Sub::Tree(s) = &t.sub {
            collect_names(s, acc);
        }
    }
}

#[derive(Default)]
pub struct Enc {
    names: BTreeMap<String, usize>,
    tags: BTreeMap<String, usize>,
}

impl Enc {
    pub fn new(trees: &[Option<Vec<TNode>>]) -> Self {
        let mut set = BTreeSet::new();
        for t in trees.iter().flatten() {
            collect_names(t, &mut set);
        }
        Self { names: set.into_iter().enumerate().map(|(i, (_, n))| (n, i)).collect(), tags: BTreeMap::new() }
    }
    fn name(&self, n: &str) -> String {
        // names created by a command (repair suffix) are not in the table
        self.names.get(n).map_or_else(|| format!("?{}", hex(n.as_bytes())), ToString::to_string)
    }
    fn tag(&mut self, t: &str) -> usize {
        let n = self.tags.len();
        *self.tags.entry(t.to_string()).or_insert(n)
    }
    pub fn tokens(&mut self, ts: &[TNode], out: &mut Vec<String>) {
        for t in ts {
            let head = format!("{}:{}:{}", self.name(&t.name), t.key, self.tag(&t.tag));
            if !t.is_dir {
                out.push(format!("L:{head}"));
            } else {
                match &t.sub {
                    Sub::None => out.push(format!("X:{head}")),
                    Sub::Unreadable => out.push(format!("U:{head}")),
                    Sub::UnreadableEmpty => out.push(format!("V:{head}")),
                    Sub::Tree(s) => {
                        out.push(format!("D:{head}"));
                        self.tokens(s, out);
                        out.push("E".into());
                    }
                }
            }
        }
    }
    pub fn listing(&mut self, ts: &[TNode], prefix: &str, out: &mut Vec<String>) {
        for t in ts {
            let p = if prefix.is_empty() { self.name(&t.name) } else { format!("{prefix}/{}", self.name(&t.name)) };
            out.push(format!("{p}|{}|{}|{}", if t.is_dir { "d" } else { "l" }, t.key, self.tag(&t.tag)));
            if let Sub::Tree(s) = &t.sub {
                self.listing(s, &p, out);
            }
        }
    }
}

fn show_listing(enc: &mut Enc, t: &Option<Vec<TNode>>) -> String {
    match t {
        None => "unreadable".into(),
        Some(ts) => {
            let mut v = Vec::new();
            enc.listing(ts, "", &mut v);
            if v.is_empty() { "-".into() } else { v.join(";") }
        }
    }
}

/// listing of a merge result with ties canonicalised (see the module comment); `inputs` = the node lists merged here
fn merge_listing(enc: &mut Enc, res: &[TNode], inputs: &[&[TNode]], prefix: &str, out: &mut Vec<String>) {
    for r in res {
        let group: Vec<&TNode> = inputs.iter().filter_map(|l| l.iter().find(|t| t.name == r.name)).collect();
        let maxkey = group.iter().map(|t| t.key).max().unwrap_or(r.key);
        let mut cands: Vec<usize> = group.iter().filter(|t| t.key == maxkey).map(|t| enc.tag(&t.tag) * 2 + usize::from(t.is_dir)).collect();
        cands.sort_unstable();
        cands.dedup();
        let own = enc.tag(&r.tag) * 2 + usize::from(r.is_dir);
        let p = if prefix.is_empty() { enc.name(&r.name) } else { format!("{prefix}/{}", enc.name(&r.name)) };
        let subs: Vec<&[TNode]> = group
            .iter()
            .filter(|t| t.is_dir)
            .filter_map(|t| if let Sub::Tree(s) = &t.sub { Some(s.as_slice()) } else { None })
            .collect();
        let descend = if cands.len() > 1 && cands.contains(&own) && r.key == maxkey {
            out.push(format!("{p}|T|{maxkey}|{}", cands.iter().map(usize::to_string).collect::<Vec<_>>().join("+")));
            cands.iter().all(|c| c % 2 == 1)
        } else {
            out.push(format!("{p}|{}|{}|{}", if r.is_dir { "d" } else { "l" }, r.key, enc.tag(&r.tag)));
            r.is_dir
        };
        if descend {
            if let Sub::Tree(s) = &r.sub {
                merge_listing(enc, s, &subs, &p, out);
            }
        }
    }
}

/// duplicate sibling names anywhere in the tree (the result of a merge must be a map from paths to nodes)
fn has_dup(ts: &[TNode]) -> bool {
    let mut seen = BTreeSet::new();
    for t in ts {
        if !seen.insert(&t.name) {
            return true;
        }
        if let Sub::Tree(s) = &t.sub {
            if has_dup(s) {
                return true;
            }
        }
    }
    false
}

/// snapshots in label order (labels `s0`, `s1`, … are given at backup time and survive every command)
fn snaps_by_label(h: &RepoHandle) -> Option<Vec<SnapshotFile>> {
    let repo = open_nc(h).ok()?;
    let mut s = repo.get_all_snapshots().ok()?;
    s.sort_by(|a, b| (a.label.clone(), a.id.to_hex().to_string()).cmp(&(b.label.clone(), b.id.to_hex().to_string())));
    Some(s)
}

fn load_all(h: &RepoHandle, snaps: &[SnapshotFile]) -> Option<Vec<Option<Vec<TNode>>>> {
    let repo = open_nc(h).ok()?.to_indexed().ok()?;
    Some(snaps.iter().map(|s| load_tree(&repo, s.tree, 0)).collect())
}

fn tree_tokens(enc: &mut Enc, trees: &[Option<Vec<TNode>>]) -> Vec<String> {
    let mut out = Vec::new();
    for t in trees {
        match t {
            None => out.push("SU".to_string()),
            Some(ts) => {
                out.push("S".to_string());
                enc.tokens(ts, &mut out);
            }
        }
    }
    out
}

// ---------------------------------------------------------------------------------------------------------
// generator side: repositories with overlapping names of differing types

const NAMES: [&[u8]; 12] = [b"a", b"b", b"B", b"c", b"\"q", b"\\z", b"\xc3\xa9", b"\xff\xfe", b"a b", b"zz", b"A", b"\x01c"];

fn rand_source(rng: &mut Rng, stats: &mut Stats, gen_no: i64, plain_names: bool) -> MemSource {
    let n = 1 + rng.below(6) as usize;
    let pool: &[&[u8]] = if plain_names { &NAMES[..4] } else { &NAMES };
    let mut es: Vec<SrcEntry> = Vec::new();
    let mut used: BTreeSet<Vec<Vec<u8>>> = BTreeSet::new();
    for _ in 0..n {
        let depth = 1 + rng.below(3) as usize;
        let path: Vec<Vec<u8>> = (0..depth).map(|_| rng.pick(pool).to_vec()).collect();
        // a path may not be both a file and a prefix of another entry
        if used.iter().any(|u| u.starts_with(&path) || path.starts_with(u)) {
            continue;
        }
        _ = used.insert(path.clone());
        let refs: Vec<&[u8]> = path.iter().map(Vec::as_slice).collect();
        let len = *rng.pick(&[0usize, 3, 50, 900, 2500]);
        let mut e = SrcEntry::file(&refs, &rng.bytes(len));
        if rng.chance(1, 6) {
            e.kind = SrcKind::Symlink(b"target".to_vec());
            stats.hit("node.symlink");
        }
        // distinct mtimes between generations so that the merge ordering is strict for differing nodes
        e.mtime_s = 1_600_000_000 + gen_no * 1000 + 1 + rng.below(899) as i64;
        e.ctime_s = e.mtime_s;
        es.push(e);
    }
    if rng.chance(1, 3) {
        let dn: &[u8] = *rng.pick(pool);
        let mut d = SrcEntry::dir(&[dn]);
        if !used.iter().any(|u| u.starts_with(&d.path)) {
            d.mtime_s = 1_600_000_000 + gen_no * 1000 + 950;
            es.push(d);
        }
    }
    let mut src = MemSource::new(es);
    // synthesised parent directories get a generation-specific mtime too
    for e in &mut src.entries {
        if matches!(e.kind, SrcKind::Dir) && e.mtime_s == 1_600_000_000 {
            e.mtime_s = 1_600_000_000 + gen_no * 1000 + 990;
            e.ctime_s = e.mtime_s;
        }
    }
    src
}

/// `MemSource` with nodes as a real backup stores them: `LocalSource` applies the default `NodeModification`
/// (atime := mtime, device id 0 unless hard-linked) before archiving, and `rewrite` applies the same modification
/// again — a no-op on such nodes, but not on `MemSource`'s raw `device_id: 1`.
#[derive(Clone, Debug)]
pub struct NormSource(pub MemSource);
impl rustic_core::ReadSource for NormSource {
    type Open = <MemSource as rustic_core::ReadSource>::Open;
    type Iter = std::vec::IntoIter<rustic_core::RusticResult<rustic_core::ReadSourceEntry<Self::Open>>>;
    fn size(&self) -> rustic_core::RusticResult<Option<u64>> {
        Ok(None)
    }
    fn entries(&self) -> Self::Iter {
        let v: Vec<_> = rustic_core::ReadSource::entries(&self.0)
            .map(|e| {
                e.map(|mut e| {
                    e.node.meta.device_id = 0;
                    e
                })
            })
            .collect();
        v.into_iter()
    }
}

pub fn backup_labelled(h: &RepoHandle, src: &MemSource, label: &str) -> Option<SnapshotFile> {
    let repo = open_nc(h).ok()?.to_indexed_ids().ok()?;
    let mut snap = SnapshotFile::default();
    snap.label = label.to_string();
    repo.archive(&BackupOptions::default(), &NormSource(src.clone()), snap, &[PathBuf::from(SRC_ROOT)]).ok()
}

fn small_cfg(rng: &mut Rng) -> ConfigOptions {
    let mut c = ConfigOptions::default();
    if rng.chance(1, 2) {
        c.set_compression = Some(*rng.pick(&[0i32, 3]));
    }
    if rng.chance(1, 2) {
        c.set_datapack_size = Some(bytesize::ByteSize(*rng.pick(&[1u64, 3000])));
        c.set_treepack_size = Some(bytesize::ByteSize(*rng.pick(&[1u64, 800])));
    }
    c
}

fn build(rng: &mut Rng, stats: &mut Stats, n_snaps: usize, plain_names: bool) -> Option<RepoHandle> {
    build_src(rng, stats, n_snaps, plain_names).map(|x| x.0)
}

/// `build` that also returns the `B:` tokens of the sources backed up (see `source_tokens`)
fn build_src(rng: &mut Rng, stats: &mut Stats, n_snaps: usize, plain_names: bool) -> Option<(RepoHandle, Vec<String>)> {
    let h = init_repo(&small_cfg(rng), rng.chance(1, 4))?;
    let mut btoks = Vec::new();
    let mut prev: Option<MemSource> = None;
    for k in 0..n_snaps {
        let src = match &prev {
            Some(p) if rng.chance(1, 3) => {
                // a variation of the previous source: shared blobs and subtrees, some nodes changed
                let mut es: Vec<SrcEntry> = p.entries.iter().filter(|e| !matches!(e.kind, SrcKind::Dir)).cloned().collect();
                if !es.is_empty() && rng.chance(1, 2) {
                    let i = rng.below(es.len() as u64) as usize;
                    es[i].kind = SrcKind::File(rng.bytes(10));
                    es[i].mtime_s = 1_600_000_000 + k as i64 * 1000 + 5;
                    es[i].ctime_s = es[i].mtime_s;
                }
                stats.hit("source.variation");
                MemSource::new(es)
            }
            _ => rand_source(rng, stats, k as i64, plain_names),
        };
        _ = backup_labelled(&h, &src, &format!("s{k}"))?;
        btoks.extend(source_tokens(&format!("s{k}"), &src));
        prev = Some(src);
    }
    Some((h, btoks))
}

fn finish_line(op: &str, model: Vec<String>, extra: Vec<String>, h: &RepoHandle) -> String {
    let mut t = vec!["c12".to_string(), op.to_string()];
    t.extend(model);
    t.push("|".into());
    t.extend(extra);
    t.extend(store_tokens(&h.key, &h.be.store()));
    t.join(" ")
}

// ---- merge ------------------------------------------------------------------------------------------------

/// the snapshots a merge op takes: all in label order, or those selected by `M:i,j,…` (repeats allowed)
fn select_snaps(h: &RepoHandle, sel: Option<&[usize]>) -> Option<Vec<SnapshotFile>> {
    let snaps = snaps_by_label(h)?;
    match sel {
        None => Some(snaps),
        Some(ix) => ix.iter().map(|i| snaps.get(*i).cloned()).collect(),
    }
}

fn merge_model(h: &RepoHandle, sel: Option<&[usize]>) -> Option<Vec<String>> {
    let snaps = select_snaps(h, sel)?;
    let trees = load_all(h, &snaps)?;
    let mut enc = Enc::new(&trees);
    Some(tree_tokens(&mut enc, &trees))
}

fn merge_exec(h: &RepoHandle, sel: Option<&[usize]>) -> String {
    let Some(snaps) = select_snaps(h, sel) else { return "err:snapshots".into() };
    let Some(trees) = load_all(h, &snaps) else { return "err:load".into() };
    let mut enc = Enc::new(&trees);
    let _ = tree_tokens(&mut enc, &trees); // same tag numbering as the model tokens
    let repo = match open_nc(h).and_then(Repository::to_indexed) {
        Ok(r) => r,
        Err(e) => return errkind(&e),
    };
    let mut snap = SnapshotFile::default();
    snap.label = "merged".into();
    let merged = match repo.merge_snapshots(&snaps, &last_modified_node, snap) {
        Ok(s) => s,
        Err(e) => return errkind(&e),
    };
    let repo = match open_nc(h).and_then(Repository::to_indexed) {
        Ok(r) => r,
        Err(e) => return errkind(&e),
    };
    let res = load_tree(&repo, merged.tree, 0);
    if let Some(ts) = &res {
        if has_dup(ts) {
            return "oracle-fail:merge-duplicate-name".into();
        }
    }
    // every merged file must still read back (content blobs are shared, trees are new)
    if tree_digest(&repo, merged.tree).is_err() {
        return "oracle-fail:merge-unreadable".into();
    }
    let Some(res) = res else { return "ok unreadable".into() };
    let inputs: Vec<&[TNode]> = trees.iter().flatten().map(Vec::as_slice).collect();
    let mut v = Vec::new();
    merge_listing(&mut enc, &res, &inputs, "", &mut v);
    format!("ok {}", if v.is_empty() { "-".into() } else { v.join(";") })
}

// ---- rewrite ----------------------------------------------------------------------------------------------

fn all_paths(ts: &[TNode], prefix: &mut Vec<Vec<u8>>, ranks: &mut Vec<String>, enc: &Enc, out: &mut Vec<(PathBuf, String, bool)>) {
    use std::os::unix::ffi::OsStringExt;
    for t in ts {
        prefix.push(t.raw_name.clone());
        ranks.push(enc.name(&t.name));
        let mut p = PathBuf::new();
        for c in prefix.iter() {
            p.push(std::ffi::OsString::from_vec(c.clone()));
        }
        out.push((p, ranks.join("."), t.is_dir));
        if let Sub::Tree(s) = &t.sub {
            all_paths(s, prefix, ranks, enc, out);
        }
        _ = prefix.pop();
        _ = ranks.pop();
    }
}

fn rewrite_model(h: &RepoHandle, globs: &[String]) -> Option<Vec<String>> {
    let snaps = snaps_by_label(h)?;
    let trees = load_all(h, &snaps)?;
    let mut enc = Enc::new(&trees);
    let ov = Excludes::default().globs(globs.to_vec()).as_override().ok()?;
    let mut out = Vec::new();
    if ov.matched(PathBuf::new(), true).is_ignore() {
        out.push("x::1".to_string());
    }
    let mut seen = BTreeSet::new();
    for t in trees.iter().flatten() {
        let mut ps = Vec::new();
        all_paths(t, &mut Vec::new(), &mut Vec::new(), &enc, &mut ps);
        for (p, r, is_dir) in ps {
            // what `process_node` asks: matched(path, node.is_dir())
            if ov.matched(&p, is_dir).is_ignore() && seen.insert((r.clone(), is_dir)) {
                out.push(format!("x:{r}:{}", u8::from(is_dir)));
            }
        }
    }
    out.extend(tree_tokens(&mut enc, &trees));
    Some(out)
}

/// `nothing_excluded`: no path of any snapshot is excluded, or the root path itself is (then the snapshot is left
/// alone) — the trees must keep their ids.  `twice`: the rewrite is applied again to its own result.
fn rewrite_exec(h: &RepoHandle, globs: &[String], nothing_excluded: bool, twice: bool) -> String {
    let Some(snaps) = snaps_by_label(h) else { return "err:snapshots".into() };
    let Some(trees) = load_all(h, &snaps) else { return "err:load".into() };
    let mut enc = Enc::new(&trees);
    let _ = tree_tokens(&mut enc, &trees);
    let repo = match open_nc(h).and_then(Repository::to_indexed) {
        Ok(r) => r,
        Err(e) => return errkind(&e),
    };
    let topts = RewriteTreesOptions::default().excludes(Excludes::default().globs(globs.to_vec()));
    let mut new = match repo.rewrite_snapshots_and_trees(snaps.clone(), &RewriteOptions::default(), &topts) {
        Ok(s) => s,
        Err(e) => return errkind(&e),
    };
    if nothing_excluded && snaps.iter().any(|s| new.iter().any(|n| n.label == s.label && n.tree != s.tree)) {
        return "oracle-fail:rewrite-nothing-excluded-tree-changed".into();
    }
    if twice {
        // the snapshots as they are after the first pass (the rewritten copy where there is one)
        let cur: Vec<SnapshotFile> = snaps.iter().map(|s| new.iter().find(|n| n.label == s.label).unwrap_or(s).clone()).collect();
        let repo = match open_nc(h).and_then(Repository::to_indexed) {
            Ok(r) => r,
            Err(e) => return errkind(&e),
        };
        let again = match repo.rewrite_snapshots_and_trees(cur.clone(), &RewriteOptions::default(), &topts) {
            Ok(s) => s,
            Err(e) => return errkind(&e),
        };
        if cur.iter().any(|c| again.iter().any(|n| n.label == c.label && n.tree != c.tree)) {
            return "oracle-fail:rewrite-not-idempotent".into();
        }
        new = cur.iter().map(|c| again.iter().find(|n| n.label == c.label).unwrap_or(c).clone()).collect();
    }
    let repo = match open_nc(h).and_then(Repository::to_indexed) {
        Ok(r) => r,
        Err(e) => return errkind(&e),
    };
    let mut parts = Vec::new();
    for s in &snaps {
        let tree = new.iter().find(|n| n.label == s.label).map_or(s.tree, |n| n.tree);
        let res = load_tree(&repo, tree, 0);
        // kept files keep their content: the rewritten snapshot must read back completely
        if tree_digest(&repo, tree).is_err() {
            return "oracle-fail:rewrite-unreadable".into();
        }
        parts.push(show_listing(&mut enc, &res));
    }
    format!("ok {}", parts.join(" # "))
}

// ---- repair -----------------------------------------------------------------------------------------------

fn repair_tokens(enc: &mut Enc, ids: &mut BTreeMap<String, usize>, ts: &[TNode], out: &mut Vec<String>) {
    for t in ts {
        let head = format!("{}:{}:{}", enc.name(&t.name), t.key, enc.tag(&t.tag));
        if t.is_file {
            let c: Vec<String> = t
                .content
                .iter()
                .map(|c| {
                    let n = ids.len();
                    ids.entry(c.clone()).or_insert(n).to_string()
                })
                .collect();
            out.push(format!("F:{head}:{}:{}", t.size, if c.is_empty() { "-".to_string() } else { c.join(",") }));
        } else if !t.is_dir {
            out.push(format!("L:{head}"));
        } else {
            match &t.sub {
                Sub::None => out.push(format!("X:{head}")),
                Sub::Unreadable => out.push(format!("U:{head}")),
                Sub::UnreadableEmpty => out.push(format!("V:{head}")),
                Sub::Tree(s) => {
                    out.push(format!("D:{head}"));
                    repair_tokens(enc, ids, s, out);
                    out.push("E".into());
                }
            }
        }
    }
}

/// (h:<id>:<data_length> for every indexed data blob that occurs, then the trees with file contents)
fn repair_model(h: &RepoHandle) -> Option<Vec<String>> {
    let snaps = snaps_by_label(h)?;
    let trees = load_all(h, &snaps)?;
    let mut enc = Enc::new(&trees);
    let mut ids = BTreeMap::new();
    let mut toks = Vec::new();
    for (t, sn) in trees.iter().zip(&snaps) {
        match t {
            None => toks.push(if sn.tree == empty_tree_id() { "SV".to_string() } else { "SU".to_string() }),
            Some(ts) => {
                toks.push("S".to_string());
                repair_tokens(&mut enc, &mut ids, ts, &mut toks);
            }
        }
    }
    let repo = open_nc(h).ok()?.to_indexed().ok()?;
    let mut has: Vec<(usize, String)> = Vec::new();
    for (idhex, n) in &ids {
        let id: rustic_core::DataId = idhex.parse::<rustic_core::Id>().ok()?.into();
        if let Ok(e) = repo.get_index_entry(&id) {
            has.push((*n, format!("h:{n}:{}", e.data_length())));
        }
    }
    has.sort();
    let mut out: Vec<String> = has.into_iter().map(|x| x.1).collect();
    out.extend(toks);
    Some(out)
}

fn repair_listing(enc: &mut Enc, ids: &BTreeMap<String, usize>, ts: &[TNode], prefix: &str, suffix: &str, out: &mut Vec<String>) {
    for t in ts {
        // a repaired file is `<name><suffix>`; report it as the original name's rank plus `+`
        let (nm, mark) = match t.name.strip_suffix(suffix) {
            Some(base) if !enc.names.contains_key(&t.name) && enc.names.contains_key(base) => (enc.name(base), "+"),
            _ => (enc.name(&t.name), ""),
        };
        let p = if prefix.is_empty() { format!("{nm}{mark}") } else { format!("{prefix}/{nm}{mark}") };
        if t.is_file {
            let c: Vec<String> = t.content.iter().map(|c| ids.get(c).map_or("?".to_string(), ToString::to_string)).collect();
            out.push(format!("{p}|f|{}|{}", t.size, if c.is_empty() { "-".to_string() } else { c.join(",") }));
        } else if !t.is_dir {
            out.push(format!("{p}|l|{}", enc.tag(&t.tag)));
        } else {
            out.push(format!("{p}|d|{}", enc.tag(&t.tag)));
            if let Sub::Tree(s) = &t.sub {
                repair_listing(enc, ids, s, &p, suffix, out);
            }
        }
    }
}

/// files of a tree as the snapshot records them: path (raw name bytes joined by `/`) -> (chunk ids, size)
fn recorded_files(ts: &[TNode], prefix: &[u8], out: &mut BTreeMap<Vec<u8>, (Vec<String>, u64)>) {
    for t in ts {
        let mut p = prefix.to_vec();
        if !p.is_empty() {
            p.push(b'/');
        }
        p.extend_from_slice(&t.raw_name);
        if t.is_file {
            _ = out.insert(p, (t.content.clone(), t.size));
        } else if let Sub::Tree(s) = &t.sub {
            recorded_files(s, &p, out);
        }
    }
}

/// `B:<label>:<path-hex>:<len>:<sha>` tokens of a source (the bytes that were backed up into snapshot `label`)
fn source_tokens(label: &str, src: &MemSource) -> Vec<String> {
    let mut out = Vec::new();
    for e in &src.entries {
        if let SrcKind::File(c) = &e.kind {
            let mut p = SRC_ROOT.trim_start_matches('/').as_bytes().to_vec();
            for comp in &e.path {
                p.push(b'/');
                p.extend_from_slice(comp);
            }
            out.push(format!("B:{label}:{}:{}:{}", hex(&p), c.len(), &sha_hex(c)[..16]));
        }
    }
    out
}

/// Oracle "every file repair keeps WITHOUT the suffix dumps to its original bytes".  A file of the repaired (or left-alone) snapshot
/// at a path that held a file before the repair is such a file.  Original bytes: the `B:` token of (label, path) when the generator
/// wrote one (SHA-256 + length of the source bytes), and always what the snapshot itself recorded before the repair (the list of chunk
/// ids = SHA-256 of each chunk's bytes, and the size): the dump must have the recorded size and split — at the `data_length`s of the
/// chunks the node now lists — into pieces hashing to exactly the recorded ids, in order.
fn kept_files_oracle<S: IndexedFull>(
    repo: &Repository<S>,
    tree: TreeId,
    label: &str,
    recorded: &BTreeMap<Vec<u8>, (Vec<String>, u64)>,
    source: &BTreeMap<(String, Vec<u8>), (u64, String)>,
) -> Option<&'static str> {
    use rustic_core::repofile::{Metadata, NodeType};
    use std::os::unix::ffi::OsStrExt;
    let mut root = Node::new_node(std::ffi::OsStr::new(""), NodeType::Dir, Metadata::default());
    root.subtree = Some(tree);
    let Ok(it) = repo.ls(&root, &rustic_core::LsOptions::default()) else { return Some("oracle-fail:repair-kept-file-unreadable") };
    for item in it {
        let Ok((path, node)) = item else { return Some("oracle-fail:repair-kept-file-unreadable") };
        if !node.is_file() {
            continue;
        }
        let key = path.as_os_str().as_bytes().to_vec();
        let Some((ids, size)) = recorded.get(&key) else { continue };
        let mut buf = Vec::new();
        if repo.dump(&node, &mut buf).is_err() {
            return Some("oracle-fail:repair-kept-file-unreadable");
        }
        if let Some((len, sha)) = source.get(&(label.to_string(), key.clone())) {
            if buf.len() as u64 != *len || sha_hex(&buf)[..16] != *sha {
                return Some("oracle-fail:repair-kept-file-differs-from-source");
            }
        }
        let now: Vec<rustic_core::DataId> = node.content.iter().flatten().copied().collect();
        if buf.len() as u64 != *size || node.meta.size != *size || now.len() != ids.len() {
            return Some("oracle-fail:repair-kept-file-differs");
        }
        let mut at = 0usize;
        for (id, want) in now.iter().zip(ids) {
            let Ok(e) = repo.get_index_entry(id) else { return Some("oracle-fail:repair-kept-file-unreadable") };
            let end = (at + e.data_length() as usize).min(buf.len());
            if sha_hex(&buf[at..end]) != *want {
                return Some("oracle-fail:repair-kept-file-differs");
            }
            at = end;
        }
        if at != buf.len() {
            return Some("oracle-fail:repair-kept-file-differs");
        }
    }
    None
}

fn repair_exec(h: &RepoHandle, extra: &[String]) -> String {
    let Some(snaps) = snaps_by_label(h) else { return "err:snapshots".into() };
    let Some(trees) = load_all(h, &snaps) else { return "err:load".into() };
    let mut enc = Enc::new(&trees);
    let mut ids = BTreeMap::new();
    for t in trees.iter().flatten() {
        repair_tokens(&mut enc, &mut ids, t, &mut Vec::new());
    }
    // what every snapshot records about its files before the repair, and the source digests handed over by the generator
    let recorded: Vec<BTreeMap<Vec<u8>, (Vec<String>, u64)>> = trees
        .iter()
        .map(|t| {
            let mut m = BTreeMap::new();
            if let Some(ts) = t {
                recorded_files(ts, b"", &mut m);
            }
            m
        })
        .collect();
    let mut source: BTreeMap<(String, Vec<u8>), (u64, String)> = BTreeMap::new();
    for b in extra.iter().filter_map(|x| x.strip_prefix("B:")) {
        let f: Vec<&str> = b.split(':').collect();
        let parsed = match f.as_slice() {
            [label, path, len, sha] => unhex(path).and_then(|p| Some(((*label).to_string(), p, len.parse::<u64>().ok()?, (*sha).to_string()))),
            _ => None,
        };
        let Some((label, path, len, sha)) = parsed else { return "bad-op".into() };
        _ = source.insert((label, path), (len, sha));
    }
    let before = all_digests(h).ok();
    let repo = match open_nc(h).and_then(Repository::to_indexed) {
        Ok(r) => r,
        Err(e) => return errkind(&e),
    };
    let opts = RepairSnapshotsOptions::default();
    if let Err(e) = repo.repair_snapshots(&opts, snaps.clone(), false) {
        return errkind(&e);
    }
    let Some(after) = snaps_by_label(h) else { return "err:snapshots-after".into() };
    let repo = match open_nc(h).and_then(Repository::to_indexed) {
        Ok(r) => r,
        Err(e) => return errkind(&e),
    };
    let mut parts = Vec::new();
    for s in &snaps {
        // the snapshot with this label after the repair (the repaired copy replaces the original)
        let Some(now) = after.iter().find(|a| a.label == s.label) else {
            parts.push("gone".to_string());
            continue;
        };
        let unchanged = now.id == s.id;
        let res = load_tree(&repo, now.tree, 0);
        // everything repair keeps must read back
        if tree_digest(&repo, now.tree).is_err() {
            return "oracle-fail:repaired-snapshot-unreadable".into();
        }
        // every file kept without the suffix dumps to its original bytes
        if let Some(i) = snaps.iter().position(|x| x.id == s.id) {
            if let Some(f) = kept_files_oracle(&repo, now.tree, &s.label, &recorded[i], &source) {
                return f.into();
            }
        }
        if unchanged {
            // identity on snapshots it calls ok: same digest as before
            if let (Some(b), Ok(d)) = (&before, tree_digest(&repo, now.tree)) {
                if b.get(&s.id.to_hex().to_string()).is_some_and(|x| *x != d) {
                    return "oracle-fail:unchanged-snapshot-differs".into();
                }
            }
        }
        let mut v = Vec::new();
        if let Some(ts) = &res {
            repair_listing(&mut enc, &ids, ts, "", &opts.suffix, &mut v);
        }
        parts.push(format!("{}{}", if unchanged { "=" } else { "~" }, if v.is_empty() { "-".to_string() } else { v.join(";") }));
    }
    format!("ok {}", parts.join(" # "))
}

// ---- copy -------------------------------------------------------------------------------------------------

/// blob keys reachable from the snapshots as `copy` collects them: `t:<id>` trees, `k:<id>` data (interned)
fn copy_model(h: &RepoHandle) -> Option<Vec<String>> {
    let snaps = snaps_by_label(h)?;
    let repo = open_nc(h).ok()?.to_indexed().ok()?;
    let mut ids: BTreeMap<String, usize> = BTreeMap::new();
    let mut intern = |s: String| {
        let n = ids.len();
        *ids.entry(s).or_insert(n)
    };
    let mut out = Vec::new();
    let mut seen = BTreeSet::new();
    let mut stack: Vec<TreeId> = Vec::new();
    for s in &snaps {
        out.push(format!("r:{}", intern(s.tree.to_hex().to_string())));
        stack.push(s.tree);
    }
    while let Some(t) = stack.pop() {
        if !seen.insert(t) {
            continue;
        }
        let tree = repo.get_tree(&t).ok()?;
        let tn = intern(t.to_hex().to_string());
        let mut kids = Vec::new();
        let mut data = Vec::new();
        for n in tree.nodes {
            if n.is_dir() {
                if let Some(s) = n.subtree {
                    kids.push(intern(s.to_hex().to_string()).to_string());
                    stack.push(s);
                }
            } else if n.is_file() {
                for c in n.content.iter().flatten() {
                    data.push(intern(c.to_hex().to_string()).to_string());
                }
            }
        }
        let j = |v: Vec<String>| if v.is_empty() { "-".to_string() } else { v.join(",") };
        out.push(format!("t:{tn}:{}:{}", j(kids), j(data)));
    }
    Some(out)
}

/// the packs of a repository in a run-independent order (by the smallest blob id they hold): `(pack id, holds a tree)`
fn packs_by_content(h: &RepoHandle) -> Option<Vec<(rustic_core::Id, bool)>> {
    use rustic_core::repofile::{BlobType, IndexFile};
    let repo = open_nc(h).ok()?;
    let mut v: Vec<(String, rustic_core::Id, bool)> = Vec::new();
    for item in repo.stream_files::<IndexFile>().ok()? {
        let (_, f) = item.ok()?;
        for p in &f.packs {
            let min = p.blobs.iter().map(|b| b.id.to_hex().to_string()).min().unwrap_or_default();
            v.push((min, *p.id, p.blobs.iter().any(|b| b.tpe == BlobType::Tree)));
        }
    }
    v.sort();
    Some(v.into_iter().map(|(_, id, t)| (id, t)).collect())
}

/// destination histories (`H:<kind>:<j>`), after which the destination holds a snapshot's root tree but not everything below:
///   lose:j   every blob in its own pack; full copy -> pack number j (and j/7 when j is odd) of the destination is lost ->
///            `repair index` -> the same snapshots are copied again (heals the destination)
///   prune:j  one tree pack, every chunk in its own pack; copy the first snapshot, then the others together -> forget snapshot j in the
///            destination -> prune (instant delete, max-repack 0: unused chunk packs go, the partly used tree pack stays) -> copy
///            the forgotten snapshot again
/// Oracle after each copy: every snapshot copied so far reads back identically in the destination and check --read-data is clean.
fn copy_exec(h: &RepoHandle, dest_v1: bool, dest_comp: i32, hist: Option<(&str, usize)>) -> String {
    let Some(snaps) = snaps_by_label(h) else { return "err:snapshots".into() };
    let Ok(src_digests) = all_digests(h) else { return "err:source-unreadable".into() };
    let mut cfg = ConfigOptions::default();
    if !dest_v1 {
        cfg.set_compression = Some(dest_comp);
    }
    cfg.set_datapack_size = Some(bytesize::ByteSize(match hist {
        // fault sweeps: every blob its own pack / a few blobs per pack / one pack per blob type (written by `finalize()` only)
        Some(("fault", j)) => [16, 700, 2000, 1 << 20][j % 4],
        Some(_) => 16,
        None => 2000,
    }));
    if matches!(hist, Some(("lose", _))) {
        cfg.set_treepack_size = Some(bytesize::ByteSize(16));
    }
    if let Some(("fault", j)) = hist {
        cfg.set_treepack_size = Some(bytesize::ByteSize([16, 300, 1 << 20][(j / 4) % 3]));
    }
    let Some(hd) = init_repo(&cfg, dest_v1) else { return "err:dest-init".into() };
    let run_sel = |sel: &[&SnapshotFile]| -> Result<(), Box<rustic_core::RusticError>> {
        let src = open_nc(h)?.to_indexed()?;
        let dst = open_nc(&hd)?.to_indexed_ids()?;
        src.copy(&dst, sel.iter().copied())
    };
    let run_n = |n: usize| run_sel(&snaps.iter().take(n).collect::<Vec<_>>());
    let run = || run_n(snaps.len());
    let verify_sel = |sel: &[&SnapshotFile]| -> Option<&'static str> {
        // compare by label: every copied snapshot must read back identically in the destination
        let Some(dsnaps) = snaps_by_label(&hd) else { return Some("oracle-fail:copy-dest-snapshots") };
        let drepo = match open_nc(&hd).and_then(Repository::to_indexed) {
            Ok(r) => r,
            Err(_) => return Some("oracle-fail:copy-dest-index"),
        };
        for s in sel {
            let want = src_digests.get(&s.id.to_hex().to_string());
            let got = dsnaps.iter().find(|d| d.label == s.label).and_then(|d| tree_digest(&drepo, d.tree).ok());
            if want.is_none() || got.as_ref() != want {
                return Some("oracle-fail:copy-restore-differs");
            }
        }
        if !matches!(crate::dispatch::c05::real_check(&hd), Ok(e) if e.is_empty()) {
            return Some("oracle-fail:copy-dest-check-errors");
        }
        None
    };
    let verify_n = |n: usize| verify_sel(&snaps.iter().take(n).collect::<Vec<_>>());
    let verify = || verify_n(snaps.len());
    match hist {
        None => {}
        Some(("lose", j)) => {
            if let Err(e) = run() {
                return errkind(&e);
            }
            if let Some(f) = verify() {
                return f.into();
            }
            let Some(packs) = packs_by_content(&hd) else { return "oracle-fail:copy-dest-index".into() };
            if packs.is_empty() {
                return "copied restore=ok".into();
            }
            let mut lost = vec![j % packs.len()];
            if j % 2 == 1 {
                lost.push((j / 7) % packs.len());
            }
            for i in lost {
                hd.be.del_raw(FileType::Pack, &packs[i].0);
            }
            if let Err(e) = open_nc(&hd).and_then(|r| r.repair_index(&RepairIndexOptions::default(), false)) {
                return format!("{}@dest-repair-index", errkind(&e));
            }
            if let Err(e) = run() {
                return format!("{}@copy-after-loss", errkind(&e));
            }
            if let Some(f) = verify() {
                return format!("{f}-after-loss");
            }
            return "copied restore=ok".into();
        }
        Some(("prune", j)) => {
            if snaps.len() < 2 {
                return "bad-op".into();
            }
            let first = if snaps.len() >= 3 { 1 } else { 0 };
            if first == 1 {
                if let Err(e) = run_n(1) {
                    return errkind(&e);
                }
                if let Some(f) = verify_n(1) {
                    return format!("{f}-partial-run");
                }
            }
            let rest: Vec<&SnapshotFile> = snaps.iter().skip(first).collect();
            if let Err(e) = run_sel(&rest) {
                return errkind(&e);
            }
            if let Some(f) = verify() {
                return f.into();
            }
            // forget one of the snapshots that were copied together, then prune without repacking
            let b = &snaps[first + j % (snaps.len() - first)];
            let r = (|| {
                let repo = open_nc(&hd)?;
                let ids: Vec<_> = repo.get_all_snapshots()?.iter().filter(|d| d.label == b.label).map(|d| d.id).collect();
                repo.delete_snapshots(&ids)?;
                let repo = open_nc(&hd)?.to_indexed_ids()?;
                let mut po = PruneOptions::default();
                po.instant_delete = true;
                po.keep_delete = jiff::Span::new();
                po.keep_pack = jiff::Span::new();
                po.max_repack = LimitOption::Size(bytesize::ByteSize(0));
                let plan = repo.prune_plan(&po)?;
                repo.prune(&po, plan)
            })();
            if let Err(e) = r {
                return format!("{}@dest-forget-prune", errkind(&e));
            }
            let others: Vec<&SnapshotFile> = snaps.iter().filter(|s| s.label != b.label).collect();
            if let Some(f) = verify_sel(&others) {
                return format!("{f}-after-prune");
            }
            if let Err(e) = run_sel(&[b]) {
                return format!("{}@copy-after-prune", errkind(&e));
            }
            if let Some(f) = verify() {
                return format!("{f}-copied-again-after-prune");
            }
            return "copied restore=ok".into();
        }
        Some(("fault", j)) => return copy_fault_sweep(h, &hd, &snaps, &src_digests, j),
        Some(_) => return "bad-op".into(),
    }
    // incremental copy: first only the first half of the snapshots, so that the full copy below finds a destination that already
    // holds some of the blobs (shared sub-trees and chunks) but not all
    if snaps.len() >= 2 {
        let k = snaps.len() / 2;
        if let Err(e) = run_n(k) {
            return errkind(&e);
        }
        if let Some(f) = verify_n(k) {
            return format!("{f}-partial-run");
        }
    }
    if let Err(e) = run() {
        return errkind(&e);
    }
    if let Some(f) = verify() {
        return f.into();
    }
    // a second run finds every blob already present in the (re-opened) destination
    if let Err(e) = run() {
        return errkind(&e);
    }
    if let Some(f) = verify() {
        return format!("{f}-second-run");
    }
    // the same snapshots into a destination with ANOTHER master key but the SOURCE's chunker parameters (the recommended set-up of
    // a copy target; seed C04-6 transferred data blobs raw in exactly that case)
    if let Some(f) = copy_same_chunker(h, &snaps, &src_digests) {
        return f;
    }
    "copied restore=ok".into()
}

/// `H:fault:<j>` — write faults on the DESTINATION backend (seeded change C12-7: the error of `copier.finalize()` dropped).
/// A fault-free copy into the fresh destination counts the mutating storage operations `n` of the run (and is verified); then, for
/// every k < n (all of them up to 40 operations, else every pack write that ends its phase + the index/snapshot writes + a sample),
/// the copy is replayed on a destination restored to its state before the copy with `fail_only(k)`: the k-th write fails once.
///   * copy returns Ok  ⇒ the destination must be complete: every copied snapshot is there, reads back identically, check --read-data
///     clean (`oracle-fail:copy-ok-but-incomplete:<type of the failed file>` — "copy must return Err, or the destination is complete");
///   * copy returns Err ⇒ every snapshot VISIBLE in the destination reads back identically (`…copy-failed-left-broken-snapshot:<type>`:
///     nothing refers to blobs that were not stored), and a fault-free re-run of the same copy succeeds and completes the destination
///     (`…-after-failed-copy`; model: `Props.C12.copy_retry_completes`).
fn copy_fault_sweep(
    h: &RepoHandle,
    hd0: &RepoHandle,
    snaps: &[SnapshotFile],
    src_digests: &BTreeMap<String, String>,
    j: usize,
) -> String {
    let before = hd0.be.store();
    let run = |hd: &RepoHandle| -> Result<(), Box<rustic_core::RusticError>> {
        let src = open_nc(h)?.to_indexed()?;
        let dst = open_nc(hd)?.to_indexed_ids()?;
        src.copy(&dst, snaps.iter())
    };
    // every snapshot of `sel` visible in the destination (all of them if `must_exist`) reads back with the source's digest
    let verify = |hd: &RepoHandle, must_exist: bool, check: bool| -> Option<&'static str> {
        let Some(dsnaps) = snaps_by_label(hd) else { return Some("dest-snapshots") };
        let drepo = match open_nc(hd).and_then(Repository::to_indexed) {
            Ok(r) => r,
            Err(_) => return Some("dest-index"),
        };
        for s in snaps {
            let want = src_digests.get(&s.id.to_hex().to_string());
            match dsnaps.iter().find(|d| d.label == s.label) {
                None if must_exist => return Some("snapshot-missing"),
                None => {}
                Some(d) => {
                    let got = tree_digest(&drepo, d.tree).ok();
                    if want.is_none() || got.as_ref() != want {
                        return Some("restore-differs");
                    }
                }
            }
        }
        if check && !matches!(crate::dispatch::c05::real_check(hd), Ok(e) if e.is_empty()) {
            return Some("check-errors");
        }
        None
    };
    hd0.be.clear_log();
    if let Err(e) = run(hd0) {
        return errkind(&e);
    }
    if let Some(f) = verify(hd0, true, true) {
        return format!("oracle-fail:copy-{f}");
    }
    let log = hd0.be.log();
    let n = log.len();
    let mut ks: Vec<usize> = if n <= 40 {
        (0..n).collect()
    } else {
        let mut v: Vec<usize> = (0..n)
            .filter(|&k| log[k].tpe != FileType::Pack || k + 1 == n || log[k + 1].tpe != FileType::Pack || log[k + 1].cacheable != log[k].cacheable)
            .collect();
        v.extend((0..16).map(|i| (j + i * (n / 16 + 1)) % n));
        v
    };
    ks.sort_unstable();
    ks.dedup();
    for k in ks {
        let hd = RepoHandle { be: MemBackend::from_store(before.clone()), hot: None, key: hd0.key.clone() };
        hd.be.set_fail_only(Some(k));
        let res = run(&hd);
        hd.be.set_fail_only(None);
        let failed: Option<&'static str> = hd.be.log().iter().find(|o| !o.applied).map(|o| crate::repo::ft_name(o.tpe));
        let what = failed.unwrap_or("none");
        match res {
            Ok(()) => {
                if let Some(f) = verify(&hd, true, true) {
                    return format!("oracle-fail:copy-ok-but-incomplete:{what}:{f}");
                }
            }
            Err(_) if failed.is_none() => return "oracle-fail:copy-failed-without-fault".into(),
            Err(_) => {
                if let Some(f) = verify(&hd, false, false) {
                    return format!("oracle-fail:copy-failed-left-broken-snapshot:{what}:{f}");
                }
                if let Err(e) = run(&hd) {
                    return format!("oracle-fail:copy-retry-{}-after-failed-copy:{what}", errkind(&e));
                }
                if let Some(f) = verify(&hd, true, true) {
                    return format!("oracle-fail:copy-{f}-after-failed-copy:{what}");
                }
            }
        }
    }
    "copied restore=ok".into()
}

/// `copy` into a fresh repository whose config is the source's config under a new repository id (same chunker kind, sizes,
/// polynomial: `has_same_chunker`) and whose master key is its own; then every copied snapshot must read back identically from the
/// destination (every file dumped) and `check --read-data` of the destination must be clean.  `None` = all fine.
fn copy_same_chunker(h: &RepoHandle, snaps: &[SnapshotFile], src_digests: &BTreeMap<String, String>) -> Option<String> {
    let config = {
        let Ok(r) = open_nc(h) else { return Some("err:source-open".into()) };
        let mut c = r.config().clone();
        c.id = rustic_core::Id::random().into();
        c
    };
    let hd = RepoHandle { be: MemBackend::new(), hot: None, key: rustic_core::repofile::MasterKey::new() };
    let init = Repository::new(&RepoHandle::default_opts(), &hd.backends())
        .and_then(|r| r.init_with_config(&rustic_core::Credentials::Masterkey(hd.key.clone()), &rustic_core::KeyOptions::default(), config));
    if init.is_err() {
        return Some("err:dest-init-same-chunker".into());
    }
    let run = || -> Result<(), Box<rustic_core::RusticError>> {
        let src = open_nc(h)?.to_indexed()?;
        let dst = open_nc(&hd)?.to_indexed_ids()?;
        src.copy(&dst, snaps.iter())
    };
    if let Err(e) = run() {
        return Some(format!("{}@copy-same-chunker", errkind(&e)));
    }
    let Some(dsnaps) = snaps_by_label(&hd) else { return Some("oracle-fail:copy-dest-snapshots-same-chunker".into()) };
    let drepo = match open_nc(&hd).and_then(Repository::to_indexed) {
        Ok(r) => r,
        Err(_) => return Some("oracle-fail:copy-dest-index-same-chunker".into()),
    };
    for s in snaps {
        let want = src_digests.get(&s.id.to_hex().to_string());
        let got = dsnaps.iter().find(|d| d.label == s.label).and_then(|d| tree_digest(&drepo, d.tree).ok());
        if want.is_none() || got.as_ref() != want {
            return Some("oracle-fail:copy-restore-differs-same-chunker".into());
        }
    }
    if !matches!(crate::dispatch::c05::real_check(&hd), Ok(e) if e.is_empty()) {
        return Some("oracle-fail:copy-dest-check-errors-same-chunker".into());
    }
    None
}

// ---------------------------------------------------------------------------------------------------------

fn handle_of(toks: &[&str]) -> Option<(RepoHandle, Vec<String>)> {
    let mut extra = Vec::new();
    let mut rest = Vec::new();
    for t in toks {
        if t.starts_with("G:") || t.starts_with("O:") || t.starts_with("M:") || t.starts_with("H:") || t.starts_with("B:") {
            extra.push((*t).to_string());
        } else {
            rest.push(*t);
        }
    }
    let (key, store, _) = parse_store(&rest)?;
    Some((RepoHandle { be: MemBackend::from_store(store), hot: None, key }, extra))
}

pub fn exec(toks: &[&str]) -> String {
    let Some(op) = toks.first().copied() else { return "bad-op".into() };
    let Some(bar) = toks.iter().position(|t| *t == "|") else { return "bad-op".into() };
    let model: Vec<String> = toks[1..bar].iter().map(|s| (*s).to_string()).collect();
    let Some((h, extra)) = handle_of(&toks[bar + 1..]) else { return "bad-op".into() };
    let op = op.to_string();
    guarded(std::panic::AssertUnwindSafe(move || {
        let globs: Vec<String> =
            extra.iter().filter_map(|g| g.strip_prefix("G:")).filter_map(unhex).map(|b| String::from_utf8_lossy(&b).to_string()).collect();
        let sel: Option<Vec<usize>> = match extra.iter().find_map(|g| g.strip_prefix("M:")) {
            None => None,
            Some(l) => match l.split(',').map(|x| x.parse::<usize>().ok()).collect::<Option<Vec<_>>>() {
                Some(v) => Some(v),
                None => return "bad-op".to_string(),
            },
        };
        let recomputed = match op.as_str() {
            "merge" => merge_model(&h, sel.as_deref()),
            "rewrite" | "rewrite2" => rewrite_model(&h, &globs),
            "repair" => repair_model(&h),
            "copy" => copy_model(&h),
            _ => return "bad-op".to_string(),
        };
        if recomputed.as_ref() != Some(&model) {
            return "oracle-fail:abstraction-mismatch".to_string();
        }
        match op.as_str() {
            "merge" => merge_exec(&h, sel.as_deref()),
            "rewrite" | "rewrite2" => {
                let nothing = !model.iter().any(|t| t.starts_with("x:")) || model.iter().any(|t| t == "x::1");
                rewrite_exec(&h, &globs, nothing, op == "rewrite2")
            }
            "repair" => repair_exec(&h, &extra),
            _ => {
                let o = extra.iter().find_map(|g| g.strip_prefix("O:")).unwrap_or("0:0");
                let (a, b) = o.split_once(':').unwrap_or(("0", "0"));
                let hist = match extra.iter().find_map(|g| g.strip_prefix("H:")) {
                    None => None,
                    Some(x) => match x.split_once(':').and_then(|(k, j)| Some((k, j.parse::<usize>().ok()?))) {
                        Some(kj) => Some(kj),
                        None => return "bad-op".to_string(),
                    },
                };
                copy_exec(&h, a == "1", b.parse().unwrap_or(0), hist)
            }
        }
    }))
}

/// DESIGN §7 #7 for copy: a source repository holding a tree blob and a data blob with the same id (a file whose
/// bytes are the serialised tree of directory `d`, added by a *second* backup so that both blobs get stored).
fn collision_repo() -> Option<RepoHandle> {
    let h = init_repo(&ConfigOptions::default(), false)?;
    let src1 = MemSource::new(vec![SrcEntry::file(&[b"d", b"f"], b"x")]);
    let s0 = backup_labelled(&h, &src1, "s0")?;
    let repo = open_nc(&h).ok()?.to_indexed().ok()?;
    let root = repo.get_tree(&s0.tree).ok()?;
    let src_id = root.nodes.iter().find(|n| n.name == "src")?.subtree?;
    let d_id = repo.get_tree(&src_id).ok()?.nodes.iter().find(|n| n.name == "d")?.subtree?;
    let (bytes, id) = repo.get_tree(&d_id).ok()?.serialize().ok()?;
    if id != d_id {
        return None;
    }
    let mut g = SrcEntry::file(&[b"g"], &bytes);
    g.mtime_s += 7;
    g.ctime_s += 7;
    let src2 = MemSource::new(vec![SrcEntry::file(&[b"d", b"f"], b"x"), g]);
    _ = backup_labelled(&h, &src2, "s1")?;
    // both blobs are stored: the source itself is fine
    matches!(crate::dispatch::c05::real_check(&h), Ok(e) if e.is_empty()).then_some(h)
}

/// two snapshots of a directory holding `"q` and `A`: sorted by the unescaped name (`"` < `A`), but the escaped
/// names (`\\"q` > `A`) sort the other way round — the k-way merge must group by the order the trees are in
fn escape_order_repo() -> Option<RepoHandle> {
    let h = init_repo(&ConfigOptions::default(), false)?;
    for k in 0..2i64 {
        let mut a = SrcEntry::file(&[b"\"q"], format!("q{k}").as_bytes());
        let mut b = SrcEntry::file(&[b"A"], format!("a{k}").as_bytes());
        a.mtime_s += k * 10;
        b.mtime_s += k * 10 + 1;
        a.ctime_s = a.mtime_s;
        b.ctime_s = b.mtime_s;
        _ = backup_labelled(&h, &MemSource::new(vec![a, b]), &format!("s{k}"))?;
    }
    Some(h)
}

// ---------------------------------------------------------------------------------------------------------
// corner-case scenarios (merge / rewrite)

const T0: i64 = 1_600_000_000;

fn e_file(path: &[Vec<u8>], content: &[u8], mtime: i64, mode: u32) -> SrcEntry {
    SrcEntry { path: path.to_vec(), kind: SrcKind::File(content.to_vec()), mode, mtime_s: mtime, ctime_s: mtime, inode: 0, links: 1 }
}
fn e_dir(path: &[Vec<u8>], mtime: i64, mode: u32) -> SrcEntry {
    SrcEntry { path: path.to_vec(), kind: SrcKind::Dir, mode, mtime_s: mtime, ctime_s: mtime, inode: 0, links: 1 }
}
fn e_link(path: &[Vec<u8>], target: &[u8], mtime: i64) -> SrcEntry {
    SrcEntry { path: path.to_vec(), kind: SrcKind::Symlink(target.to_vec()), mode: 0o777, mtime_s: mtime, ctime_s: mtime, inode: 0, links: 1 }
}
fn pth(cs: &[&[u8]]) -> Vec<Vec<u8>> {
    cs.iter().map(|c| c.to_vec()).collect()
}

/// parameters of a random source tree with explicit directory entries
struct Shape<'a> {
    pool: &'a [&'a [u8]],
    max_depth: usize,
    max_children: u64,
    /// chance of a directory (in 1/8) while depth is left
    p_dir8: u64,
    /// mtimes are `T0 + pick(mtimes)`: a small set makes ties between snapshots frequent
    mtimes: &'a [i64],
    /// vary the mode bits (differing nodes with equal mtime)
    modes: bool,
}

fn gen_shape(rng: &mut Rng, sh: &Shape, prefix: &mut Vec<Vec<u8>>, depth: usize, out: &mut Vec<SrcEntry>) {
    let k = 1 + rng.below(sh.max_children) as usize;
    let mut used: BTreeSet<&[u8]> = BTreeSet::new();
    for _ in 0..k {
        let name: &[u8] = *rng.pick(sh.pool);
        if !used.insert(name) {
            continue;
        }
        prefix.push(name.to_vec());
        let mtime = T0 + *rng.pick(sh.mtimes);
        let is_dir = depth < sh.max_depth && rng.below(8) < sh.p_dir8;
        if is_dir {
            out.push(e_dir(prefix, mtime, if sh.modes && rng.chance(1, 2) { 0o700 } else { 0o755 }));
            // sometimes an empty directory
            if !rng.chance(1, 6) {
                gen_shape(rng, sh, prefix, depth + 1, out);
            }
        } else if rng.chance(1, 6) {
            out.push(e_link(prefix, if rng.chance(1, 2) { b"t1" } else { b"t2" }, mtime));
        } else {
            let content: &[u8] = *rng.pick(&[&b""[..], b"x", b"yy", b"same"]);
            out.push(e_file(prefix, content, mtime, if sh.modes && rng.chance(1, 2) { 0o600 } else { 0o644 }));
        }
        _ = prefix.pop();
    }
}

fn shape_source(rng: &mut Rng, sh: &Shape) -> MemSource {
    let mut es = Vec::new();
    gen_shape(rng, sh, &mut Vec::new(), 1, &mut es);
    MemSource::new(es)
}

/// a snapshot whose root tree is the empty tree (no `src` node at all)
fn empty_root_snapshot(h: &RepoHandle, label: &str) -> Option<()> {
    let repo = open_nc(h).ok()?;
    let (bytes, id) = Tree::default().serialize().ok()?;
    _ = rustic_core::verif::packer::pack_blobs(&repo, vec![(rustic_core::repofile::BlobType::Tree, bytes, rustic_core::BlobId::from(*id))]).ok()?;
    let mut snap = SnapshotFile::default();
    snap.label = label.to_string();
    snap.tree = id;
    _ = rustic_core::verif::repository::save_file(&repo, &snap).ok()?;
    Some(())
}

/// repository with one snapshot per source (`None` = a snapshot with an empty root tree), labels `s0`, `s1`, …
fn build_from(rng: &mut Rng, sources: &[Option<MemSource>]) -> Option<RepoHandle> {
    let h = init_repo(&small_cfg(rng), false)?;
    for (k, src) in sources.iter().enumerate() {
        match src {
            Some(src) => _ = backup_labelled(&h, src, &format!("s{k}"))?,
            None => empty_root_snapshot(&h, &format!("s{k}"))?,
        }
    }
    Some(h)
}

const PLAIN: [&[u8]; 3] = [b"a", b"b", b"c"];
const TWO: [&[u8]; 2] = [b"a", b"b"];

/// one merge corner case: (kind, sources, selection)
fn merge_corner(rng: &mut Rng) -> (&'static str, Vec<Option<MemSource>>, Option<Vec<usize>>) {
    let distinct = |k: usize| -> Vec<i64> { (0..4).map(|j| 1000 * k as i64 + 10 * j + 1).collect() };
    match rng.below(9) {
        // the same name as file / directory / symlink / absent in 2–4 snapshots, strict ordering
        0 => {
            let n = 2 + rng.below(3) as usize;
            let order: Vec<usize> = { let mut v: Vec<usize> = (0..n).collect(); for i in (1..n).rev() { v.swap(i, rng.below(i as u64 + 1) as usize); } v };
            let srcs = (0..n).map(|k| Some(shape_source(rng, &Shape { pool: &PLAIN, max_depth: 3, max_children: 3, p_dir8: 4, mtimes: &distinct(order[k]), modes: false }))).collect();
            ("type-conflict", srcs, None)
        }
        // a directory of the same name in 3–4 snapshots: recursive merge over all of them
        1 => {
            let n = 3 + rng.below(2) as usize;
            let srcs = (0..n).map(|k| Some(shape_source(rng, &Shape { pool: &TWO, max_depth: 4, max_children: 2, p_dir8: 6, mtimes: &distinct(n - 1 - k), modes: false }))).collect();
            ("dirs-3plus", srcs, None)
        }
        // identical mtimes on differing nodes (file/file, dir/dir with other mode, file/dir)
        2 | 3 => {
            let n = 2 + rng.below(3) as usize;
            let all_tied = rng.chance(1, 2);
            let srcs = (0..n).map(|_| Some(shape_source(rng, &Shape { pool: &TWO, max_depth: 3, max_children: 2, p_dir8: 4, mtimes: if all_tied { &[5] } else { &[5, 5, 6] }, modes: true }))).collect();
            ("ties", srcs, None)
        }
        // one (or every) snapshot has an empty root tree
        4 => {
            let n = 1 + rng.below(3) as usize;
            let all_empty = rng.chance(1, 5);
            let at = rng.below(n as u64) as usize;
            let srcs = (0..n)
                .map(|k| if all_empty || k == at { None } else { Some(shape_source(rng, &Shape { pool: &PLAIN, max_depth: 2, max_children: 3, p_dir8: 3, mtimes: &distinct(k), modes: false })) })
                .collect();
            ("empty-root", srcs, None)
        }
        // a snapshot merged with itself (duplicate inputs), also next to others
        5 => {
            let n = 1 + rng.below(2) as usize;
            let srcs: Vec<_> = (0..n).map(|k| Some(shape_source(rng, &Shape { pool: &PLAIN, max_depth: 3, max_children: 3, p_dir8: 4, mtimes: &distinct(k), modes: false }))).collect();
            let m = 2 + rng.below(3) as usize;
            let mut sel: Vec<usize> = (0..m).map(|_| rng.below(n as u64) as usize).collect();
            sel[1] = sel[0];
            ("duplicate-input", srcs, Some(sel))
        }
        // names whose escaped order differs from the raw byte order, nested, 2–4 snapshots
        6 => {
            let n = 2 + rng.below(3) as usize;
            let srcs = (0..n).map(|k| Some(shape_source(rng, &Shape { pool: &NAMES, max_depth: 2, max_children: 5, p_dir8: 3, mtimes: &distinct(k), modes: false }))).collect();
            ("escaped-names", srcs, None)
        }
        // deep nesting (6–9 levels) with conflicts far down
        7 => {
            let n = 2 + rng.below(2) as usize;
            let depth = 6 + rng.below(4) as usize;
            let srcs = (0..n).map(|k| Some(shape_source(rng, &Shape { pool: &TWO, max_depth: depth, max_children: 2, p_dir8: 7, mtimes: &distinct(k), modes: false }))).collect();
            ("deep", srcs, None)
        }
        // a single snapshot
        _ => {
            let src = shape_source(rng, &Shape { pool: &NAMES, max_depth: 3, max_children: 4, p_dir8: 4, mtimes: &distinct(0), modes: false });
            ("single", vec![Some(src)], Some(vec![0]))
        }
    }
}

/// escape glob meta characters so that the glob matches exactly this name
fn glob_escape(name: &str) -> String {
    let mut o = String::new();
    for c in name.chars() {
        if "\\*?[]{}!#".contains(c) {
            o.push('\\');
        }
        o.push(c);
    }
    o
}

const ODD_NAMES: [&[u8]; 12] = [b"a b", b"[x]", b"*s", b"q?", b"\"q", b"\\z", b"\xc3\xa9", b"{a,b}", b"!bang", b"#h", b" lead", b"x"];

/// one rewrite corner case: (kind, sources, globs)
fn rewrite_corner(rng: &mut Rng) -> (&'static str, Vec<Option<MemSource>>, Vec<String>) {
    let filler = |rng: &mut Rng, k: usize| shape_source(rng, &Shape { pool: &PLAIN, max_depth: 3, max_children: 3, p_dir8: 4, mtimes: &[1000 * k as i64 + 1, 1000 * k as i64 + 2], modes: false });
    let f = |p: &[&[u8]], c: &[u8], t: i64| e_file(&pth(p), c, T0 + t, 0o644);
    match rng.below(10) {
        // a glob that excludes the root path itself: the snapshot is left as it is
        0 => {
            let n = 1 + rng.below(2) as usize;
            let srcs = (0..n).map(|k| Some(filler(rng, k))).collect();
            let mut globs = vec![(*rng.pick(&["!**", "!*", "!/", "!/**", "!**/", "!/*"])).to_string()];
            if rng.chance(1, 2) {
                globs.push("!a".into());
            }
            ("root", srcs, globs)
        }
        // every entry of a directory excluded: the directory stays, empty
        1 => {
            let k = 1 + rng.below(4);
            let mut es = vec![f(&[b"keep"], b"k", 1)];
            for i in 0..k {
                let name = format!("e{i}");
                if rng.chance(1, 3) {
                    es.push(f(&[b"d", name.as_bytes(), b"in"], b"v", 2));
                } else {
                    es.push(f(&[b"d", name.as_bytes()], b"v", 2));
                }
            }
            let g = *rng.pick(&["!/src/d/*", "!src/d/*", "!/src/d/**", "!e*", "!**/d/*"]);
            ("dir-emptied", vec![Some(MemSource::new(es))], vec![g.to_string()])
        }
        // a nested directory excluded while a deeper sibling is kept
        2 => {
            let es = vec![f(&[b"a", b"b", b"f"], b"1", 1), f(&[b"a", b"b", b"g", b"h"], b"2", 2), f(&[b"a", b"c", b"d", b"e", b"i"], b"3", 3), f(&[b"a", b"c", b"b"], b"4", 4), f(&[b"b"], b"5", 5)];
            let g = *rng.pick(&["!/src/a/b", "!**/a/b/", "!/src/a/b/", "!**/a/b", "!b/", "!/src/a/c/d/e", "!src/a/c/d"]);
            ("nested-dir", vec![Some(MemSource::new(es))], vec![g.to_string()])
        }
        // a name that is a directory in one place and a file in another
        3 => {
            let mut es = vec![f(&[b"p", b"x", b"in"], b"1", 1), f(&[b"q", b"x"], b"2", 2), f(&[b"r", b"y"], b"3", 3)];
            if rng.chance(1, 2) {
                es.push(e_link(&pth(&[b"r", b"x"]), b"p/x", T0 + 4));
            }
            let mut srcs = vec![Some(MemSource::new(es))];
            if rng.chance(1, 2) {
                // and the other way round in a second snapshot
                srcs.push(Some(MemSource::new(vec![f(&[b"p", b"x"], b"1", 1001), f(&[b"q", b"x", b"in"], b"2", 1002)])));
            }
            let g = *rng.pick(&["!x/", "!x", "!/src/q/x", "!/src/p/x/", "!**/x/**", "!**/x/in"]);
            ("dir-vs-file", srcs, vec![g.to_string()])
        }
        // names that need escaping in a glob (and in the stored tree)
        4 | 5 => {
            let mut es = Vec::new();
            let mut seen = BTreeSet::new();
            for i in 0..(2 + rng.below(5)) {
                let nm: &[u8] = *rng.pick(&ODD_NAMES);
                let path: Vec<&[u8]> = if rng.chance(1, 3) { vec![b"d", nm] } else { vec![nm] };
                if seen.insert(path.clone()) {
                    es.push(f(&path, b"o", i as i64 + 1));
                }
            }
            // mostly a name that is present
            let present: Vec<&[u8]> = es.iter().filter_map(|e| e.path.last().map(Vec::as_slice)).collect();
            let tn: &[u8] = if rng.chance(3, 4) { *rng.pick(&present) } else { *rng.pick(&ODD_NAMES) };
            let target = String::from_utf8_lossy(tn).to_string();
            // exactly that name, or the unescaped (meta) reading of it
            let g = if rng.chance(2, 3) { format!("!{}", glob_escape(&target)) } else { format!("!{target}") };
            ("odd-names", vec![Some(MemSource::new(es))], vec![g])
        }
        // a symbolic link excluded (by name; a directory-only pattern must not match it)
        6 => {
            let es = vec![e_link(&pth(&[b"lnk"]), b"a/f", T0 + 1), e_link(&pth(&[b"a", b"lnk"]), b"f", T0 + 2), f(&[b"a", b"f"], b"1", 3), f(&[b"lnk2"], b"2", 4)];
            let g = *rng.pick(&["!lnk", "!lnk", "!lnk/", "!/src/lnk", "!**/a/lnk", "!lnk*"]);
            ("symlink", vec![Some(MemSource::new(es))], vec![g.to_string()])
        }
        // snapshots sharing a subtree (same tree id), the shared subtree is hit — at the same path, at different paths
        // (anchored glob hits one of them), or twice inside one snapshot
        7 | 8 => {
            let shared = |top: &[u8]| -> Vec<SrcEntry> { vec![f(&[top, b"sh", b"f1"], b"1", 1), f(&[top, b"sh", b"f2"], b"2", 2), f(&[top, b"sh", b"sub", b"f3"], b"3", 3)] };
            let variant = rng.below(3);
            let mut srcs = Vec::new();
            let n = 2 + rng.below(2) as usize;
            for k in 0..n {
                let mut es = match variant {
                    0 => shared(b"p"),
                    1 => shared(if k % 2 == 0 { b"p" } else { b"q" }),
                    _ => { let mut v = shared(b"p"); v.extend(shared(b"q")); v }
                };
                es.push(f(&[b"own"], format!("o{k}").as_bytes(), 1000 * k as i64 + 7));
                srcs.push(Some(MemSource::new(es)));
            }
            let g = *rng.pick(&["!f1", "!/src/p/sh/f1", "!**/sh/sub", "!/src/q/sh/sub/", "!/src/p/sh", "!**/sub/f3", "!/src/p/**/f2"]);
            ("shared-subtree", srcs, vec![g.to_string()])
        }
        // globs that match nothing: the trees keep their ids
        _ => {
            let n = 1 + rng.below(3) as usize;
            let mut srcs: Vec<Option<MemSource>> = (0..n).map(|k| Some(filler(rng, k))).collect();
            if rng.chance(1, 4) {
                srcs.push(None);
            }
            // the top-level directory excluded: the root tree becomes empty
            if rng.chance(1, 5) {
                let g = *rng.pick(&["!src/", "!/src", "!src", "!s*"]);
                return ("top-excluded", srcs, vec![g.to_string()]);
            }
            let g = *rng.pick(&["!nomatch*", "!/zzz/**", "!/a", "!a/b/c/d/e/f", "!*.txt", "!src/a/b/c/d/e/f"]);
            ("no-match", srcs, vec![g.to_string()])
        }
    }
}

fn corner_cases(n: usize, rng: &mut Rng, ops: &mut Vec<String>, stats: &mut Stats) {
    for _ in 0..n {
        let mut r = rng.fork();
        let (kind, srcs, sel) = merge_corner(&mut r);
        match build_from(&mut r, &srcs).and_then(|h| merge_model(&h, sel.as_deref()).map(|m| (h, m))) {
            Some((h, m)) => {
                stats.hit(format!("merge.corner.{kind}"));
                let extra = sel.iter().map(|v| format!("M:{}", v.iter().map(usize::to_string).collect::<Vec<_>>().join(","))).collect();
                ops.push(finish_line("merge", m, extra, &h));
            }
            None => stats.hit(format!("merge.corner.{kind}.not-built")),
        }
        let mut r = rng.fork();
        let (kind, srcs, globs) = rewrite_corner(&mut r);
        let twice = r.chance(1, 3);
        match build_from(&mut r, &srcs).and_then(|h| rewrite_model(&h, &globs).map(|m| (h, m))) {
            Some((h, m)) => {
                stats.hit(format!("rewrite.corner.{kind}"));
                if m.iter().any(|t| t == "x::1") {
                    stats.hit("rewrite.root-excluded");
                } else if m.iter().any(|t| t.starts_with("x:")) {
                    stats.hit(format!("rewrite.corner.{kind}.some-excluded"));
                } else {
                    stats.hit("rewrite.corner.none-excluded");
                }
                if twice {
                    stats.hit("rewrite.twice");
                }
                let extra = globs.iter().map(|g| format!("G:{}", hex(g.as_bytes()))).collect();
                ops.push(finish_line(if twice { "rewrite2" } else { "rewrite" }, m, extra, &h));
            }
            None => stats.hit(format!("rewrite.corner.{kind}.not-built")),
        }
    }
}

const GLOBS: [&str; 12] = ["!a", "!b", "!a/", "!*/b", "!**/c", "!/a/b", "!zz", "!B", "!a*", "!**", "b", "!src/a"];

fn damage_for_repair(h: &RepoHandle, rng: &mut Rng, stats: &mut Stats) -> Option<()> {
    // lose one pack (or one blob's pack), then `repair index`
    let packs: Vec<_> = h.be.ids(FileType::Pack);
    if packs.is_empty() {
        return None;
    }
    let n_lose = if rng.chance(1, 4) { 0 } else { 1 + rng.below(2) as usize };
    stats.hit(format!("repair.lost-packs.{n_lose}"));
    for _ in 0..n_lose {
        let id = *rng.pick(&packs);
        h.be.del_raw(FileType::Pack, &id);
    }
    let repo = open_nc(h).ok()?;
    repo.repair_index(&RepairIndexOptions::default(), false).ok()?;
    Some(())
}

// ---- repair: multi-chunk files losing chunks selectively ----------------------------------------------------

/// Repositories for `repair` whose files have SEVERAL chunks: fixed-size chunker (16–64 bytes), file contents assembled from a small pool
/// of blocks (chunks shared inside a file, between files and between snapshots), from fresh blocks, or from fresh blocks followed by the
/// LAST chunk of a file of an older snapshot (that chunk is de-duplicated into the older pack); optional short tail chunk.  Pack layouts:
/// every blob in its own pack (a lost pack = a lost blob), a few blobs per pack, one data pack per backup.
fn multi_chunk_repo(rng: &mut Rng, stats: &mut Stats) -> Option<(RepoHandle, Vec<String>)> {
    let chunk = *rng.pick(&[16usize, 32, 64]);
    let mut c = ConfigOptions::default();
    c.set_chunker = Some(rustic_core::repofile::Chunker::FixedSize);
    c.set_chunk_size = Some(bytesize::ByteSize(chunk as u64));
    match rng.below(4) {
        0 | 1 => {
            c.set_datapack_size = Some(bytesize::ByteSize(1));
            stats.hit("repair.multi.layout.blob-per-pack");
        }
        2 => {
            c.set_datapack_size = Some(bytesize::ByteSize(3 * chunk as u64));
            stats.hit("repair.multi.layout.few-blobs-per-pack");
        }
        _ => stats.hit("repair.multi.layout.pack-per-backup"),
    }
    if rng.chance(1, 2) {
        c.set_treepack_size = Some(bytesize::ByteSize(1));
    }
    let v1 = rng.chance(1, 5);
    if !v1 && rng.chance(1, 2) {
        c.set_compression = Some(*rng.pick(&[0i32, 3]));
    }
    let h = init_repo(&c, v1)?;
    let pool: Vec<Vec<u8>> = (0..4 + rng.below(4)).map(|_| rng.bytes(chunk)).collect();
    let n_snaps = 1 + rng.below(3) as usize;
    let mut btoks = Vec::new();
    let mut older_last: Vec<Vec<u8>> = Vec::new(); // last chunks of files of OLDER snapshots
    for k in 0..n_snaps {
        let mut es: Vec<SrcEntry> = Vec::new();
        let mut used: BTreeSet<Vec<Vec<u8>>> = BTreeSet::new();
        let mut lasts = Vec::new();
        for _ in 0..1 + rng.below(4) {
            let depth = 1 + rng.below(3) as usize;
            let path: Vec<Vec<u8>> = (0..depth).map(|_| rng.pick(&NAMES[..4]).to_vec()).collect();
            if used.iter().any(|u| u.starts_with(&path) || path.starts_with(u)) {
                continue;
            }
            _ = used.insert(path.clone());
            let nb = *rng.pick(&[1usize, 2, 2, 3, 3, 4, 6]);
            let mut blocks: Vec<Vec<u8>> = match rng.below(3) {
                0 => {
                    stats.hit("repair.multi.file.pool-blocks");
                    (0..nb).map(|_| rng.pick(&pool).clone()).collect()
                }
                1 => {
                    let mut b: Vec<Vec<u8>> = (0..nb).map(|_| rng.bytes(chunk)).collect();
                    if nb >= 2 && !older_last.is_empty() {
                        stats.hit("repair.multi.file.last-chunk-of-older-file");
                        b[nb - 1] = rng.pick(&older_last).clone();
                    } else {
                        stats.hit("repair.multi.file.fresh-blocks");
                    }
                    b
                }
                _ => {
                    stats.hit("repair.multi.file.mixed-blocks");
                    (0..nb).map(|_| if rng.chance(1, 2) { rng.pick(&pool).clone() } else { rng.bytes(chunk) }).collect()
                }
            };
            if blocks.last().is_some_and(|b| b.len() == chunk) && rng.chance(1, 3) {
                let tail = 1 + rng.below(chunk as u64 - 1) as usize;
                blocks.push(rng.bytes(tail));
            }
            stats.hit(format!("repair.multi.file.chunks.{}", blocks.len().min(5)));
            if let Some(l) = blocks.last() {
                lasts.push(l.clone());
            }
            let refs: Vec<&[u8]> = path.iter().map(Vec::as_slice).collect();
            let mut e = SrcEntry::file(&refs, &blocks.concat());
            e.mtime_s = 1_600_000_000 + k as i64 * 1000 + 1 + rng.below(899) as i64;
            e.ctime_s = e.mtime_s;
            es.push(e);
        }
        let src = MemSource::new(es);
        _ = backup_labelled(&h, &src, &format!("s{k}"))?;
        btoks.extend(source_tokens(&format!("s{k}"), &src));
        older_last.extend(lasts);
    }
    Some((h, btoks))
}

fn file_contents(ts: &[TNode], out: &mut Vec<Vec<String>>) {
    for t in ts {
        if t.is_file {
            out.push(t.content.clone());
        } else if let Sub::Tree(s) = &t.sub {
            file_contents(s, out);
        }
    }
}

/// Lose chunks of ONE multi-chunk file selectively — the first, a middle one, the last, several, all but the last, all — by removing the
/// packs that hold them (with one blob per pack exactly those chunks; otherwise their pack neighbours too), or one random pack, or
/// nothing; then `repair index`.  What each multi-chunk file really lost is counted in `repair.multi.lost.*`.
fn damage_selective(h: &RepoHandle, rng: &mut Rng, stats: &mut Stats) -> Option<()> {
    let snaps = snaps_by_label(h)?;
    let trees = load_all(h, &snaps)?;
    let mut files = Vec::new();
    for t in trees.iter().flatten() {
        file_contents(t, &mut files);
    }
    files.sort();
    files.dedup();
    let multi: Vec<Vec<String>> = files.iter().filter(|c| c.len() >= 2).cloned().collect();
    let data_id = |x: &String| -> Option<rustic_core::DataId> { Some(x.parse::<rustic_core::Id>().ok()?.into()) };
    let mut lose: BTreeSet<rustic_core::Id> = BTreeSet::new();
    let mode = if multi.is_empty() { rng.below(2) } else { rng.below(9) };
    {
        let repo = open_nc(h).ok()?.to_indexed().ok()?;
        let all_packs = h.be.ids(FileType::Pack);
        let target: Vec<String> = if mode < 2 { vec![] } else { rng.pick(&multi).clone() };
        let positions: Vec<usize> = if mode < 2 {
            vec![]
        } else {
            let n = target.len();
            match mode {
                2 => vec![0],
                3 => vec![if n >= 3 { 1 + rng.below(n as u64 - 2) as usize } else { 0 }],
                4 => vec![n - 1],
                5 => {
                    let mut v: Vec<usize> = (0..n).filter(|_| rng.chance(1, 2)).collect();
                    if v.is_empty() {
                        v.push(rng.below(n as u64) as usize);
                    }
                    v
                }
                6 => (0..n - 1).collect(),
                7 => (0..n).collect(),
                _ => vec![rng.below(n as u64) as usize],
            }
        };
        stats.hit(format!(
            "repair.multi.damage.{}",
            ["none", "random-pack", "first", "middle", "last", "several", "all-but-last", "all", "one-chunk+random-pack"][mode as usize]
        ));
        for p in positions {
            if let Some(e) = data_id(&target[p]).and_then(|id| repo.get_index_entry(&id).ok()) {
                _ = lose.insert(*e.pack);
            }
        }
        if (mode == 1 || mode == 8) && !all_packs.is_empty() {
            _ = lose.insert(*rng.pick(&all_packs));
        }
    }
    for id in &lose {
        h.be.del_raw(FileType::Pack, id);
    }
    open_nc(h).ok()?.repair_index(&RepairIndexOptions::default(), false).ok()?;
    let repo = open_nc(h).ok()?.to_indexed().ok()?;
    for f in &multi {
        let lost: Vec<bool> = f.iter().map(|x| data_id(x).is_none_or(|id| repo.get_index_entry(&id).is_err())).collect();
        let n = lost.len();
        let k = lost.iter().filter(|x| **x).count();
        let class = if k == 0 {
            "none"
        } else if k == n {
            "all"
        } else if k == 1 && lost[0] {
            "first-only"
        } else if k == 1 && lost[n - 1] {
            "last-only"
        } else if k == 1 {
            "middle-only"
        } else {
            "several"
        };
        stats.hit(format!("repair.multi.lost.{class}"));
        if k > 0 && !lost[n - 1] {
            stats.hit("repair.multi.lost.earlier-chunk-lost-last-kept");
        }
        if k > 0 && k < n && lost[n - 1] {
            stats.hit("repair.multi.lost.last-lost-earlier-kept");
        }
    }
    Some(())
}

pub fn generate(thorough: bool, rng: &mut Rng, ops: &mut Vec<String>, stats: &mut Stats) {
    let n = if thorough { 1000 } else { 90 };
    match collision_repo() {
        Some(h) => {
            if let Some(m) = copy_model(&h) {
                stats.hit("copy.tree-data-id-collision");
                ops.push(finish_line("copy", m, vec!["O:0:0".to_string()], &h));
            }
        }
        None => stats.hit("copy.collision-scenario-not-built"),
    }
    if let Some(h) = escape_order_repo() {
        if let Some(m) = merge_model(&h, None) {
            stats.hit("merge.escaped-order-scenario");
            ops.push(finish_line("merge", m, vec![], &h));
        }
    }
    for i in 0..n {
        // merge
        let n_snaps = 1 + rng.below(4) as usize;
        if let Some(h) = build(rng, stats, n_snaps, i % 4 != 0) {
            if let Some(m) = merge_model(&h, None) {
                stats.hit(format!("merge.snaps.{n_snaps}"));
                ops.push(finish_line("merge", m, vec![], &h));
            }
        }
        // rewrite
        let n_snaps = 1 + rng.below(3) as usize;
        if let Some(h) = build(rng, stats, n_snaps, true) {
            let ng = 1 + rng.below(3) as usize;
            let mut globs: Vec<String> = (0..ng).map(|_| (*rng.pick(&GLOBS)).to_string()).collect();
            globs.dedup();
            if let Some(m) = rewrite_model(&h, &globs) {
                stats.hit(format!("rewrite.globs.{}", globs.len()));
                stats.hit(if m.iter().any(|t| t.starts_with("x:")) { "rewrite.some-excluded" } else { "rewrite.none-excluded" });
                let extra = globs.iter().map(|g| format!("G:{}", hex(g.as_bytes()))).collect();
                ops.push(finish_line("rewrite", m, extra, &h));
            }
        }
        // repair
        let n_snaps = 1 + rng.below(3) as usize;
        if let Some((h, btoks)) = build_src(rng, stats, n_snaps, true) {
            if damage_for_repair(&h, rng, stats).is_some() {
                if let Some(m) = repair_model(&h) {
                    ops.push(finish_line("repair", m, btoks, &h));
                }
            }
        }
        // copy
        if i % 2 == 0 {
            let n_snaps = 1 + rng.below(3) as usize;
            if let Some(h) = build(rng, stats, n_snaps, false) {
                if let Some(m) = copy_model(&h) {
                    stats.hit("copy");
                    let o = format!("O:{}:{}", rng.below(2), rng.pick(&[0i32, 3, 10]));
                    ops.push(finish_line("copy", m.clone(), vec![o.clone()], &h));
                    // the same source into a destination that loses a pack after the copy and is healed by copying again
                    stats.hit("copy.dest-history.lose");
                    ops.push(finish_line("copy", m.clone(), vec![o.clone(), format!("H:lose:{}", rng.below(1000))], &h));
                    // the same source into a destination whose k-th write fails, for every k (seeded change C12-7)
                    let j = rng.below(1000);
                    stats.hit(format!("copy.dest-fault.datapack-{}.treepack-{}", ["1-blob", "700B", "2000B", "one"][j as usize % 4], ["1-blob", "300B", "one"][(j as usize / 4) % 3]));
                    ops.push(finish_line("copy", m, vec![o, format!("H:fault:{j}")], &h));
                }
            }
            // three snapshots (variations share blobs); one is forgotten + pruned in the destination and copied again
            if let Some(h) = build(rng, stats, 3, false) {
                if let Some(m) = copy_model(&h) {
                    stats.hit("copy.dest-history.prune");
                    let o = format!("O:{}:{}", rng.below(2), rng.pick(&[0i32, 3]));
                    ops.push(finish_line("copy", m, vec![o, format!("H:prune:{}", rng.below(1000))], &h));
                }
            }
        }
    }
    corner_cases(if thorough { 700 } else { 60 }, rng, ops, stats);
    // repair of repositories with multi-chunk files losing chunks selectively (after everything else: the older cases stay a prefix)
    for _ in 0..(if thorough { 700 } else { 70 }) {
        if let Some((h, btoks)) = multi_chunk_repo(rng, stats) {
            if damage_selective(&h, rng, stats).is_some() {
                if let Some(m) = repair_model(&h) {
                    stats.hit("repair.multi");
                    ops.push(finish_line("repair", m, btoks, &h));
                }
            }
        }
    }
    let _ = (SingleFileSource { name: String::new(), content: vec![], mtime_s: 0 }, ft_idx(FileType::Pack), Store::new(), MasterKey::new());
}
