//! C01 — times on their way back to the file system (`LocalDestination::set_times`, called by restore for every entry).
//!
//!   c01 time <sec> <nsec> [<asec> <ansec>]   a fresh file in a temp dir; metadata with mtime = `Timestamp::new(sec, nsec)` (and atime,
//!                                          default = mtime); real `set_times` (hook `verif::local_destination::set_times`); the file's
//!                                          `st_mtime`/`st_mtime_nsec` (and atime) read back → `ok <tv_sec> <tv_nsec> <atv_sec> <atv_nsec>`.
//!                                          Oracle: reading the time back as a `Timestamp` gives the one that was set
//!                                          (`oracle-fail:time-roundtrip`).  Model: `Rustic.Times.toFileTime`
//!                                          (Props.C01 `restored_time_is_exact`).
use std::os::unix::fs::MetadataExt;

use crate::util::{Rng, Stats, guarded};
use rustic_core::LocalDestination;
use rustic_core::repofile::Metadata;

/// jiff's normal form (what `as_second`/`subsec_nanosecond` return): the sub-second part has the sign of the instant
fn normal(sec: i64, nsec: i32) -> bool {
    !(sec > 0 && nsec < 0) && !(sec < 0 && nsec > 0)
}

fn run(sec: i64, nsec: i32, asec: i64, ansec: i32) -> String {
    if !normal(sec, nsec) || !normal(asec, ansec) {
        return "bad-op".into();
    }
    let (Ok(mtime), Ok(atime)) = (jiff::Timestamp::new(sec, nsec), jiff::Timestamp::new(asec, ansec)) else { return "bad-op".into() };
    let Ok(tmp) = tempfile::tempdir() else { return "err:tempdir".into() };
    let Some(base) = tmp.path().to_str() else { return "err:tempdir-name".into() };
    let dest = match LocalDestination::new(base, true, false) {
        Ok(d) => d,
        Err(_) => return "err:dest".into(),
    };
    if std::fs::write(tmp.path().join("f"), b"x").is_err() {
        return "err:write".into();
    }
    let meta = Metadata { mtime: Some(mtime), atime: Some(atime), ..Default::default() };
    if let Err(e) = rustic_core::verif::local_destination::set_times(&dest, std::path::Path::new("f"), &meta) {
        return format!("err:set_times:{}", e.split_whitespace().next().unwrap_or(""));
    }
    let Ok(md) = std::fs::symlink_metadata(tmp.path().join("f")) else { return "err:stat".into() };
    // the restored time read back the way a source reads it
    match md.modified().ok().and_then(|t| jiff::Timestamp::try_from(t).ok()) {
        Some(t) if t == mtime => {}
        _ => return "oracle-fail:time-roundtrip".into(),
    }
    format!("ok {} {} {} {}", md.mtime(), md.mtime_nsec(), md.atime(), md.atime_nsec())
}

pub fn exec(toks: &[&str]) -> String {
    let t: Vec<String> = toks.iter().map(|s| (*s).to_string()).collect();
    guarded(std::panic::AssertUnwindSafe(move || {
        let p = |s: &String| s.parse::<i64>().ok();
        match t.as_slice() {
            [s, n] => match (p(s), p(n)) {
                (Some(s), Some(n)) if n.abs() < 1_000_000_000 => run(s, n as i32, s, n as i32),
                _ => "bad-op".into(),
            },
            [s, n, a, an] => match (p(s), p(n), p(a), p(an)) {
                (Some(s), Some(n), Some(a), Some(an)) if n.abs() < 1_000_000_000 && an.abs() < 1_000_000_000 => run(s, n as i32, a, an as i32),
                _ => "bad-op".into(),
            },
            _ => "bad-op".into(),
        }
    }))
}

/// a timestamp as jiff represents it: seconds truncated toward zero, sub-second part with the sign of the instant
fn rand_time(rng: &mut Rng) -> (i64, i32) {
    let sec: i64 = match rng.below(8) {
        0 => 0,
        1 => -(rng.below(3) as i64),
        2 => -(1 + rng.below(100_000) as i64),
        3 => -(rng.below(2_000_000_000) as i64),            // back to 1906
        4 => rng.below(2_000_000_000) as i64,
        5 => 4_102_444_800 + rng.below(1_000_000_000) as i64, // 2100 and later (beyond i32 seconds)
        6 => 1,
        _ => 1_500_000_000 + rng.below(300_000_000) as i64,
    };
    let frac: i32 = match rng.below(6) {
        0 => 0,
        1 => 1,
        2 => 999_999_999,
        3 => 250_000_000,
        4 => 500_000_000,
        _ => rng.below(1_000_000_000) as i32,
    };
    let neg = sec < 0 || (sec == 0 && rng.chance(1, 2));
    (sec, if neg { -frac } else { frac })
}

pub fn generate(thorough: bool, rng: &mut Rng, ops: &mut Vec<String>, stats: &mut Stats) {
    for (s, n) in [(0i64, 0i32), (-86400, -250_000_000), (-1, -1), (0, -500_000_000), (-1, 0), (1, 999_999_999), (4_102_444_800, 5), (-2_000_000_000, -999_999_999)] {
        ops.push(format!("c01 time {s} {n}"));
    }
    for _ in 0..(if thorough { 2000 } else { 150 }) {
        let (s, n) = rand_time(rng);
        stats.hit(if s < 0 || n < 0 { if n != 0 { "time.pre-epoch.frac" } else { "time.pre-epoch.whole" } } else { "time.post-epoch" });
        if rng.chance(1, 3) {
            let (a, an) = rand_time(rng);
            ops.push(format!("c01 time {s} {n} {a} {an}"));
        } else {
            ops.push(format!("c01 time {s} {n}"));
        }
    }
}
