//! C07 — identical content is stored once; unchanged data adds nothing.
//! * `c07 hist …`: real backup histories on `MemBackend` (rabin chunker with small parameters and a fixed
//!   polynomial) under edit scripts — prepend / insert / delete / overwrite / append / duplicate / rename /
//!   remove / a file whose bytes are the serialised tree of a directory — vs. the Lean model (chunker model +
//!   archiver model + packer pipeline model).  Observed per run: rank of the root tree id, `data_blobs`,
//!   `tree_blobs`, `data_added_files`, the set of blob keys that became indexed (data blobs by digest of their
//!   plaintext, tree blobs by the directory they belong to).  Oracles: `check --read-data` clean after every
//!   run, packs written = packs indexed, no key stored twice (default pack size).
//! * `c07 pack …`: the real packer pipeline (hook `verif::packer::pack_blobs`: two `Packer`s sharing one
//!   `Indexer`) on adversarial add sequences with tiny pack sizes; observed: the set of keys indexed.
use std::collections::{BTreeMap, BTreeSet};
use std::ffi::OsString;
use std::os::unix::ffi::OsStringExt;
use std::path::PathBuf;

use crate::dispatch::c11::{K, ROOT_TIME};
use crate::repo::{MemBackend, RepoHandle, SRC_ROOT};
use crate::util::{Rng, Stats, guarded, hex, unhex};
use rustic_core::repofile::{BlobType, ConfigFile, IndexFile, Metadata, Node, NodeType, SnapshotFile};
use rustic_core::{BackupOptions, BlobId, Credentials, FileType, Id, KeyOptions, ParentOptions, Repository, TreeId};

pub const POLY: u64 = 0x003D_A335_8B4D_C173;

pub fn fnv(b: &[u8]) -> u64 {
    let mut h: u64 = 0xcbf2_9ce4_8422_2325;
    for x in b {
        h ^= u64::from(*x);
        h = h.wrapping_mul(0x0000_0100_0000_01b3);
    }
    h
}

#[derive(Clone, Debug, PartialEq)]
pub enum Content {
    Bytes(Vec<u8>),
    /// the serialised tree of directory `path` (relative to the source root) of the state that uses it
    TreeOf(Vec<Vec<u8>>),
}

#[derive(Clone, Debug)]
pub struct E {
    pub path: Vec<Vec<u8>>,
    pub kind: K,
    pub mtime: i64,
    pub content: usize,
    /// size RECORDED in the node's metadata when it differs from the length of the content the reader delivers (`None` = the real
    /// length): 0 = a stdin-style node (`backup -`, `--stdin-command`, block device saved as file), smaller = a file that grew after
    /// `stat`, larger = a file that shrank.  Optional 5th field of a state entry.
    pub rsize: Option<u64>,
}

fn path_tok(p: &[Vec<u8>]) -> String {
    if p.is_empty() { ".".into() } else { p.iter().map(|c| hex(c)).collect::<Vec<_>>().join("/") }
}
fn parse_path(s: &str) -> Option<Vec<Vec<u8>>> {
    if s == "." {
        return Some(vec![]);
    }
    s.split('/').map(unhex).collect()
}

fn enc_table(t: &[Content]) -> String {
    if t.is_empty() {
        return "-".into();
    }
    t.iter()
        .map(|c| match c {
            Content::Bytes(b) => format!("b{}", hex(b)),
            Content::TreeOf(p) => format!("T{}", path_tok(p)),
        })
        .collect::<Vec<_>>()
        .join(";")
}
fn parse_table(s: &str) -> Option<Vec<Content>> {
    if s == "-" {
        return Some(vec![]);
    }
    s.split(';')
        .map(|t| match t.split_at(1) {
            ("b", h) => unhex(h).map(Content::Bytes),
            ("T", p) => parse_path(p).map(Content::TreeOf),
            _ => None,
        })
        .collect()
}
fn enc_state(es: &[E]) -> String {
    if es.is_empty() {
        return "-".into();
    }
    es.iter()
        .map(|e| {
            let kind = match &e.kind {
                K::File => "f".to_string(),
                K::Dir => "d".to_string(),
                K::Link(t) => format!("l{}", hex(t)),
                K::Other(k) => format!("o{k}"),
            };
            match e.rsize {
                None => format!("{}:{}:{}:{}", path_tok(&e.path), kind, e.mtime, e.content),
                Some(r) => format!("{}:{}:{}:{}:{}", path_tok(&e.path), kind, e.mtime, e.content, r),
            }
        })
        .collect::<Vec<_>>()
        .join(";")
}
fn parse_state(s: &str) -> Option<Vec<E>> {
    if s == "-" {
        return Some(vec![]);
    }
    s.split(';')
        .map(|t| {
            let f: Vec<&str> = t.split(':').collect();
            if f.len() != 4 && f.len() != 5 {
                return None;
            }
            let rsize = if f.len() == 5 { Some(f[4].parse::<u64>().ok()?) } else { None };
            if rsize.is_some() && f[1] != "f" {
                return None;
            }
            let kind = match f[1].split_at(1) {
                ("f", "") => K::File,
                ("d", "") => K::Dir,
                ("l", t) => K::Link(unhex(t)?),
                _ => return None,
            };
            let path = parse_path(f[0])?;
            if path.is_empty() {
                return None;
            }
            Some(E { path, kind, mtime: f[2].parse().ok()?, content: f[3].parse().ok()?, rsize })
        })
        .collect()
}

use crate::dispatch::c11::{stamp, ts};

/// in-memory source: explicit bytes per file
#[derive(Clone)]
struct Src {
    entries: Vec<(E, Vec<u8>)>,
}

fn node(name: &[u8], kind: &K, size: u64, mtime: i64) -> Node {
    let meta = Metadata {
        mode: Some(if *kind == K::Dir { 0o755 } else { 0o644 }),
        mtime: Some(ts(mtime)),
        atime: Some(ts(mtime)),
        ctime: Some(ts(mtime)),
        uid: Some(1000),
        gid: Some(1000),
        user: None,
        group: None,
        inode: 0,
        device_id: 1,
        size,
        links: 1,
        extended_attributes: vec![],
    };
    let nt = match kind {
        K::File => NodeType::File,
        K::Dir => NodeType::Dir,
        K::Link(t) => NodeType::from_link(&PathBuf::from(OsString::from_vec(t.clone()))),
        K::Other(_) => NodeType::Fifo,
    };
    Node::new_node(&OsString::from_vec(name.to_vec()), nt, meta)
}

impl rustic_core::ReadSource for Src {
    type Open = std::io::Cursor<Vec<u8>>;
    type Iter = std::vec::IntoIter<rustic_core::RusticResult<rustic_core::ReadSourceEntry<Self::Open>>>;
    fn size(&self) -> rustic_core::RusticResult<Option<u64>> {
        Ok(None)
    }
    fn entries(&self) -> Self::Iter {
        let mut v = Vec::new();
        v.push(Ok(rustic_core::ReadSourceEntry { path: PathBuf::from(SRC_ROOT), node: node(b"src", &K::Dir, 0, ROOT_TIME), open: None }));
        for (e, data) in &self.entries {
            let mut p = PathBuf::from(SRC_ROOT);
            for c in &e.path {
                p.push(OsString::from_vec(c.clone()));
            }
            // the size the node RECORDS: the real length unless the entry says otherwise (stdin-style / grown / shrunk files)
            let size = if e.kind == K::File { e.rsize.unwrap_or(data.len() as u64) } else { 0 };
            let open = (e.kind == K::File).then(|| std::io::Cursor::new(data.clone()));
            v.push(Ok(rustic_core::ReadSourceEntry { path: p, node: node(e.path.last().unwrap(), &e.kind, size, e.mtime), open }));
        }
        v.into_iter()
    }
}

pub fn rabin_config(avg: usize, min: usize, max: usize) -> ConfigFile {
    let mut c = ConfigFile::new(2, rustic_core::Id::random().into(), POLY);
    c.chunker = Some(rustic_core::repofile::Chunker::Rabin);
    c.chunk_size = Some(avg);
    c.chunk_min_size = Some(min);
    c.chunk_max_size = Some(max);
    c
}

pub fn init_with(config: ConfigFile) -> rustic_core::RusticResult<RepoHandle> {
    let h = RepoHandle { be: MemBackend::new(), hot: None, key: rustic_core::repofile::MasterKey::new() };
    let repo = Repository::new(&RepoHandle::opts_nc(), &h.backends())?;
    let _ = repo.init_with_config(&Credentials::Masterkey(h.key.clone()), &KeyOptions::default(), config)?;
    Ok(h)
}

fn snap() -> SnapshotFile {
    crate::dispatch::c11::new_snap()
}

/// all (type, id) → multiplicity listed by the index files, and the set of packs they list
fn index_keys(h: &RepoHandle) -> rustic_core::RusticResult<(BTreeMap<(u8, Id), usize>, BTreeSet<Id>)> {
    let repo = h.open_nc()?;
    let mut keys = BTreeMap::new();
    let mut packs = BTreeSet::new();
    for f in repo.stream_files::<IndexFile>()? {
        let (_, f) = f?;
        for p in f.packs.iter().chain(f.packs_to_delete.iter()) {
            _ = packs.insert(*p.id);
            for b in &p.blobs {
                let t = if b.tpe == BlobType::Tree { 1u8 } else { 0u8 };
                *keys.entry((t, *b.id)).or_insert(0) += 1;
            }
        }
    }
    Ok((keys, packs))
}

/// path (hex comps joined by '/', "." = snapshot root tree) of every directory of a snapshot → its tree id
fn tree_paths(h: &RepoHandle, root: TreeId) -> rustic_core::RusticResult<Vec<(String, Id)>> {
    let repo = h.open_nc()?.to_indexed()?;
    let mut out = vec![(".".to_string(), *root)];
    let mut todo = vec![(String::new(), root)];
    while let Some((prefix, id)) = todo.pop() {
        let tree = repo.get_tree(&id)?;
        for n in tree.nodes {
            if let Some(st) = n.subtree {
                use std::os::unix::ffi::OsStrExt;
                let name = hex(n.name().as_bytes());
                let p = if prefix.is_empty() { name } else { format!("{prefix}/{name}") };
                out.push((p.clone(), *st));
                todo.push((p, st));
            }
        }
    }
    Ok(out)
}

/// bytes of the serialised tree of directory `path` when `entries` (without tree-collision files) are backed up
fn tree_bytes_of(config: &ConfigFile, entries: &[(E, Vec<u8>)], path: &[Vec<u8>]) -> Result<Vec<u8>, String> {
    let h = init_with(config.clone()).map_err(|e| crate::util::errkind(&e))?;
    let repo = h.open_nc().and_then(|r| r.to_indexed_ids()).map_err(|e| crate::util::errkind(&e))?;
    let force = BackupOptions::default().parent_opts(ParentOptions::default().force(true));
    let s = repo.archive(&force, &Src { entries: entries.to_vec() }, snap(), &[PathBuf::from(SRC_ROOT)]).map_err(|e| crate::util::errkind(&e))?;
    drop(repo);
    let repo = h.open_nc().and_then(|r| r.to_indexed()).map_err(|e| crate::util::errkind(&e))?;
    let mut pb = PathBuf::from("src");
    for c in path {
        pb.push(OsString::from_vec(c.clone()));
    }
    let n = repo.node_from_path(s.tree, &pb).map_err(|e| crate::util::errkind(&e))?;
    let t = n.subtree.ok_or("no-subtree")?;
    let b = repo.get_blob_cached(&BlobId::from(*t), BlobType::Tree).map_err(|e| crate::util::errkind(&e))?;
    Ok(b.to_vec())
}

/// `faults` = `-` or `i.k,…`: before backup `i` (≥ 1) every read of ONE index file (the `k mod n`-th of the n listed, by id) fails
/// while the index is (re-)loaded — a transient backend error.  The reload must FAIL; it is then repeated without the fault.  Should
/// it succeed (an index without that file's packs), the backup runs with the index it was given, and the oracles decide.
fn parse_faults(s: &str) -> Option<BTreeMap<usize, usize>> {
    if s == "-" {
        return Some(BTreeMap::new());
    }
    s.split(',')
        .map(|t| {
            let (i, k) = t.split_once('.')?;
            let i = i.parse::<usize>().ok().filter(|i| *i >= 1)?;
            Some((i, k.parse::<usize>().ok()?))
        })
        .collect()
}

fn exec_hist(parent: &str, avg: &str, min: &str, max: &str, table: &str, states: &str, faults: &str) -> String {
    let Some(faults) = parse_faults(faults) else {
        return "bad-op".into();
    };
    let (Ok(avg), Ok(min), Ok(max), Some(table)) = (avg.parse::<usize>(), min.parse::<usize>(), max.parse::<usize>(), parse_table(table)) else {
        return "bad-op".into();
    };
    let Some(states) = states.split('|').map(parse_state).collect::<Option<Vec<_>>>() else {
        return "bad-op".into();
    };
    if parent != "0" && parent != "1" {
        return "bad-op".into();
    }
    let config = rabin_config(avg, min, max);
    let h = match init_with(config.clone()) {
        Ok(h) => h,
        Err(e) => return crate::util::errkind(&e),
    };
    macro_rules! tryk {
        ($e:expr) => {
            match $e {
                Ok(x) => x,
                Err(e) => return crate::util::errkind(&e),
            }
        };
    }
    let mut roots: Vec<Id> = vec![];
    let mut out = vec!["ok".to_string()];
    for (i, st) in states.iter().enumerate() {
        if st.iter().any(|e| e.kind == K::File && e.content >= table.len()) {
            return "bad-op".into();
        }
        // materialise contents (tree-collision files need the tree of the other entries first)
        let plain: Vec<(E, Vec<u8>)> = st
            .iter()
            .map(|e| (e.clone(), if e.kind == K::File { if let Content::Bytes(b) = &table[e.content] { b.clone() } else { vec![] } } else { vec![] }))
            .collect();
        let mut full = plain.clone();
        let mut coll: BTreeMap<Vec<u8>, String> = BTreeMap::new(); // tree bytes -> token
        for (e, data) in full.iter_mut() {
            if e.kind == K::File {
                if let Content::TreeOf(p) = &table[e.content] {
                    *data = match tree_bytes_of(&config, &plain, p) {
                        Ok(b) => b,
                        Err(e) => return format!("bad-op:tree-of:{e}"),
                    };
                    if data.len() >= min {
                        return "bad-op:tree-content-not-a-single-chunk".into();
                    }
                    _ = coll.insert(data.clone(), format!("T{}", path_tok(p)));
                }
            }
        }
        let (before, packs_before) = tryk!(index_keys(&h));
        let stored_packs_before: BTreeSet<Id> = h.be.ids(FileType::Pack).into_iter().collect();
        let mut faulty_index = None;
        if let Some(k) = faults.get(&i) {
            let mut ids = h.be.ids(FileType::Index);
            ids.sort();
            if !ids.is_empty() {
                let id = ids[k % ids.len()];
                h.be.set_fail_reads_of(FileType::Index, id, true);
                let r = h.open_nc().and_then(|r| r.to_indexed_ids());
                h.be.set_fail_reads_of(FileType::Index, id, false);
                if let Ok(r) = r {
                    // the reload "succeeded" although one index file could not be read: go on with what it returned
                    faulty_index = Some(r);
                }
            }
        }
        let repo = match faulty_index {
            Some(r) => r,
            None => tryk!(h.open_nc().and_then(|r| r.to_indexed_ids())),
        };
        let opts = BackupOptions::default().parent_opts(ParentOptions::default().force(parent == "0"));
        if i > 0 {
            std::thread::sleep(std::time::Duration::from_millis(2));
        }
        let s = tryk!(repo.archive(&opts, &Src { entries: full.clone() }, snap(), &[PathBuf::from(SRC_ROOT)]));
        drop(repo);
        let (after, packs_after) = tryk!(index_keys(&h));
        // oracles
        let stored_packs_after: BTreeSet<Id> = h.be.ids(FileType::Pack).into_iter().collect();
        let new_stored: BTreeSet<Id> = stored_packs_after.difference(&stored_packs_before).copied().collect();
        let new_indexed: BTreeSet<Id> = packs_after.difference(&packs_before).copied().collect();
        if new_stored != new_indexed {
            return format!("oracle-fail:packs-written-vs-indexed:{}:{}", new_stored.len(), new_indexed.len());
        }
        match crate::repo::check_error_kinds(&h, true) {
            Some(v) if v.is_empty() => {}
            Some(v) => return format!("oracle-fail:check-errors:run{i}:{}:{}", v.len(), v.join("+")),
            None => return format!("oracle-fail:check-failed:run{i}"),
        }
        let mut new_data: Vec<String> = vec![];
        let mut coll_len: u64 = 0;
        let mut new_tree_ids: Vec<Id> = vec![];
        let repo_full = tryk!(h.open_nc().and_then(|r| r.to_indexed()));
        for ((t, id), n) in &after {
            let old = before.get(&(*t, *id)).copied().unwrap_or(0);
            if *n > old + 1 || (old > 0 && *n > old) {
                return "oracle-fail:blob-stored-twice".into();
            }
            if old == 0 {
                if *t == 0 {
                    let b = tryk!(repo_full.get_blob_cached(&BlobId::from(*id), BlobType::Data));
                    if let Some(tok) = coll.get(&b.to_vec()) {
                        coll_len += b.len() as u64;
                        new_data.push(tok.clone());
                    } else {
                        new_data.push(format!("{:016x}.{}", fnv(&b), b.len()));
                    }
                } else {
                    new_tree_ids.push(*id);
                }
            }
        }
        new_data.sort();
        let paths = tryk!(tree_paths(&h, s.tree));
        let mut new_trees: Vec<String> = new_tree_ids
            .iter()
            .map(|id| paths.iter().filter(|(_, i)| i == id).map(|(p, _)| p.clone()).min().unwrap_or_else(|| "?".into()))
            .collect();
        new_trees.sort();
        let rank = roots.iter().position(|r| *r == *s.tree).unwrap_or(i);
        roots.push(*s.tree);
        let sm = s.summary.as_ref().unwrap();
        out.push(format!(
            "[{i}] tree={rank} d={} t={} df={} new={}|{}",
            sm.data_blobs,
            sm.tree_blobs,
            sm.data_added_files - coll_len,
            if new_data.is_empty() { "-".into() } else { new_data.join(",") },
            if new_trees.is_empty() { "-".into() } else { new_trees.join(",") }
        ));
    }
    out.join(" ")
}

// ------------------------------------------------------------------------------------------------
// pack: the packer pipeline alone

fn exec_pack(dsize: &str, tsize: &str, adds: &str) -> String {
    let (Ok(dsize), Ok(tsize)) = (dsize.parse::<u64>(), tsize.parse::<u64>()) else {
        return "bad-op".into();
    };
    let mut seq: Vec<(BlobType, u64, usize)> = vec![];
    if adds != "-" {
        for t in adds.split(',') {
            let f: Vec<&str> = t.split('.').collect();
            if f.len() != 3 {
                return "bad-op".into();
            }
            let tpe = match f[0] {
                "d" => BlobType::Data,
                "t" => BlobType::Tree,
                _ => return "bad-op".into(),
            };
            let (Ok(l), Ok(n)) = (f[1].parse::<u64>(), f[2].parse::<usize>()) else {
                return "bad-op".into();
            };
            seq.push((tpe, l, n));
        }
    }
    let cfg = crate::dispatch::c11::fixed64_config()
        .set_datapack_size(bytesize::ByteSize(dsize))
        .set_treepack_size(bytesize::ByteSize(tsize))
        .set_datapack_growfactor(0u32)
        .set_treepack_growfactor(0u32);
    let (h, repo) = match RepoHandle::init_nc(MemBackend::new(), None, &cfg) {
        Ok(x) => x,
        Err(e) => return crate::util::errkind(&e),
    };
    let blobs: Vec<(BlobType, Vec<u8>, BlobId)> = seq
        .iter()
        .map(|(t, l, n)| {
            // one id space for both types: label l names the same id under either type
            let mut r = Rng::new(*l ^ 0x9ACC);
            (*t, r.bytes(*n), BlobId::from(crate::dispatch::c11::fake_id(*l, 0xC7)))
        })
        .collect();
    let stats = match rustic_core::verif::packer::pack_blobs(&repo, blobs) {
        Ok(s) => s,
        Err(e) => return crate::util::errkind(&e),
    };
    drop(repo);
    let (keys, packs) = match index_keys(&h) {
        Ok(x) => x,
        Err(e) => return crate::util::errkind(&e),
    };
    let stored: BTreeSet<Id> = h.be.ids(FileType::Pack).into_iter().collect();
    if stored != packs {
        return format!("oracle-fail:packs-written-vs-indexed:{}:{}", stored.len(), packs.len());
    }
    let total: usize = keys.values().sum();
    if (stats[0].0 + stats[1].0) as usize != total {
        return format!("oracle-fail:stats-vs-index:{}:{}", stats[0].0 + stats[1].0, total);
    }
    let mut ks: Vec<String> = keys
        .keys()
        .map(|(t, id)| format!("{}{}", if *t == 0 { "d" } else { "t" }, u64::from_str_radix(&id.to_hex().as_str()[..16], 16).unwrap()))
        .collect();
    ks.sort();
    format!("ok {}", if ks.is_empty() { "-".into() } else { ks.join(",") })
}


/// `c07 many <dsize> <n> <len> <dups>`: ONE run of the real packer pipeline (hook `pack_blobs`) with `n` pairwise different
/// data blobs of `len` bytes (label i = position) followed by the blobs named in `dups` (`i,j,…`) once more — far behind their
/// first occurrence, whose pack has long been written and indexed (at most a few packs are in flight).  With `n` above the
/// indexer's `MAX_COUNT` the intermediate index-file flush lies between the two occurrences.  Observation `ok keys=<n>`.
/// Oracles: no key twice in the index files (`blob-stored-twice`), packs written = packs indexed, `data_blobs` = n, and the
/// flush really happened when `n >= MAX_COUNT` (`index-not-flushed`).
fn exec_many(dsize: &str, n: &str, len: &str, dups: &str) -> String {
    let (Ok(dsize), Ok(n), Ok(len)) = (dsize.parse::<u64>(), n.parse::<usize>(), len.parse::<usize>()) else {
        return "bad-op".into();
    };
    if n > 400_000 || !(8..=4096).contains(&len) {
        return "bad-op".into();
    }
    let dups: Option<Vec<usize>> = if dups == "-" { Some(vec![]) } else { dups.split(',').map(|x| x.parse().ok().filter(|i| *i < n)).collect() };
    let Some(dups) = dups else { return "bad-op".into() };
    let cfg = crate::dispatch::c11::fixed64_config().set_datapack_size(bytesize::ByteSize(dsize)).set_datapack_growfactor(0u32);
    let (h, repo) = match RepoHandle::init_nc(MemBackend::new(), None, &cfg) {
        Ok(x) => x,
        Err(e) => return crate::util::errkind(&e),
    };
    let blob = |i: usize| -> (BlobType, Vec<u8>, BlobId) {
        let mut data = vec![0u8; len];
        data[..8].copy_from_slice(&(i as u64).to_le_bytes());
        (BlobType::Data, data, BlobId::from(crate::dispatch::c11::fake_id(i as u64, 0xC8)))
    };
    let blobs: Vec<_> = (0..n).chain(dups.iter().copied()).map(blob).collect();
    let stats = match rustic_core::verif::packer::pack_blobs(&repo, blobs) {
        Ok(s) => s,
        Err(e) => return crate::util::errkind(&e),
    };
    drop(repo);
    let (keys, packs) = match index_keys(&h) {
        Ok(x) => x,
        Err(e) => return crate::util::errkind(&e),
    };
    let twice = keys.values().filter(|c| **c > 1).count();
    if twice > 0 {
        return format!("oracle-fail:blob-stored-twice:{twice}");
    }
    let stored: BTreeSet<Id> = h.be.ids(FileType::Pack).into_iter().collect();
    if stored != packs {
        return format!("oracle-fail:packs-written-vs-indexed:{}:{}", stored.len(), packs.len());
    }
    if stats[0].0 as usize != keys.len() {
        return format!("oracle-fail:stats-vs-index:{}:{}", stats[0].0, keys.len());
    }
    if n >= rustic_core::verif::indexer::MAX_COUNT && h.be.ids(FileType::Index).len() < 2 {
        return "oracle-fail:index-not-flushed".into();
    }
    format!("ok keys={}", keys.len())
}

// ------------------------------------------------------------------------------------------------
// generator

const NAMES: [&[u8]; 8] = [b"a", b"b", b"c", b"f", b"g", b"big", b"x y", b"z\xff"];

fn gen_bytes(rng: &mut Rng, stats: &mut Stats) -> Vec<u8> {
    let n = match rng.below(8) {
        0 => 0,
        1 => rng.below(64) as usize,
        2..=4 => 200 + rng.below(1500) as usize,
        _ => 1000 + rng.below(3500) as usize,
    };
    match rng.below(4) {
        0 => {
            stats.hit("c07.data.periodic");
            let period = 1 + rng.below(97) as usize;
            let pat = rng.bytes(period);
            (0..n).map(|i| pat[i % period]).collect()
        }
        1 => {
            stats.hit("c07.data.low-entropy");
            let alpha = rng.bytes(3);
            (0..n).map(|_| *rng.pick(&alpha)).collect()
        }
        _ => {
            stats.hit("c07.data.random");
            rng.bytes(n)
        }
    }
}

fn edit(rng: &mut Rng, b: &[u8], stats: &mut Stats) -> Vec<u8> {
    let mut v = b.to_vec();
    let n = v.len();
    let off = if n == 0 { 0 } else { rng.below(n as u64 + 1) as usize };
    let kmax = *rng.pick(&[1u64, 8, 64, 300]);
    let k = 1 + rng.below(kmax) as usize;
    match rng.below(6) {
        0 => {
            stats.hit("c07.edit.prepend");
            let mut p = rng.bytes(k);
            p.extend_from_slice(&v);
            v = p;
        }
        1 => {
            stats.hit("c07.edit.insert");
            let ins = rng.bytes(k);
            v.splice(off..off, ins);
        }
        2 => {
            stats.hit("c07.edit.delete");
            let end = (off + k).min(n);
            _ = v.drain(off..end);
        }
        3 => {
            stats.hit("c07.edit.overwrite");
            let end = (off + k).min(n);
            for x in &mut v[off..end] {
                *x ^= 0x5a;
            }
        }
        4 => {
            stats.hit("c07.edit.append");
            v.extend(rng.bytes(k));
        }
        _ => {
            stats.hit("c07.edit.truncate");
            v.truncate(off);
        }
    }
    v
}

/// A later time stamp of a file that was written again.  Time stamps are full (second, nanosecond) pairs (see `c11::stamp`):
/// most rewrites happen within the SAME second as the previous write (only the nanoseconds differ: by 1 ns, 1 µs, 1 ms, half a
/// second, across the .999999999 border), some in a later second with equal or other nanoseconds.
fn bump(rng: &mut Rng, m: i64, stats: &mut Stats) -> i64 {
    use crate::dispatch::c11::{stamp_nanos, stamp_secs};
    let (s, n) = (stamp_secs(m), stamp_nanos(m) as u32);
    match rng.below(8) {
        0 => {
            stats.hit("c07.mtime.next-second-same-nanos");
            stamp(s + 1, n)
        }
        1 => {
            stats.hit("c07.mtime.later-second-other-nanos");
            stamp(s + 1 + rng.below(3) as i64, rng.below(1_000_000_000) as u32)
        }
        _ => {
            stats.hit("c07.mtime.same-second-other-nanos");
            let d = *rng.pick(&[1u32, 1, 1000, 1_000_000, 500_000_000, 999_999_999]);
            stamp(s, (n + d) % 1_000_000_000)
        }
    }
}

fn content_len(c: &Content) -> usize {
    match c {
        Content::Bytes(b) => b.len(),
        Content::TreeOf(_) => 0,
    }
}

fn intern(table: &mut Vec<Content>, c: Content) -> usize {
    if let Some(i) = table.iter().position(|x| *x == c) {
        i
    } else {
        table.push(c);
        table.len() - 1
    }
}

type Files = BTreeMap<Vec<Vec<u8>>, (K, i64, usize, Option<u64>)>;

fn to_entries(files: &Files) -> Vec<E> {
    // BTreeMap order on component lists = walk order (directories before their content, siblings by name)
    files.iter().map(|(p, (k, m, c, r))| E { path: p.clone(), kind: k.clone(), mtime: *m, content: *c, rsize: *r }).collect()
}

/// A recorded size that is NOT the length of the content (`len`): 0 (stdin-style node), a smaller one (the file grew after `stat`:
/// below the minimum chunk size, half, one less), a larger one (it shrank).
fn wrong_size(rng: &mut Rng, len: usize, stats: &mut Stats) -> Option<u64> {
    let len = len as u64;
    let r = match rng.below(6) {
        0..=2 => {
            stats.hit("c07.rsize.zero");
            0
        }
        3 => {
            stats.hit("c07.rsize.smaller");
            *rng.pick(&[1, len / 2, len.saturating_sub(1), 63.min(len)])
        }
        4 => {
            stats.hit("c07.rsize.larger");
            len + 1 + rng.below(5000)
        }
        _ => {
            stats.hit("c07.rsize.smaller");
            rng.below(len + 1)
        }
    };
    (r != len).then_some(r)
}

fn gen_hist(rng: &mut Rng, stats: &mut Stats, thorough: bool) -> String {
    let (mut avg, mut min, mut max) = *rng.pick(&[(64usize, 64usize, 256usize), (128, 64, 512), (256, 100, 1024), (128, 128, 128), (512, 70, 4096)]);
    let mut table: Vec<Content> = vec![];
    let mut files: Files = BTreeMap::new();
    let dirs: Vec<Vec<Vec<u8>>> = vec![vec![], vec![b"d".to_vec()], vec![b"d".to_vec(), b"e".to_vec()]];
    let n_dirs = 1 + rng.below(3) as usize;
    for d in dirs.iter().take(n_dirs).skip(1) {
        _ = files.insert(d.clone(), (K::Dir, 50, 0, None));
    }
    for _ in 0..(1 + rng.below(4)) {
        let mut p = rng.pick(&dirs[..n_dirs]).clone();
        p.push(rng.pick(&NAMES).to_vec());
        if files.contains_key(&p) || dirs.contains(&p) {
            continue;
        }
        let c = intern(&mut table, Content::Bytes(gen_bytes(rng, stats)));
        let nanos = *rng.pick(&[0u32, 0, 1, 999_999_999, 123_456_789, 500_000_000]);
        // some sources deliver content whose length is not the size their node records (stdin-style nodes: size 0)
        let rsize = if rng.chance(1, 5) { wrong_size(rng, content_len(&table[c]), stats) } else { None };
        _ = files.insert(p, (K::File, stamp(100 + rng.below(3) as i64, nanos), c, rsize));
    }
    let mut states = vec![to_entries(&files)];
    let n_states = if thorough { 2 + rng.below(4) } else { 1 + rng.below(3) };
    for _ in 0..n_states {
        // a tree-collision file changes whenever its directory does, possibly without changing its size: give it a
        // new mtime in every state, so that a parent-based backup never takes it for unchanged (that case is C11's)
        for v in files.values_mut() {
            if v.0 == K::File && matches!(table.get(v.2), Some(Content::TreeOf(_))) {
                v.1 = bump(rng, v.1, stats);
            }
        }
        for _ in 0..rng.below(3) {
            let file_paths: Vec<Vec<Vec<u8>>> = files.iter().filter(|(_, v)| v.0 == K::File).map(|(p, _)| p.clone()).collect();
            match rng.below(12) {
                0..=4 if !file_paths.is_empty() => {
                    let p = rng.pick(&file_paths).clone();
                    let (_, m, c, r) = files[&p].clone();
                    if let Content::Bytes(b) = table[c].clone() {
                        let nb = edit(rng, &b, stats);
                        // a node with a wrong size keeps it (a stream stays a stream; the stale size of a growing file), or gets
                        // another wrong one; the others record their new length
                        let nr = match r {
                            Some(r) if r != nb.len() as u64 && rng.chance(2, 3) => Some(r),
                            Some(_) => wrong_size(rng, nb.len(), stats),
                            None => None,
                        };
                        let nc = intern(&mut table, Content::Bytes(nb));
                        _ = files.insert(p, (K::File, bump(rng, m, stats), nc, nr));
                    }
                }
                10 | 11 if !file_paths.is_empty() => {
                    // the same content once more under another name with the OTHER kind of node: a stream (recorded size 0 / wrong)
                    // of a file's content, or a plain file of a stream's content
                    let p = rng.pick(&file_paths).clone();
                    let (_, m, c, r) = files[&p].clone();
                    if let Content::Bytes(b) = table[c].clone() {
                        let nr = if r.is_some() {
                            stats.hit("c07.edit.stream-content-as-file");
                            None
                        } else {
                            stats.hit("c07.edit.file-content-as-stream");
                            wrong_size(rng, b.len(), stats)
                        };
                        let mut q = rng.pick(&dirs[..n_dirs]).clone();
                        q.push(rng.pick(&NAMES).to_vec());
                        if !files.contains_key(&q) && !dirs.contains(&q) {
                            _ = files.insert(q, (K::File, bump(rng, m, stats), c, nr));
                        } else if files.get(&q).is_some_and(|v| v.0 == K::File && matches!(table.get(v.2), Some(Content::Bytes(_)))) {
                            // … or in place: the node of an existing file changes its kind together with its content
                            let m2 = files[&q].1;
                            _ = files.insert(q, (K::File, bump(rng, m2, stats), c, nr));
                        }
                    }
                }
                5 if !file_paths.is_empty() => {
                    stats.hit("c07.edit.duplicate");
                    let p = rng.pick(&file_paths).clone();
                    let v = files[&p].clone();
                    let mut q = rng.pick(&dirs[..n_dirs]).clone();
                    q.push(rng.pick(&NAMES).to_vec());
                    if !files.contains_key(&q) && !dirs.contains(&q) {
                        _ = files.insert(q, v);
                    }
                }
                6 if !file_paths.is_empty() => {
                    stats.hit("c07.edit.rename");
                    let p = rng.pick(&file_paths).clone();
                    let mut q = rng.pick(&dirs[..n_dirs]).clone();
                    q.push(rng.pick(&NAMES).to_vec());
                    if !files.contains_key(&q) && !dirs.contains(&q) {
                        let v = files.remove(&p).unwrap();
                        _ = files.insert(q, v);
                    }
                }
                7 if !file_paths.is_empty() => {
                    stats.hit("c07.edit.remove");
                    let p = rng.pick(&file_paths).clone();
                    _ = files.remove(&p);
                }
                8 if n_dirs > 1 => {
                    // a file (outside that directory) whose bytes are the serialised tree of a directory
                    stats.hit("c07.edit.tree-collision-file");
                    let d = dirs[1 + rng.below(n_dirs as u64 - 1) as usize].clone();
                    let c = intern(&mut table, Content::TreeOf(d));
                    let name: &[u8] = if rng.chance(1, 2) { b"0coll" } else { b"zcoll" };
                    // a collision file that exists already keeps changing its stamp (its content follows the directory's tree and
                    // may keep its size: with the old stamp a parent-based backup would rightly take it for unchanged — C11's case)
                    let m = match files.get(&vec![name.to_vec()]) {
                        Some(old) => bump(rng, old.1, stats),
                        None => 100,
                    };
                    _ = files.insert(vec![name.to_vec()], (K::File, m, c, None));
                }
                _ => {
                    stats.hit("c07.edit.new-file");
                    let mut q = rng.pick(&dirs[..n_dirs]).clone();
                    q.push(rng.pick(&NAMES).to_vec());
                    if !files.contains_key(&q) && !dirs.contains(&q) {
                        let c = intern(&mut table, Content::Bytes(gen_bytes(rng, stats)));
                        let rsize = if rng.chance(1, 4) { wrong_size(rng, content_len(&table[c]), stats) } else { None };
                        _ = files.insert(q, (K::File, 100, c, rsize));
                    }
                }
            }
        }
        states.push(to_entries(&files)); // zero edits = unchanged source
    }
    if table.iter().any(|c| matches!(c, Content::TreeOf(_))) {
        // the serialised tree must stay one chunk for the collision to exist
        (avg, min, max) = (4096, 4096, 8192);
    }
    stats.add("c07.hist.states", states.len() as u64);
    let parent = rng.below(2);
    // a transient read error of one index file while the index is reloaded before a backup (1 history in 3)
    let faults = if states.len() > 1 && rng.chance(1, 3) {
        let n = 1 + rng.below(2);
        let mut f: BTreeMap<usize, usize> = BTreeMap::new();
        for _ in 0..n {
            _ = f.insert(1 + rng.below(states.len() as u64 - 1) as usize, rng.below(8) as usize);
        }
        stats.add("c07.hist.index-read-faults", f.len() as u64);
        format!(" {}", f.iter().map(|(i, k)| format!("{i}.{k}")).collect::<Vec<_>>().join(","))
    } else {
        String::new()
    };
    format!("c07 hist {parent} {avg} {min} {max} {} {}{faults}", enc_table(&table), states.iter().map(|s| enc_state(s)).collect::<Vec<_>>().join("|"))
}

fn gen_pack(rng: &mut Rng, stats: &mut Stats) -> String {
    let n = rng.below(40) as usize;
    let labels = 1 + rng.below(12);
    let adds: Vec<String> = (0..n)
        .map(|_| {
            let t = if rng.chance(1, 2) { "d" } else { "t" };
            format!("{t}.{}.{}", rng.below(labels), *rng.pick(&[1usize, 10, 100, 1000]))
        })
        .collect();
    stats.add("c07.pack.adds", n as u64);
    let small = *rng.pick(&[1u64, 50, 500, 4_000_000]);
    let small2 = *rng.pick(&[1u64, 50, 500, 4_000_000]);
    format!("c07 pack {small} {small2} {}", if adds.is_empty() { "-".into() } else { adds.join(",") })
}

/// Directed histories (every run, whatever the seed): one file overwritten IN PLACE — same length, same name — between consecutive
/// parent-based backups, where the time stamp of the rewrite differs from the recorded one (a) only in the nanoseconds (same second:
/// +1 ns, -1 ns, across .999999999), (b) only in the seconds (equal nanoseconds), (c) not at all but the size does (append).  Every
/// chunk the overwrite creates must be uploaded and the tree id must change ("after an edit, every chunk that did not exist before is
/// uploaded"); then an unchanged state (nothing added, same tree id).  Also run forced (no parent) as the reference.
fn directed_hist(ops: &mut Vec<String>, stats: &mut Stats) {
    let mut r = Rng::new(0xC07_D1EC);
    for (k, (n0, n1)) in [(0u32, 1u32), (5, 4), (999_999_998, 999_999_999), (123_456_789, 623_456_789)].into_iter().enumerate() {
        for parent in [1, 0] {
            let len = 700 + 300 * k;
            let b0 = r.bytes(len);
            let mut b1 = b0.clone();
            for x in &mut b1[len / 2..len / 2 + 40] {
                *x ^= 0x5a;
            }
            let mut b2 = b1.clone();
            for x in &mut b2[..3] {
                *x = x.wrapping_add(1);
            }
            let mut b3 = b2.clone();
            b3.extend(r.bytes(10));
            let other = r.bytes(300);
            let table = vec![Content::Bytes(b0), Content::Bytes(b1), Content::Bytes(b2), Content::Bytes(b3), Content::Bytes(other)];
            let st = |m: i64, c: usize| {
                vec![
                    E { path: vec![b"d".to_vec()], kind: K::Dir, mtime: 50, content: 0, rsize: None },
                    E { path: vec![b"d".to_vec(), b"g".to_vec()], kind: K::File, mtime: stamp(100, 7), content: 4, rsize: None },
                    E { path: vec![b"f".to_vec()], kind: K::File, mtime: m, content: c, rsize: None },
                ]
            };
            let states = [
                st(stamp(100, n0), 0),
                st(stamp(100, n1), 1), // same second, other nanoseconds, same size
                st(stamp(101, n1), 2), // next second, same nanoseconds, same size
                st(stamp(101, n1), 2), // unchanged
                st(stamp(101, n1), 3), // same time stamp, other size
            ];
            stats.hit("c07.hist.directed.same-size-overwrite");
            ops.push(format!("c07 hist {parent} 64 64 256 {} {}", enc_table(&table), states.iter().map(|s| enc_state(s)).collect::<Vec<_>>().join("|")));
        }
    }
}

/// Directed histories (every run): the SAME content behind a node that records its real size (a file) and behind nodes that do not —
/// size 0 (stdin-style: `backup -`, `--stdin-command`, block device as file), a stale smaller size (the file grew after `stat`), a
/// larger one (it shrank) — content several chunks long, file first or stream first, then an insert into the stream, an append, an
/// unchanged state; forced and parent-based; also with a failing read of one index file while the index is reloaded.  The chunks of a
/// node are those of its content: the stream adds nothing the file has stored and an insert re-uploads only the disturbed chunks.
fn directed_streams(ops: &mut Vec<String>, stats: &mut Stats) {
    let mut r = Rng::new(0xC07_57DE);
    for (k, (avg, min, max, len)) in [(64usize, 64usize, 256usize, 1500usize), (256, 100, 1024, 5000), (128, 128, 128, 700)].into_iter().enumerate() {
        for parent in [0, 1] {
            let b0 = r.bytes(len);
            let mut b1 = b0.clone();
            let ins = r.bytes(30);
            b1.splice(len / 2..len / 2, ins);
            let mut b2 = b1.clone();
            b2.extend(r.bytes(200));
            let (l1, l2) = (b1.len() as u64, b2.len() as u64);
            let table = vec![Content::Bytes(b0), Content::Bytes(b1), Content::Bytes(b2)];
            let f = |name: &[u8], m: i64, c: usize, rsize: Option<u64>| E { path: vec![name.to_vec()], kind: K::File, mtime: m, content: c, rsize };
            let file_first = k % 2 == 0;
            let first = if file_first { vec![f(b"f", stamp(100, 1), 0, None)] } else { vec![f(b"s", stamp(100, 2), 0, Some(0))] };
            let states = [
                first,
                vec![f(b"f", stamp(100, 1), 0, None), f(b"s", stamp(100, 2), 0, Some(0))], // the same bytes as file and as stream
                vec![f(b"f", stamp(100, 1), 0, None), f(b"s", stamp(100, 3), 1, Some(0))], // bytes inserted into the stream
                vec![f(b"f", stamp(100, 1), 0, None), f(b"s", stamp(101, 3), 2, Some(l1))], // appended; the node records the old size
                vec![f(b"f", stamp(100, 1), 0, None), f(b"s", stamp(102, 3), 2, Some(l2 + 1000))], // same content, a too large size
                vec![f(b"f", stamp(103, 1), 2, None), f(b"s", stamp(102, 3), 2, Some(l2 + 1000))], // the stream's content as a file
                vec![f(b"f", stamp(103, 1), 2, None), f(b"g", stamp(104, 0), 1, Some(1))], // earlier content, recorded size 1
            ];
            stats.hit("c07.hist.directed.stream-and-file");
            let st = states.iter().map(|s| enc_state(s)).collect::<Vec<_>>().join("|");
            ops.push(format!("c07 hist {parent} {avg} {min} {max} {} {st}", enc_table(&table)));
            stats.hit("c07.hist.directed.index-read-fault");
            ops.push(format!("c07 hist {parent} {avg} {min} {max} {} {st} 1.{k},2.{},5.{}", enc_table(&table), k + 1, k + 2));
        }
    }
}

pub fn generate(thorough: bool, rng: &mut Rng, ops: &mut Vec<String>, stats: &mut Stats) {
    directed_hist(ops, stats);
    directed_streams(ops, stats);
    for _ in 0..(if thorough { 1500 } else { 120 }) {
        let mut r = rng.fork();
        ops.push(gen_hist(&mut r, stats, thorough));
    }
    for _ in 0..(if thorough { 3000 } else { 300 }) {
        let mut r = rng.fork();
        ops.push(gen_pack(&mut r, stats));
    }
    // one run with more blobs than the indexer keeps in one index file, chunks recurring behind the intermediate flush
    let max = rustic_core::verif::indexer::MAX_COUNT;
    for k in 0..(if thorough { 6 } else { 2 }) {
        let mut r = rng.fork();
        // the first case stays below the flush threshold (cheap), the others cross it
        let n = if k == 0 { 3000 + r.below(2000) as usize } else { max + 8000 + r.below(4000) as usize };
        let len = *r.pick(&[8usize, 16, 64, 256]);
        // packs of roughly 1000..4000 blobs (stored blob = len + 32 bytes)
        let dsize = (len as u64 + 32) * (1000 + r.below(3000));
        let nd = 1 + r.below(6) as usize;
        // recurring blobs: from the first packs (long indexed when they come again)
        let dups: Vec<String> = (0..nd).map(|_| r.below((n / 4) as u64).to_string()).collect();
        stats.hit(if n >= max { "many.flushed" } else { "many.small" });
        ops.push(format!("c07 many {dsize} {n} {len} {}", dups.join(",")));
    }
}

pub fn exec(t: &[&str]) -> String {
    let t: Vec<String> = t.iter().map(|s| (*s).to_string()).collect();
    guarded(move || match t.iter().map(String::as_str).collect::<Vec<_>>().as_slice() {
        ["hist", parent, avg, min, max, table, states] => exec_hist(parent, avg, min, max, table, states, "-"),
        ["hist", parent, avg, min, max, table, states, faults] => exec_hist(parent, avg, min, max, table, states, faults),
        ["pack", dsize, tsize, adds] => exec_pack(dsize, tsize, adds),
        ["many", dsize, n, len, dups] => exec_many(dsize, n, len, dups),
        _ => "bad-op".into(),
    })
}
