//! C09 — retention rules: real `KeepOptions::apply` (public), the real period predicates (hook
//! `verif::forget::period_predicates`) and jiff's calendar vs. the Lean model (`Model/Forget.lean`,
//! `Model/Calendar.lean`).  Direct oracles on the real code inside `exec`: output is a newest-first
//! permutation of the input, protected kept / expired removed, keep <=> some reason, and raising any keep
//! count never removes a snapshot that was kept before.
//!
//!   c09 apply <opts> <now_ns> <perm|-> <snap;snap;…|->
//!   c09 cal <t_ns> <off_s>      c09 add <t_ns> <off_s> <span>      c09 eq <t1> <off1> <t2> <off2>
//!   c09 mark <n|N|A<t_ns>> <off_s of the mark> <now_ns> <off_s of now>     (must_keep / must_delete / from_snapshots)
//! opts: comma list of l|M|H|d|w|m|q|h|y=<i32>, W<l|M|…>=<span>, tags=a+b|c, ids=ab|~, none, unch ("-" = none)
//! span: p|n.years.months.weeks.days.time_ns      snap: t_ns:off_s:id8hex:tree:tags:del (del = n | N | A<t_ns>)
//! perm: the order the (deterministic) unstable sort leaves the snapshots in, as input indices joined by "."
use crate::util::{Rng, Stats, errkind, guarded};
use jiff::{
    Span, Timestamp, Zoned,
    civil::date,
    tz::{Offset, TimeZone},
};
use rustic_core::{
    KeepOptions, StringList,
    repofile::{DeleteOption, SnapshotFile},
};
use std::str::FromStr;

const KEYS: [&str; 9] = ["l", "M", "H", "d", "w", "m", "q", "h", "y"];

fn zoned(t_ns: i128, off: i32) -> Option<Zoned> {
    Some(Timestamp::from_nanosecond(t_ns).ok()?.to_zoned(TimeZone::fixed(Offset::from_seconds(off).ok()?)))
}

fn mk_span(s: &str) -> Option<Span> {
    let p: Vec<&str> = s.split('.').collect();
    if p.len() != 6 {
        return None;
    }
    let neg = match p[0] {
        "p" => false,
        "n" => true,
        _ => return None,
    };
    let y: i64 = p[1].parse().ok()?;
    let mo: i64 = p[2].parse().ok()?;
    let w: i64 = p[3].parse().ok()?;
    let d: i64 = p[4].parse().ok()?;
    let ns: i128 = p[5].parse().ok()?;
    let hours = (ns / 3_600_000_000_000) as i64;
    let rem = ns % 3_600_000_000_000;
    let mins = (rem / 60_000_000_000) as i64;
    let rem = rem % 60_000_000_000;
    let secs = (rem / 1_000_000_000) as i64;
    let nanos = (rem % 1_000_000_000) as i64;
    let sp = Span::new()
        .try_years(y).ok()?
        .try_months(mo).ok()?
        .try_weeks(w).ok()?
        .try_days(d).ok()?
        .try_hours(hours).ok()?
        .try_minutes(mins).ok()?
        .try_seconds(secs).ok()?
        .try_nanoseconds(nanos).ok()?;
    Some(if neg { sp.negate() } else { sp })
}

fn un_tilde(s: &str) -> String {
    if s == "~" { String::new() } else { s.to_string() }
}

fn mk_stringlist(s: &str) -> StringList {
    if s == "-" {
        StringList::default()
    } else {
        let joined = s.split('+').map(un_tilde).collect::<Vec<_>>().join(",");
        StringList::from_str(&joined).unwrap()
    }
}

fn parse_opts(s: &str) -> Option<KeepOptions> {
    let mut k = KeepOptions::default();
    if s == "-" {
        return Some(k);
    }
    for tok in s.split(',') {
        if tok == "none" {
            k.keep_none = true;
            continue;
        }
        if tok == "unch" {
            k.delete_unchanged = true;
            continue;
        }
        let (key, v) = tok.split_once('=')?;
        if key == "tags" {
            k.keep_tags = v.split('|').map(mk_stringlist).collect();
        } else if key == "ids" {
            k.keep_ids = v.split('|').map(un_tilde).collect();
        } else if let Some(w) = key.strip_prefix('W') {
            let sp = Some(mk_span(v)?);
            match w {
                "l" => k.keep_within = sp,
                "M" => k.keep_within_minutely = sp,
                "H" => k.keep_within_hourly = sp,
                "d" => k.keep_within_daily = sp,
                "w" => k.keep_within_weekly = sp,
                "m" => k.keep_within_monthly = sp,
                "q" => k.keep_within_quarter_yearly = sp,
                "h" => k.keep_within_half_yearly = sp,
                "y" => k.keep_within_yearly = sp,
                _ => return None,
            }
        } else {
            let n = Some(v.parse::<i32>().ok()?);
            *count_mut(&mut k, key)? = n;
        }
    }
    Some(k)
}

fn count_mut<'a>(k: &'a mut KeepOptions, key: &str) -> Option<&'a mut Option<i32>> {
    Some(match key {
        "l" => &mut k.keep_last,
        "M" => &mut k.keep_minutely,
        "H" => &mut k.keep_hourly,
        "d" => &mut k.keep_daily,
        "w" => &mut k.keep_weekly,
        "m" => &mut k.keep_monthly,
        "q" => &mut k.keep_quarter_yearly,
        "h" => &mut k.keep_half_yearly,
        "y" => &mut k.keep_yearly,
        _ => return None,
    })
}

fn full_id(id8: &str) -> String {
    format!("{id8}{}", "0".repeat(64 - id8.len()))
}

fn parse_snaps(s: &str) -> Option<Vec<SnapshotFile>> {
    let mut out = Vec::new();
    if s == "-" {
        return Some(out);
    }
    for tok in s.split(';') {
        let p: Vec<&str> = tok.split(':').collect();
        if p.len() != 6 {
            return None;
        }
        let mut sn = SnapshotFile::default();
        sn.time = zoned(p[0].parse().ok()?, p[1].parse().ok()?)?;
        sn.id = full_id(p[2]).parse().ok()?;
        sn.tree = format!("{:064x}", p[3].parse::<u64>().ok()?).parse().ok()?;
        sn.tags = mk_stringlist(p[4]);
        sn.delete = match p[5] {
            "n" => DeleteOption::NotSet,
            "N" => DeleteOption::Never,
            a => DeleteOption::After(zoned(a.strip_prefix('A')?.parse().ok()?, 0)?),
        };
        out.push(sn);
    }
    Some(out)
}

fn sort_like_apply(v: &mut [SnapshotFile]) {
    // the very call `KeepOptions::apply` makes (std's unstable sort is deterministic)
    v.sort_unstable_by(|sn1, sn2| sn1.cmp(sn2).reverse());
}

fn idx_of(input: &[SnapshotFile], sn: &SnapshotFile) -> Option<usize> {
    input.iter().position(|x| x.id == sn.id)
}

fn kept_set(k: &KeepOptions, snaps: &[SnapshotFile], now: &Zoned) -> Option<Vec<bool>> {
    let out = k.apply(snaps.to_vec(), now).ok()?;
    let mut kept = vec![false; snaps.len()];
    for o in &out {
        kept[idx_of(snaps, &o.snapshot)?] = o.keep;
    }
    Some(kept)
}

fn exec_apply(toks: &[&str]) -> String {
    let (Some(k), Ok(now_ns), Some(snaps)) = (parse_opts(toks[1]), toks[2].parse::<i128>(), parse_snaps(toks[4])) else {
        return "bad-op".into();
    };
    let Some(now) = zoned(now_ns, 0) else { return "bad-op".into() };
    let out = match k.apply(snaps.clone(), &now) {
        Ok(o) => o,
        Err(e) => return errkind(&e),
    };
    // ---- direct oracles on the real output
    if out.len() != snaps.len() {
        return "oracle-fail:length".into();
    }
    let mut seen = vec![false; snaps.len()];
    let mut items = Vec::new();
    for (pos, o) in out.iter().enumerate() {
        let Some(i) = idx_of(&snaps, &o.snapshot) else { return "oracle-fail:unknown-snapshot".into() };
        if seen[i] {
            return "oracle-fail:duplicate-snapshot".into();
        }
        seen[i] = true;
        if pos > 0 && out[pos - 1].snapshot.time < o.snapshot.time {
            return "oracle-fail:not-newest-first".into();
        }
        let protected = match &snaps[i].delete {
            DeleteOption::Never => true,
            DeleteOption::After(t) => t.timestamp() >= now.timestamp(),
            DeleteOption::NotSet => false,
        };
        let expired = matches!(&snaps[i].delete, DeleteOption::After(t) if t.timestamp() < now.timestamp());
        if protected && !o.keep {
            return "oracle-fail:protected-removed".into();
        }
        if expired && o.keep {
            return "oracle-fail:expired-kept".into();
        }
        let unchanged = !o.keep && o.reasons == ["unchanged".to_string()];
        if !protected && !expired && !unchanged && o.keep == o.reasons.is_empty() {
            return "oracle-fail:keep-without-reason".into();
        }
        let reasons = if o.reasons.is_empty() { "-".to_string() } else { o.reasons.iter().map(|r| r.replace(' ', "_")).collect::<Vec<_>>().join("+") };
        items.push(format!("{i}:{}:{reasons}", if o.keep { "K" } else { "D" }));
    }
    // raising a keep count never removes a snapshot that was kept before
    let Some(base) = kept_set(&k, &snaps, &now) else { return "oracle-fail:rerun".into() };
    for key in KEYS {
        let mut raised = Vec::new();
        let cur = *count_mut(&mut k.clone(), key).unwrap();
        match cur {
            None => raised.push(Some(1)),
            Some(n) if n >= 0 && n < i32::MAX => {
                raised.push(Some(n + 1));
                raised.push(Some(-1));
            }
            _ => {}
        }
        for r in raised {
            let mut k2 = k.clone();
            *count_mut(&mut k2, key).unwrap() = r;
            let Some(more) = kept_set(&k2, &snaps, &now) else { return "oracle-fail:rerun".into() };
            if base.iter().zip(&more).any(|(b, m)| *b && !*m) {
                return format!("oracle-fail:not-monotone-{key}");
            }
        }
    }
    if items.is_empty() { "ok -".into() } else { format!("ok {}", items.join(",")) }
}

pub fn exec(toks: &[&str]) -> String {
    let owned: Vec<String> = toks.iter().map(|s| s.to_string()).collect();
    guarded(move || {
        let toks: Vec<&str> = owned.iter().map(String::as_str).collect();
        match (toks.first().copied(), toks.len()) {
            (Some("apply"), 5) => exec_apply(&toks),
            (Some("cal"), 3) => {
                let (Ok(t), Ok(off)) = (toks[1].parse::<i128>(), toks[2].parse::<i32>()) else { return "bad-op".into() };
                let Some(z) = zoned(t, off) else { return "bad-op".into() };
                let iso = z.clone().iso_week_date();
                format!(
                    "ok {} {} {} {} {} {} {} {} {} {}",
                    z.year(), z.month(), z.day(), z.day_of_year(), z.hour(), z.minute(), z.second(),
                    iso.year(), iso.week(), z.weekday().to_monday_one_offset()
                )
            }
            (Some("add"), 4) => {
                let (Ok(t), Ok(off), Some(sp)) = (toks[1].parse::<i128>(), toks[2].parse::<i32>(), mk_span(toks[3])) else { return "bad-op".into() };
                let Some(z) = zoned(t, off) else { return "bad-op".into() };
                format!("ok {}", z.saturating_add(sp).timestamp().as_nanosecond())
            }
            (Some("eq"), 5) => {
                let p: Vec<Option<i128>> = toks[1..].iter().map(|s| s.parse().ok()).collect();
                let (Some(t1), Some(o1), Some(t2), Some(o2)) = (p[0], p[1], p[2], p[3]) else { return "bad-op".into() };
                let (Some(z1), Some(z2)) = (zoned(t1, o1 as i32), zoned(t2, o2 as i32)) else { return "bad-op".into() };
                let mut a = SnapshotFile::default();
                a.time = z1;
                let mut b = SnapshotFile::default();
                b.time = z2;
                let bits = rustic_core::verif::forget::period_predicates(&a, &b);
                format!("ok {}", bits.iter().map(|x| if *x { '1' } else { '0' }).collect::<String>())
            }
            (Some("mark"), 5) => {
                // the delete mark alone: `must_keep`, `must_delete` (public) and `ForgetGroups::from_snapshots`
                // (forget with explicit ids) — inside `apply` the `<` of `must_delete` is shadowed by `must_keep`
                let (Ok(doff), Ok(now_ns), Ok(noff)) = (toks[2].parse::<i32>(), toks[3].parse::<i128>(), toks[4].parse::<i32>()) else { return "bad-op".into() };
                let Some(now) = zoned(now_ns, noff) else { return "bad-op".into() };
                let mut sn = SnapshotFile::default();
                sn.delete = match toks[1] {
                    "n" => DeleteOption::NotSet,
                    "N" => DeleteOption::Never,
                    a => {
                        let Some(t) = a.strip_prefix('A').and_then(|x| x.parse::<i128>().ok()).and_then(|t| zoned(t, doff)) else { return "bad-op".into() };
                        DeleteOption::After(t)
                    }
                };
                let (k, d) = (sn.must_keep(&now), sn.must_delete(&now));
                let groups = rustic_core::ForgetGroups::from_snapshots(vec![sn.clone()], &now);
                let (mut n, mut f) = (0, false);
                for g in &groups.0 {
                    for it in &g.items {
                        n += 1;
                        f = it.keep;
                    }
                }
                if n != 1 {
                    return "oracle-fail:from-snapshots-lost-the-snapshot".into();
                }
                // statement level: a mark whose time has passed (strictly) is expired, one whose time is now or later protects
                if let DeleteOption::After(t) = &sn.delete {
                    let passed = t.timestamp() < now.timestamp();
                    if d != passed {
                        return format!("oracle-fail:must-delete-{d}-but-passed-{passed}");
                    }
                    if k == passed {
                        return format!("oracle-fail:must-keep-{k}-but-passed-{passed}");
                    }
                }
                let b = |x: bool| if x { '1' } else { '0' };
                format!("ok k={} d={} f={}", b(k), b(d), b(f))
            }
            _ => "bad-op".into(),
        }
    })
}

// ------------------------------------------------------------------------------------------ generator

const OFFSETS: [i32; 10] = [0, 0, 3600, 7200, -18000, 19800, 20700, 50400, -43200, -34200];
const YEARS: [i16; 24] = [
    1969, 1970, 1999, 2000, 2004, 2009, 2010, 2014, 2015, 2016, 2018, 2019, 2020, 2021, 2023, 2024, 2025, 2026, 2027, 2032, 2099,
    2100, 2101, 2400,
];
const SEC: i128 = 1_000_000_000;

/// an instant on a period boundary (the first instant of the new period) of the given kind, local to `off`
fn boundary(rng: &mut Rng, off: i32, stats: &mut Stats) -> i128 {
    let y = *rng.pick(&YEARS);
    let kind = rng.below(9);
    let (mo, d, h, mi): (i8, i8, i8, i8) = match kind {
        0 => (1, 1, 0, 0),                                                       // year (and ISO-year edge region)
        1 => (7, 1, 0, 0),                                                       // half year
        2 => (*rng.pick(&[4i8, 10]), 1, 0, 0),                                   // quarter
        3 => (rng.range(1, 12) as i8, 1, 0, 0),                                  // month
        4 => (rng.range(1, 12) as i8, rng.range(1, 28) as i8, 0, 0),             // day
        5 => (rng.range(1, 12) as i8, rng.range(1, 28) as i8, rng.range(0, 23) as i8, 0), // hour
        6 => (rng.range(1, 12) as i8, rng.range(1, 28) as i8, rng.range(0, 23) as i8, rng.range(0, 59) as i8), // minute
        7 => (3, 1, 0, 0),                                                       // Feb/Mar (leap day)
        _ => (*rng.pick(&[1i8, 12]), *rng.pick(&[1i8, 2, 3, 4, 5, 28, 29, 30, 31]), 0, 0), // ISO week-year edge days
    };
    stats.hit(format!("boundary.{}", ["year", "half", "quarter", "month", "day", "hour", "minute", "leap", "isoedge"][kind as usize]));
    let mut dt = date(y, mo, d).at(h, mi, 0, 0);
    if kind == 8 || rng.chance(1, 5) {
        // move to the Monday 00:00 of that ISO week (week boundary)
        let back = dt.date().weekday().to_monday_zero_offset() as i64;
        if rng.chance(1, 2) {
            dt = dt.checked_sub(Span::new().days(back)).unwrap();
            stats.hit("boundary.week");
        }
    }
    let ts = dt.to_zoned(TimeZone::fixed(Offset::from_seconds(off).unwrap())).unwrap().timestamp();
    ts.as_nanosecond()
}

fn delta(rng: &mut Rng) -> i128 {
    let day = 86400 * SEC;
    let mag: i128 = match rng.below(16) {
        0 => 0,
        1 => 1,
        2 => SEC,
        3 => 59 * SEC,
        4 => 60 * SEC,
        5 => 61 * SEC,
        6 => 3599 * SEC,
        7 => 3600 * SEC,
        8 => day - SEC,
        9 => day,
        10 => 7 * day,
        11 => rng.range(1, 40) as i128 * day,
        12 => rng.range(28, 400) as i128 * day + rng.below(86400) as i128 * SEC,
        13 => rng.below(3600) as i128 * SEC,
        14 => rng.below(86400 * 3) as i128 * SEC + rng.below(1_000_000_000) as i128,
        _ => rng.range(1, 6) as i128 * 365 * day,
    };
    if rng.chance(1, 2) { -mag } else { mag }
}

fn gen_span(rng: &mut Rng) -> String {
    const H: u64 = 3_600_000_000_000;
    let (y, mo, w, d, ns): (u64, u64, u64, u64, u64) = match rng.below(16) {
        0 => (0, 0, 0, 0, H),
        1 => (0, 0, 0, 1, 0),
        2 => (0, 0, 0, 2, 0),
        3 => (0, 0, 1, 0, 0),
        4 => (0, 1, 0, 0, 0),
        5 => (0, 1, 0, 14, 0),
        6 => (1, 0, 0, 0, 0),
        7 => (1, 2, 0, 3, 3 * H),
        8 => (0, 0, 0, 13, 23 * H),
        9 => (0, 0, 0, 0, 0),
        10 => (9999, 0, 0, 0, 0),
        11 => (0, 0, 0, 0, 1 + rng.below(120_000_000_000)),
        12 => (0, rng.below(30), 0, rng.below(40), 0),
        13 => (rng.below(3), rng.below(14), rng.below(3), rng.below(3), rng.below(48) * H / 2),
        14 => (0, 0, 0, rng.below(400), rng.below(86400) * 1_000_000_000),
        _ => (0, rng.below(4), 0, 0, 0),
    };
    format!("{}.{y}.{mo}.{w}.{d}.{ns}", if rng.chance(1, 12) { "n" } else { "p" })
}

fn gen_set(rng: &mut Rng, names: &[&str]) -> String {
    let mut v: Vec<&str> = names.iter().copied().filter(|_| rng.chance(1, 3)).collect();
    if rng.chance(1, 30) {
        v.push("~");
    }
    if v.is_empty() { "-".into() } else { v.join("+") }
}

fn gen_count(rng: &mut Rng) -> i64 {
    match rng.below(14) {
        0 => -1,
        1 => 0,
        2 | 3 => 1,
        4 | 5 => 2,
        6 => 3,
        7 => 5,
        8 => i32::MAX as i64,
        9 => i32::MIN as i64,
        10 => -7,
        _ => rng.below(12) as i64,
    }
}

fn gen_apply(thorough: bool, rng: &mut Rng, stats: &mut Stats) -> String {
    let mixed_off = rng.chance(1, 5);
    let off0 = *rng.pick(&OFFSETS);
    let n = match rng.below(12) {
        0 => 0,
        1 => 1,
        2 => 2,
        3..=8 => rng.range(3, 9),
        9 | 10 => rng.range(10, 20),
        _ => if thorough { rng.range(20, 60) } else { rng.range(20, 32) },
    } as usize;
    let n_anchor = 1 + rng.below(3);
    let anchors: Vec<i128> = (0..n_anchor).map(|_| boundary(rng, off0, stats)).collect();
    let idpool: Vec<String> = (0..3).map(|_| format!("{:06x}", rng.below(1 << 24))).collect();
    let mut times: Vec<i128> = Vec::new();
    let mut snaps: Vec<String> = Vec::new();
    for i in 0..n {
        let t = if !times.is_empty() && rng.chance(1, 8) {
            stats.hit("snap.duplicate-instant");
            *rng.pick(&times)
        } else if !times.is_empty() && rng.chance(1, 4) {
            *rng.pick(&times) + delta(rng)
        } else {
            *rng.pick(&anchors) + delta(rng)
        };
        times.push(t);
        let off = if mixed_off { *rng.pick(&OFFSETS) } else { off0 };
        let id = format!("{}{:02x}", if rng.chance(2, 3) { idpool[0].clone() } else { rng.pick(&idpool).clone() }, i);
        let tree = rng.range(1, 3);
        let tags = if rng.chance(1, 2) { "-".to_string() } else { gen_set(rng, &["a", "b", "c"]) };
        let del = match rng.below(12) {
            0 => {
                stats.hit("snap.never");
                "N".to_string()
            }
            1 => {
                stats.hit("snap.after");
                format!("A{}", t + delta(rng))
            }
            _ => "n".to_string(),
        };
        snaps.push(format!("{t}:{off}:{id}:{tree}:{tags}:{del}"));
    }
    stats.hit(format!("apply.n={}", match n { 0 => "0", 1 => "1", 2 => "2", 3..=9 => "3-9", 10..=19 => "10-19", _ => ">=20" }));
    if mixed_off {
        stats.hit("apply.mixed-offsets");
    }
    // options
    let mut opts: Vec<String> = Vec::new();
    let density = rng.range(1, 4);
    for key in KEYS {
        if rng.chance(1, 2 + density) {
            opts.push(format!("{key}={}", gen_count(rng)));
            stats.hit(format!("opt.{key}"));
        }
        if rng.chance(1, 6 + 2 * density) {
            opts.push(format!("W{key}={}", gen_span(rng)));
            stats.hit(format!("opt.W{key}"));
        }
    }
    if rng.chance(1, 6) {
        let k = 1 + rng.below(2);
        let lists: Vec<String> = (0..k).map(|_| gen_set(rng, &["a", "b", "c", "d"])).collect();
        opts.push(format!("tags={}", lists.join("|")));
        stats.hit("opt.tags");
    }
    if rng.chance(1, 6) && n > 0 {
        let k = 1 + rng.below(2);
        let ids: Vec<String> = (0..k)
            .map(|_| {
                let full = full_id(snaps[rng.below(n as u64) as usize].split(':').nth(2).unwrap());
                match rng.below(8) {
                    0 => "~".to_string(),
                    1 => format!("{:04x}", rng.below(65536)),
                    2 => full[..rng.range(1, 8) as usize].to_uppercase(),
                    3 => full[..rng.range(8, 12) as usize].to_string(),
                    _ => full[..rng.range(1, 8) as usize].to_string(),
                }
            })
            .collect();
        opts.push(format!("ids={}", ids.join("|")));
        stats.hit("opt.ids");
    }
    if rng.chance(1, 12) {
        opts.push("none".into());
    }
    if rng.chance(1, 5) {
        opts.push("unch".into());
        stats.hit("opt.unch");
    }
    if opts.is_empty() {
        stats.hit("opt.empty");
    }
    let latest = times.iter().copied().max().unwrap_or(0);
    let now = match rng.below(4) {
        0 => latest,
        1 => latest + delta(rng),
        2 => {
            // exactly a delete-after time, if there is one
            snaps.iter().filter_map(|s| s.rsplit(':').next().unwrap().strip_prefix('A').map(|a| a.parse::<i128>().unwrap())).next().unwrap_or(latest)
        }
        _ => latest + 365 * 86400 * SEC,
    };
    let snaps_s = if snaps.is_empty() { "-".to_string() } else { snaps.join(";") };
    let opts_s = if opts.is_empty() { "-".to_string() } else { opts.join(",") };
    // the order std's deterministic unstable sort leaves them in
    let real = parse_snaps(&snaps_s).expect("generated snaps parse");
    let mut sorted = real.clone();
    sort_like_apply(&mut sorted);
    let perm: Vec<String> = sorted.iter().map(|s| idx_of(&real, s).unwrap().to_string()).collect();
    let perm_s = if perm.is_empty() { "-".to_string() } else { perm.join(".") };
    format!("c09 apply {opts_s} {now} {perm_s} {snaps_s}")
}

pub fn generate(thorough: bool, rng: &mut Rng, ops: &mut Vec<String>, stats: &mut Stats) {
    let n_apply = if thorough { 150_000 } else { 12_000 };
    for _ in 0..n_apply {
        ops.push(gen_apply(thorough, rng, stats));
        stats.hit("op.apply");
    }
    // calendar and predicates at period boundaries
    let n_cal = if thorough { 60_000 } else { 6_000 };
    for _ in 0..n_cal {
        let off = *rng.pick(&OFFSETS);
        let t = boundary(rng, off, stats) + delta(rng);
        ops.push(format!("c09 cal {t} {off}"));
        stats.hit("op.cal");
        let off2 = if rng.chance(1, 4) { *rng.pick(&OFFSETS) } else { off };
        let t2 = t + delta(rng);
        ops.push(format!("c09 eq {t} {off} {t2} {off2}"));
        stats.hit("op.eq");
        ops.push(format!("c09 add {t} {off} {}", gen_span(rng)));
        stats.hit("op.add");
    }
    // delete marks at the boundary `delete-after == now` (and one ns / one s around it), any two zone offsets
    for _ in 0..(if thorough { 20_000 } else { 2_000 }) {
        let off = *rng.pick(&OFFSETS);
        let t = boundary(rng, off, stats) + delta(rng);
        let now = t + match rng.below(8) {
            0 | 1 | 2 => 0,
            3 => 1,
            4 => -1,
            5 => SEC,
            6 => -SEC,
            _ => delta(rng),
        };
        let del = match rng.below(8) {
            0 => "n".to_string(),
            1 => "N".to_string(),
            _ => format!("A{t}"),
        };
        ops.push(format!("c09 mark {del} {} {now} {}", rng.pick(&OFFSETS), rng.pick(&OFFSETS)));
        stats.hit("op.mark");
    }
    // dense: every day from Dec 24 to Jan 8 (ISO week-year edges) and the last three days of every month
    let years: Vec<i16> = if thorough { (1900..=2200).collect() } else { (1995..=2035).collect() };
    for y in years {
        for (mo, d) in [(12i8, 24i8), (12, 27), (12, 28), (12, 29), (12, 30), (12, 31), (1, 1), (1, 2), (1, 3), (1, 4), (1, 5), (1, 7), (2, 28), (3, 1), (6, 30), (7, 1)] {
            let off = *rng.pick(&OFFSETS);
            let base = date(y, mo, d).at(0, 0, 0, 0).to_zoned(TimeZone::fixed(Offset::from_seconds(off).unwrap())).unwrap().timestamp().as_nanosecond();
            for dt in [-1i128, 0, 86399 * SEC] {
                ops.push(format!("c09 cal {} {off}", base + dt));
                stats.hit("op.cal-dense");
            }
            ops.push(format!("c09 eq {} {off} {} {off}", base - 1, base));
            ops.push(format!("c09 eq {} {off} {} {off}", base, base + 7 * 86400 * SEC - 1));
            stats.add("op.eq-dense", 2);
        }
        // month-end clamping of calendar spans
        for (mo, d) in [(1i8, 29i8), (1, 30), (1, 31), (3, 31), (5, 31), (8, 31), (10, 31), (12, 31), (2, 28)] {
            let off = *rng.pick(&OFFSETS);
            let base = date(y, mo, d).at(12, 0, 0, 0).to_zoned(TimeZone::fixed(Offset::from_seconds(off).unwrap())).unwrap().timestamp().as_nanosecond();
            for sp in ["p.0.1.0.0.0", "p.1.1.0.0.0", "p.0.13.0.1.0", "n.0.1.0.0.0", "p.4.0.0.0.0", "n.0.11.0.0.3600000000000"] {
                ops.push(format!("c09 add {base} {off} {sp}"));
                stats.hit("op.add-dense");
            }
        }
    }
}
