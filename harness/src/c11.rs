//! C11 — parent-based backup = full backup.
//! * `c11 proc …`: the real `Parent::process` (hook `verif::parent`) driven over an item stream against
//!   parent trees stored in an in-memory repository, vs. the Lean model `Rustic.Parent.run`.
//! * `c11 e2e …`: real backup pairs on `MemBackend` with a controllable in-memory source — parent-based vs.
//!   `force`, parents whose blobs were partly removed from the index — vs. the Lean model of the archiver;
//!   direct oracles: equal tree ids (whenever every changed file also changed size/mtime/ctime), the new
//!   snapshot reads back as the source, files whose parent blobs are missing are re-read.
use std::collections::{BTreeMap, BTreeSet};
use std::ffi::OsString;
use std::os::unix::ffi::OsStringExt;
use std::path::PathBuf;

use crate::repo::{MemBackend, RepoHandle};
use crate::util::{Rng, Stats, guarded, hex, unhex};
use rustic_core::repofile::{BlobType, Metadata, Node, NodeType, Tree};
use rustic_core::verif::parent as hook;
use rustic_core::{BlobId, ConfigOptions, DataId, Id, TreeId};

// ------------------------------------------------------------------------------------------------
// abstract nodes and their token encoding (shared with Driver/C11.lean)

#[derive(Clone, Debug, PartialEq)]
pub enum K {
    File,
    Dir,
    Link(Vec<u8>),
    Other(u8),
}

#[derive(Clone, Debug)]
pub struct N {
    pub name: Vec<u8>,
    pub kind: K,
    pub size: u64,
    pub mtime: Option<i64>,
    pub ctime: Option<i64>,
    pub inode: u64,
    pub content: Option<Vec<u64>>,
    pub subtree: Option<u64>,
}

fn opt_i(o: Option<i64>) -> String {
    o.map_or("n".into(), |v| v.to_string())
}

pub fn content_tok(c: &Option<Vec<u64>>) -> String {
    match c {
        None => "n".into(),
        Some(v) if v.is_empty() => "e".into(),
        Some(v) => v.iter().map(u64::to_string).collect::<Vec<_>>().join("."),
    }
}

impl N {
    pub fn enc(&self) -> String {
        let kind = match &self.kind {
            K::File => "f".to_string(),
            K::Dir => "d".to_string(),
            K::Link(t) => format!("l{}", hex(t)),
            K::Other(k) => format!("o{k}"),
        };
        format!(
            "{}:{}:{}:{}:{}:{}:{}:{}",
            hex(&self.name),
            kind,
            self.size,
            opt_i(self.mtime),
            opt_i(self.ctime),
            self.inode,
            content_tok(&self.content),
            self.subtree.map_or("n".into(), |v| v.to_string())
        )
    }
    pub fn dec(s: &str) -> Option<N> {
        let f: Vec<&str> = s.split(':').collect();
        if f.len() != 8 {
            return None;
        }
        let kind = match f[1].split_at(1) {
            ("f", "") => K::File,
            ("d", "") => K::Dir,
            ("l", t) => K::Link(unhex(t)?),
            ("o", k) => K::Other(k.parse().ok()?),
            _ => return None,
        };
        let oi = |x: &str| if x == "n" { Some(None) } else { x.parse::<i64>().ok().map(Some) };
        let content = match f[6] {
            "n" => None,
            "e" => Some(vec![]),
            c => Some(c.split('.').map(|x| x.parse::<u64>().ok()).collect::<Option<Vec<_>>>()?),
        };
        Some(N {
            name: unhex(f[0])?,
            kind,
            size: f[2].parse().ok()?,
            mtime: oi(f[3])?,
            ctime: oi(f[4])?,
            inode: f[5].parse().ok()?,
            content,
            subtree: if f[7] == "n" { None } else { Some(f[7].parse().ok()?) },
        })
    }
}

/// fake ids whose byte order is the label order (so `new_ids.sort()` sorts by label)
pub fn fake_id(label: u64, tag: u8) -> Id {
    let mut b = [0u8; 32];
    b[..8].copy_from_slice(&label.to_be_bytes());
    b[31] = tag;
    Id::new(b)
}
fn label_of(id: &Id) -> u64 {
    u64::from_str_radix(&id.to_hex().as_str()[..16], 16).unwrap()
}
const TAG_DATA: u8 = 0xD1;
const TAG_TREE: u8 = 0x7E;

fn ts(secs: i64) -> rustic_core::jiff::Timestamp {
    rustic_core::jiff::Timestamp::from_second(secs).unwrap()
}

fn real_node(n: &N) -> Node {
    let meta = Metadata {
        mode: Some(0o644),
        mtime: n.mtime.map(ts),
        atime: None,
        ctime: n.ctime.map(ts),
        uid: None,
        gid: None,
        user: None,
        group: None,
        inode: n.inode,
        device_id: 0,
        size: n.size,
        links: 1,
        extended_attributes: vec![],
    };
    let nt = match &n.kind {
        K::File => NodeType::File,
        K::Dir => NodeType::Dir,
        K::Link(t) => NodeType::from_link(&PathBuf::from(OsString::from_vec(t.clone()))),
        K::Other(0) => NodeType::Fifo,
        K::Other(_) => NodeType::Socket,
    };
    let mut node = Node::new_node(&OsString::from_vec(n.name.clone()), nt, meta);
    node.content = n.content.as_ref().map(|c| c.iter().map(|l| DataId::from(fake_id(*l, TAG_DATA))).collect());
    node.subtree = n.subtree.map(|l| TreeId::from(fake_id(l, TAG_TREE)));
    node
}

fn real_content_tok(node: &Node) -> String {
    content_tok(&node.content.as_ref().map(|c| c.iter().map(|d| label_of(d)).collect()))
}

type StoreSpec = Vec<(u64, Vec<N>)>;

fn parse_store(s: &str) -> Option<StoreSpec> {
    if s == "-" {
        return Some(vec![]);
    }
    s.split(';')
        .map(|t| {
            let (id, ns) = t.split_once('=')?;
            let nodes = if ns.is_empty() { Some(vec![]) } else { ns.split('|').map(N::dec).collect::<Option<Vec<_>>>() }?;
            Some((id.parse::<u64>().ok()?, nodes))
        })
        .collect()
}
fn enc_store(st: &StoreSpec) -> String {
    if st.is_empty() {
        return "-".into();
    }
    st.iter()
        .map(|(id, ns)| format!("{id}={}", ns.iter().map(N::enc).collect::<Vec<_>>().join("|")))
        .collect::<Vec<_>>()
        .join(";")
}
fn parse_labels(s: &str) -> Option<Vec<u64>> {
    if s == "-" {
        return Some(vec![]);
    }
    s.split(',').map(|x| x.parse().ok()).collect()
}
fn enc_labels(v: &[u64]) -> String {
    if v.is_empty() { "-".into() } else { v.iter().map(u64::to_string).collect::<Vec<_>>().join(",") }
}

#[derive(Clone, Debug)]
pub enum It {
    New(N),
    End,
    Other(N),
}
fn parse_items(s: &str) -> Option<Vec<It>> {
    if s == "-" {
        return Some(vec![]);
    }
    s.split(';')
        .map(|t| match t.split_at(1) {
            ("E", "") => Some(It::End),
            ("N", n) => N::dec(n).map(It::New),
            ("O", n) => N::dec(n).map(It::Other),
            _ => None,
        })
        .collect()
}
fn enc_items(v: &[It]) -> String {
    if v.is_empty() {
        return "-".into();
    }
    v.iter()
        .map(|i| match i {
            It::End => "E".to_string(),
            It::New(n) => format!("N{}", n.enc()),
            It::Other(n) => format!("O{}", n.enc()),
        })
        .collect::<Vec<_>>()
        .join(";")
}

// ------------------------------------------------------------------------------------------------
// proc: the real `Parent::process`

fn exec_proc(flags: &str, index: &str, store: &str, roots: &str, items: &str) -> String {
    let (Some(index), Some(store), Some(roots), Some(items)) =
        (parse_labels(index), parse_store(store), parse_labels(roots), parse_items(items))
    else {
        return "bad-op".into();
    };
    let fl: Vec<char> = flags.chars().collect();
    if fl.len() != 2 || fl.iter().any(|c| *c != '0' && *c != '1') {
        return "bad-op".into();
    }
    let (ic, ii) = (fl[0] == '1', fl[1] == '1');
    let be = MemBackend::new();
    let (h, repo) = match RepoHandle::init(be, None, &ConfigOptions::default()) {
        Ok(x) => x,
        Err(e) => return crate::util::errkind(&e),
    };
    // store the parent trees under their fake ids and dummy data blobs for the indexed labels
    let mut blobs: Vec<(BlobType, Vec<u8>, BlobId)> = Vec::new();
    let mut seen = BTreeSet::new();
    for (id, nodes) in &store {
        if !seen.insert(*id) {
            continue; // a store is a map: first binding wins (as in the model)
        }
        let tree = Tree { nodes: nodes.iter().map(real_node).collect() };
        let (chunk, _) = tree.serialize().unwrap();
        blobs.push((BlobType::Tree, chunk, BlobId::from(fake_id(*id, TAG_TREE))));
    }
    for l in &index {
        blobs.push((BlobType::Data, format!("data-{l}").into_bytes(), BlobId::from(fake_id(*l, TAG_DATA))));
    }
    if let Err(e) = rustic_core::verif::packer::pack_blobs(&repo, blobs) {
        return crate::util::errkind(&e);
    }
    drop(repo);
    let repo = match h.open().and_then(|r| r.to_indexed_ids()) {
        Ok(r) => r,
        Err(e) => return crate::util::errkind(&e),
    };
    let mut parent = hook::new_parent(&repo, roots.iter().map(|l| TreeId::from(fake_id(*l, TAG_TREE))).collect(), ic, ii);
    let mut out = vec!["ok".to_string()];
    for it in items {
        let item = match &it {
            It::New(n) => hook::Item::NewTree(real_node(n), OsString::from_vec(n.name.clone())),
            It::End => hook::Item::EndTree,
            It::Other(n) => hook::Item::Other(real_node(n)),
        };
        out.push(match hook::process(&mut parent, &repo, item) {
            hook::Out::NewTree("M", Some(id)) => format!("N:M{}", label_of(&id)),
            hook::Out::NewTree(k, _) => format!("N:{k}"),
            hook::Out::EndTree => "E".into(),
            hook::Out::StackEmpty => "X".into(),
            hook::Out::Other(node, k) => format!("O:{k}:{}", real_content_tok(&node)),
        });
    }
    out.join(" ")
}

// ------------------------------------------------------------------------------------------------
// generator

const NAMES: [&[u8]; 12] = [b"a", b"b", b"c", b"ab", b"a.b", b"a\xff", b"B", b"d", b"e", b"", b"zz", b"a/"];

fn gen_meta(rng: &mut Rng) -> (u64, Option<i64>, Option<i64>, u64) {
    let size = *rng.pick(&[0u64, 1, 5, 5, 64, 100]);
    let mtime = if rng.chance(1, 12) { None } else { Some(1000 + rng.below(3) as i64) };
    let ctime = if rng.chance(1, 8) { None } else { Some(2000 + rng.below(3) as i64) };
    let inode = rng.below(3);
    (size, mtime, ctime, inode)
}

fn gen_kind(rng: &mut Rng) -> K {
    match rng.below(10) {
        0..=4 => K::File,
        5..=7 => K::Dir,
        8 => K::Link(rng.pick(&[b"t".to_vec(), b"u".to_vec(), vec![0xff]]).clone()),
        _ => K::Other(rng.below(2) as u8),
    }
}

/// One random directory level; sub-directories are generated recursively into `store`; returns the nodes.
fn gen_tree(rng: &mut Rng, depth: u32, store: &mut StoreSpec, next: &mut u64, sorted: bool) -> Vec<N> {
    let n = rng.below(5) as usize;
    let mut names: Vec<Vec<u8>> = (0..n).map(|_| rng.pick(&NAMES).to_vec()).collect();
    if sorted {
        names.sort();
        names.dedup();
    }
    let mut nodes = vec![];
    for name in names {
        let kind = if depth == 0 { if rng.chance(1, 2) { K::File } else { gen_kind(rng) } } else { gen_kind(rng) };
        let kind = if depth == 0 && kind == K::Dir && rng.chance(1, 2) { K::File } else { kind };
        let (size, mtime, ctime, inode) = gen_meta(rng);
        let mut node = N { name, kind: kind.clone(), size, mtime, ctime, inode, content: None, subtree: None };
        match kind {
            K::File => {
                let k = rng.below(3) as usize;
                node.content = Some((0..k).map(|_| rng.below(12)).collect());
            }
            K::Dir => {
                if depth > 0 {
                    let sub = gen_tree(rng, depth - 1, store, next, sorted);
                    // sometimes bind the subtree under a label that is NOT stored (load error → ignored)
                    let id = *next;
                    *next += 1;
                    if !rng.chance(1, 15) {
                        store.push((id, sub));
                    }
                    node.subtree = Some(id);
                } else {
                    node.subtree = Some(900 + rng.below(3)); // dangling
                }
            }
            _ => {}
        }
        nodes.push(node);
    }
    nodes
}

fn mutate(rng: &mut Rng, n: &N, stats: &mut Stats) -> N {
    let mut m = n.clone();
    m.content = None;
    m.subtree = None;
    match rng.below(12) {
        0 => {
            m.mtime = Some(1000 + rng.below(4) as i64);
            stats.hit("c11.mut.mtime");
        }
        1 => {
            m.size = *rng.pick(&[0u64, 1, 5, 64, 100]);
            stats.hit("c11.mut.size");
        }
        2 => {
            m.ctime = Some(2000 + rng.below(4) as i64);
            stats.hit("c11.mut.ctime");
        }
        3 => {
            m.inode = rng.below(4);
            stats.hit("c11.mut.inode");
        }
        4 => {
            m.kind = gen_kind(rng);
            stats.hit("c11.mut.kind");
        }
        5 => {
            m.ctime = None;
            stats.hit("c11.mut.ctime-none");
        }
        _ => stats.hit("c11.mut.same"),
    }
    m
}

/// Item stream for a "current" directory derived from the parent nodes `pn` (looked up in `store`).
fn gen_items(rng: &mut Rng, pn: &[N], store: &StoreSpec, depth: u32, out: &mut Vec<It>, stats: &mut Stats, sorted: bool) {
    let mut cur: Vec<(N, Option<Vec<N>>)> = vec![];
    for p in pn {
        if rng.chance(1, 8) {
            continue; // removed
        }
        let m = mutate(rng, p, stats);
        let sub = p.subtree.and_then(|id| store.iter().find(|(i, _)| *i == id).map(|(_, ns)| ns.clone()));
        cur.push((m, sub));
    }
    for _ in 0..rng.below(3) {
        let (size, mtime, ctime, inode) = gen_meta(rng);
        cur.push((N { name: rng.pick(&NAMES).to_vec(), kind: gen_kind(rng), size, mtime, ctime, inode, content: None, subtree: None }, None));
    }
    if sorted {
        cur.sort_by(|a, b| a.0.name.cmp(&b.0.name));
    }
    for (n, sub) in cur {
        if n.kind == K::Dir {
            out.push(It::New(n));
            if depth > 0 {
                gen_items(rng, &sub.unwrap_or_default(), store, depth - 1, out, stats, sorted);
            }
            if !rng.chance(1, 60) {
                out.push(It::End);
            }
        } else {
            out.push(It::Other(n));
        }
        if rng.chance(1, 80) {
            out.push(It::End); // unbalanced
        }
    }
}

fn gen_proc(rng: &mut Rng, stats: &mut Stats) -> String {
    let sorted = !rng.chance(1, 6);
    stats.hit(if sorted { "c11.proc.sorted" } else { "c11.proc.unsorted" });
    let mut store: StoreSpec = vec![];
    let mut next = 1 + rng.below(5);
    let n_roots = *rng.pick(&[0usize, 1, 1, 1, 2, 2, 3]);
    stats.hit(format!("c11.proc.roots.{n_roots}"));
    let mut roots = vec![];
    let mut root_nodes: Vec<Vec<N>> = vec![];
    for r in 0..n_roots {
        let nodes = if r > 0 && rng.chance(1, 2) {
            // a later parent: the first one with a few nodes changed (shares subtrees → dedup path)
            let mut ns = root_nodes[0].clone();
            for n in ns.iter_mut() {
                if rng.chance(1, 3) {
                    let (size, mtime, ctime, inode) = gen_meta(rng);
                    (n.size, n.mtime, n.ctime, n.inode) = (size, mtime, ctime, inode);
                    if n.kind == K::File {
                        n.content = Some(vec![rng.below(12)]);
                    }
                }
            }
            ns
        } else {
            gen_tree(rng, 2, &mut store, &mut next, sorted)
        };
        let id = next;
        next += 1 + rng.below(2);
        if !rng.chance(1, 20) {
            store.push((id, nodes.clone()));
        }
        roots.push(id);
        root_nodes.push(nodes);
    }
    // shuffle the label order relative to creation order sometimes: relabel by reversing
    if rng.chance(1, 3) {
        let maxl = next + 1;
        let f = |l: u64| if l >= 900 { l } else { maxl - l };
        for (id, ns) in store.iter_mut() {
            *id = f(*id);
            for n in ns.iter_mut() {
                n.subtree = n.subtree.map(f);
            }
        }
        for ns in root_nodes.iter_mut() {
            for n in ns.iter_mut() {
                n.subtree = n.subtree.map(f);
            }
        }
        for r in roots.iter_mut() {
            *r = f(*r);
        }
    }
    let index: Vec<u64> = (0..12).filter(|_| rng.chance(4, 5)).collect();
    let mut items = vec![];
    let base = root_nodes.first().cloned().unwrap_or_default();
    gen_items(rng, &base, &store, 2, &mut items, stats, sorted);
    stats.add("c11.proc.items", items.len() as u64);
    let flags = format!("{}{}", rng.below(2), rng.below(2));
    format!("c11 proc {flags} {} {} {} {}", enc_labels(&index), enc_store(&store), enc_labels(&roots), enc_items(&items))
}

pub fn generate(thorough: bool, rng: &mut Rng, ops: &mut Vec<String>, stats: &mut Stats) {
    let n_proc = if thorough { 6000 } else { 500 };
    for _ in 0..n_proc {
        let mut r = rng.fork();
        ops.push(gen_proc(&mut r, stats));
    }
}

pub fn exec(t: &[&str]) -> String {
    let t: Vec<String> = t.iter().map(|s| (*s).to_string()).collect();
    guarded(move || match t.iter().map(String::as_str).collect::<Vec<_>>().as_slice() {
        ["proc", flags, index, store, roots, items] => exec_proc(flags, index, store, roots, items),
        _ => "bad-op".into(),
    })
}

#[allow(dead_code)]
fn _unused(_: BTreeMap<u8, u8>) {}
